//! Free-running complement of C14: the scenario bodies with the `concurrent` feature on the real rayon.
//! The pool size comes from RAYON_NUM_THREADS (one process per pool size). Prints one JSON line per
//! scenario: {"scenario","pool","repeat","ok","digest"}; exit code 0 unless the reference is unreadable.
use std::collections::HashMap;

fn main() {
    assert!(concbody::CONCURRENT, "conc_real must be built with the concurrent feature");
    let args: Vec<String> = std::env::args().collect();
    let thorough = args.iter().any(|a| a == "thorough");
    let get = |k: &str| args.iter().position(|a| a == k).map(|i| args[i + 1].clone());
    let reference: HashMap<String, String> = match get("--ref") {
        Some(f) => std::fs::read_to_string(&f)
            .expect("reference digests")
            .lines()
            .filter_map(|l| l.split_once('\t').map(|(a, b)| (a.to_string(), b.to_string())))
            .collect(),
        None => HashMap::new(),
    };
    let only: Vec<String> = get("--only").map(|s| s.split(',').map(|x| x.to_string()).collect()).unwrap_or_default();
    let repeats: usize = get("--repeats").and_then(|s| s.parse().ok()).unwrap_or(1);
    let pool = std::env::var("RAYON_NUM_THREADS").unwrap_or_else(|_| "default".into());
    for s in concbody::scenarios(thorough) {
        if !only.is_empty() && !only.iter().any(|o| s.name == *o) {
            continue;
        }
        for rep in 0..repeats {
            let d = kit::hex(&(s.run)());
            let ok = match reference.get(&s.name) {
                Some(r) => (r == &d).to_string(),
                None => "null".to_string(),
            };
            println!("{{\"scenario\":\"{}\",\"pool\":\"{}\",\"repeat\":{},\"ok\":{},\"digest\":\"{}\"}}", s.name, pool, rep, ok, d);
        }
    }
}
