//! Controlled-scheduler stand-in for the subset of rayon's API that winterfell uses.
//!
//! Every parallel region (`for_each`, `collect`, `scope`, `find_any`) is turned into a list of tasks.
//! The tasks run on the calling thread, one after the other, in an order chosen by the harness through
//! the thread-local controller in `verif`; `current_num_threads()` returns the pool size the harness
//! chose. Tasks contain no synchronisation operations of their own, so they are the atomic steps a
//! cooperative scheduler would see as well.
use std::cell::RefCell;

pub mod verif {
    use std::cell::RefCell;
    use std::collections::BTreeMap;

    #[derive(Clone, Debug, PartialEq, Eq)]
    pub enum Order {
        Identity,
        Reverse,
        /// rotate left by k
        Rotate(usize),
        /// task i runs first
        First(usize),
        /// task i runs last
        Last(usize),
        /// tasks i and i+1 exchanged
        SwapAdjacent(usize),
        Perm(Vec<usize>),
    }

    impl Order {
        pub fn apply(&self, n: usize) -> Vec<usize> {
            let id: Vec<usize> = (0..n).collect();
            match self {
                Order::Identity => id,
                Order::Reverse => id.into_iter().rev().collect(),
                Order::Rotate(k) => {
                    let mut v = id;
                    if n > 0 {
                        v.rotate_left(k % n);
                    }
                    v
                },
                Order::First(i) => {
                    let mut v = id;
                    if *i < n {
                        let x = v.remove(*i);
                        v.insert(0, x);
                    }
                    v
                },
                Order::Last(i) => {
                    let mut v = id;
                    if *i < n {
                        let x = v.remove(*i);
                        v.push(x);
                    }
                    v
                },
                Order::SwapAdjacent(i) => {
                    let mut v = id;
                    if i + 1 < n {
                        v.swap(*i, i + 1);
                    }
                    v
                },
                Order::Perm(p) => {
                    if p.len() == n {
                        p.clone()
                    } else {
                        id
                    }
                },
            }
        }
    }

    #[derive(Clone, Debug)]
    pub struct Controller {
        pub pool: usize,
        pub default_order: Order,
        /// order of specific regions (by ordinal in this run)
        pub deviations: BTreeMap<usize, Order>,
        /// which of the first satisfying candidates `find_any` returns
        pub find_any_choice: usize,
        /// recorded: number of tasks of every region of this run
        pub regions: Vec<usize>,
    }

    impl Default for Controller {
        fn default() -> Self {
            Controller { pool: 1, default_order: Order::Identity, deviations: BTreeMap::new(), find_any_choice: 0, regions: vec![] }
        }
    }

    thread_local! {
        pub static CTL: RefCell<Controller> = RefCell::new(Controller::default());
    }

    pub fn set(c: Controller) {
        CTL.with(|x| *x.borrow_mut() = c);
    }
    pub fn take() -> Controller {
        CTL.with(|x| std::mem::take(&mut *x.borrow_mut()))
    }
    /// order for the next region of `n` tasks; records the region
    pub(crate) fn next_order(n: usize) -> Vec<usize> {
        CTL.with(|x| {
            let mut c = x.borrow_mut();
            let idx = c.regions.len();
            c.regions.push(n);
            let o = c.deviations.get(&idx).cloned().unwrap_or_else(|| c.default_order.clone());
            o.apply(n)
        })
    }
    pub(crate) fn pool() -> usize {
        CTL.with(|x| x.borrow().pool.max(1))
    }
    pub(crate) fn find_choice() -> usize {
        CTL.with(|x| x.borrow().find_any_choice)
    }
}

pub fn current_num_threads() -> usize {
    verif::pool()
}

// ------------------------------------------------------------------------------------------------
// iterators
// ------------------------------------------------------------------------------------------------

/// run `f` on every item in the order chosen for this region
fn run_region<T, F: FnMut(usize, T)>(items: Vec<T>, mut f: F) {
    let order = verif::next_order(items.len());
    let mut slots: Vec<Option<T>> = items.into_iter().map(Some).collect();
    for i in order {
        if let Some(x) = slots[i].take() {
            f(i, x);
        }
    }
}

pub mod iter {
    pub use super::{IndexedParallelIterator, IntoParallelIterator, IntoParallelRefIterator, IntoParallelRefMutIterator, ParallelIterator};
}

pub trait ParallelIterator: Sized {
    type Item;

    /// materialise the tasks of this region (items are produced eagerly and are independent)
    fn into_tasks(self) -> Vec<Self::Item>;

    fn for_each<F: Fn(Self::Item)>(self, f: F) {
        run_region(self.into_tasks(), |_, x| f(x));
    }

    fn map<R, F: Fn(Self::Item) -> R>(self, f: F) -> Map<Self, F> {
        Map { base: self, f }
    }

    fn collect<C: FromParallelIterator<Self::Item>>(self) -> C {
        C::from_par_iter(self)
    }

    fn find_any<P: Fn(&Self::Item) -> bool>(self, pred: P) -> Option<Self::Item> {
        let choice = verif::find_choice();
        let mut hits = 0;
        for x in self.into_tasks() {
            if pred(&x) {
                if hits == choice {
                    return Some(x);
                }
                hits += 1;
            }
        }
        None
    }
}

pub trait IndexedParallelIterator: ParallelIterator {
    fn enumerate(self) -> Iter<(usize, Self::Item)> {
        Iter(self.into_tasks().into_iter().enumerate().collect())
    }
    fn zip<Z: IntoParallelIterator>(self, other: Z) -> Iter<(Self::Item, Z::Item)> {
        Iter(self.into_tasks().into_iter().zip(other.into_par_iter().into_tasks()).collect())
    }
    fn with_min_len(self, _min: usize) -> Self {
        self
    }
    fn with_max_len(self, _max: usize) -> Self {
        self
    }
}

pub struct Iter<T>(pub Vec<T>);

impl<T> ParallelIterator for Iter<T> {
    type Item = T;
    fn into_tasks(self) -> Vec<T> {
        self.0
    }
}
impl<T> IndexedParallelIterator for Iter<T> {}

pub struct Map<I, F> {
    base: I,
    f: F,
}

impl<I: ParallelIterator, R, F: Fn(I::Item) -> R> ParallelIterator for Map<I, F> {
    type Item = R;
    fn into_tasks(self) -> Vec<R> {
        // the mapping closure is the task body: run it in the chosen order, keep results by index
        let items = self.base.into_tasks();
        let n = items.len();
        let mut out: Vec<Option<R>> = (0..n).map(|_| None).collect();
        let f = self.f;
        run_region(items, |i, x| out[i] = Some(f(x)));
        out.into_iter().map(|x| x.expect("task ran")).collect()
    }
    fn for_each<G: Fn(R)>(self, g: G) {
        let f = self.f;
        run_region(self.base.into_tasks(), |_, x| g(f(x)));
    }
}
impl<I: IndexedParallelIterator, R, F: Fn(I::Item) -> R> IndexedParallelIterator for Map<I, F> {}

pub trait FromParallelIterator<T> {
    fn from_par_iter<I: ParallelIterator<Item = T>>(it: I) -> Self;
}
impl<T> FromParallelIterator<T> for Vec<T> {
    fn from_par_iter<I: ParallelIterator<Item = T>>(it: I) -> Self {
        it.into_tasks()
    }
}

pub trait IntoParallelIterator {
    type Item;
    type Iter: ParallelIterator<Item = Self::Item>;
    fn into_par_iter(self) -> Self::Iter;
}

impl<I: ParallelIterator> IntoParallelIterator for I {
    type Item = I::Item;
    type Iter = I;
    fn into_par_iter(self) -> I {
        self
    }
}

impl<T> IntoParallelIterator for Vec<T> {
    type Item = T;
    type Iter = vec::IntoIter<T>;
    fn into_par_iter(self) -> vec::IntoIter<T> {
        Iter(self)
    }
}

impl<'a, T> IntoParallelIterator for &'a [T] {
    type Item = &'a T;
    type Iter = Iter<&'a T>;
    fn into_par_iter(self) -> Iter<&'a T> {
        Iter(self.iter().collect())
    }
}
impl<'a, T> IntoParallelIterator for &'a Vec<T> {
    type Item = &'a T;
    type Iter = Iter<&'a T>;
    fn into_par_iter(self) -> Iter<&'a T> {
        Iter(self.iter().collect())
    }
}
impl<'a, T> IntoParallelIterator for &'a mut [T] {
    type Item = &'a mut T;
    type Iter = Iter<&'a mut T>;
    fn into_par_iter(self) -> Iter<&'a mut T> {
        Iter(self.iter_mut().collect())
    }
}
impl<'a, T> IntoParallelIterator for &'a mut Vec<T> {
    type Item = &'a mut T;
    type Iter = Iter<&'a mut T>;
    fn into_par_iter(self) -> Iter<&'a mut T> {
        Iter(self.iter_mut().collect())
    }
}

/// the nonce search: a range that cannot be materialised; candidates are scanned in order and the
/// harness chooses which of the first satisfying ones is returned
pub struct RangeU64(std::ops::Range<u64>);
impl ParallelIterator for RangeU64 {
    type Item = u64;
    fn into_tasks(self) -> Vec<u64> {
        self.0.take(1 << 20).collect()
    }
    fn find_any<P: Fn(&u64) -> bool>(self, pred: P) -> Option<u64> {
        let choice = verif::find_choice();
        let mut hits = 0;
        verif::next_order(0);
        for x in self.0 {
            if pred(&x) {
                if hits == choice {
                    return Some(x);
                }
                hits += 1;
            }
        }
        None
    }
}
impl IntoParallelIterator for std::ops::Range<u64> {
    type Item = u64;
    type Iter = RangeU64;
    fn into_par_iter(self) -> RangeU64 {
        RangeU64(self)
    }
}
impl IntoParallelIterator for std::ops::Range<usize> {
    type Item = usize;
    type Iter = Iter<usize>;
    fn into_par_iter(self) -> Iter<usize> {
        Iter(self.collect())
    }
}

pub trait IntoParallelRefIterator<'a> {
    type Item: 'a;
    type Iter: ParallelIterator<Item = Self::Item>;
    fn par_iter(&'a self) -> Self::Iter;
}
impl<'a, T: 'a> IntoParallelRefIterator<'a> for [T] {
    type Item = &'a T;
    type Iter = Iter<&'a T>;
    fn par_iter(&'a self) -> Iter<&'a T> {
        Iter(self.iter().collect())
    }
}
impl<'a, T: 'a> IntoParallelRefIterator<'a> for Vec<T> {
    type Item = &'a T;
    type Iter = Iter<&'a T>;
    fn par_iter(&'a self) -> Iter<&'a T> {
        Iter(self.iter().collect())
    }
}
impl<'a, T: 'a, const N: usize> IntoParallelRefIterator<'a> for [T; N] {
    type Item = &'a T;
    type Iter = Iter<&'a T>;
    fn par_iter(&'a self) -> Iter<&'a T> {
        Iter(self.iter().collect())
    }
}

pub trait IntoParallelRefMutIterator<'a> {
    type Item: 'a;
    type Iter: ParallelIterator<Item = Self::Item>;
    fn par_iter_mut(&'a mut self) -> Self::Iter;
}
impl<'a, T: 'a> IntoParallelRefMutIterator<'a> for [T] {
    type Item = &'a mut T;
    type Iter = Iter<&'a mut T>;
    fn par_iter_mut(&'a mut self) -> Iter<&'a mut T> {
        Iter(self.iter_mut().collect())
    }
}
impl<'a, T: 'a> IntoParallelRefMutIterator<'a> for Vec<T> {
    type Item = &'a mut T;
    type Iter = Iter<&'a mut T>;
    fn par_iter_mut(&'a mut self) -> Iter<&'a mut T> {
        Iter(self.iter_mut().collect())
    }
}
impl<'a, T: 'a, const N: usize> IntoParallelRefMutIterator<'a> for [T; N] {
    type Item = &'a mut T;
    type Iter = Iter<&'a mut T>;
    fn par_iter_mut(&'a mut self) -> Iter<&'a mut T> {
        Iter(self.iter_mut().collect())
    }
}

pub trait ParallelSlice<T> {
    fn as_parallel_slice(&self) -> &[T];
    fn par_chunks(&self, size: usize) -> Iter<&[T]> {
        assert!(size != 0, "chunk size must not be zero");
        Iter(self.as_parallel_slice().chunks(size).collect())
    }
}
impl<T> ParallelSlice<T> for [T] {
    fn as_parallel_slice(&self) -> &[T] {
        self
    }
}

pub trait ParallelSliceMut<T> {
    fn as_parallel_slice_mut(&mut self) -> &mut [T];
    fn par_chunks_mut(&mut self, size: usize) -> Iter<&mut [T]> {
        assert!(size != 0, "chunk size must not be zero");
        Iter(self.as_parallel_slice_mut().chunks_mut(size).collect())
    }
}
impl<T> ParallelSliceMut<T> for [T] {
    fn as_parallel_slice_mut(&mut self) -> &mut [T] {
        self
    }
}

pub mod slice {
    pub use super::{ParallelSlice, ParallelSliceMut};
}

pub mod vec {
    pub type IntoIter<T> = super::Iter<T>;
}

pub mod prelude {
    pub use super::{
        FromParallelIterator, IndexedParallelIterator, IntoParallelIterator, IntoParallelRefIterator, IntoParallelRefMutIterator, ParallelIterator, ParallelSlice,
        ParallelSliceMut,
    };
}

// ------------------------------------------------------------------------------------------------
// scope
// ------------------------------------------------------------------------------------------------

pub struct Scope<'scope> {
    tasks: RefCell<Vec<Box<dyn FnOnce(&Scope<'scope>) + 'scope>>>,
}

impl<'scope> Scope<'scope> {
    pub fn spawn<F: FnOnce(&Scope<'scope>) + Send + 'scope>(&self, f: F) {
        self.tasks.borrow_mut().push(Box::new(f));
    }
}

pub fn scope<'scope, OP, R>(op: OP) -> R
where
    OP: FnOnce(&Scope<'scope>) -> R,
{
    let s = Scope { tasks: RefCell::new(vec![]) };
    let r = op(&s);
    // run the spawned tasks (and tasks they spawn) region by region, each in the chosen order
    loop {
        let batch: Vec<Box<dyn FnOnce(&Scope<'scope>) + 'scope>> = std::mem::take(&mut *s.tasks.borrow_mut());
        if batch.is_empty() {
            break;
        }
        run_region(batch, |_, t| t(&s));
    }
    r
}

pub fn join<A, B, RA, RB>(a: A, b: B) -> (RA, RB)
where
    A: FnOnce() -> RA,
    B: FnOnce() -> RB,
{
    let order = verif::next_order(2);
    if order[0] == 0 {
        let ra = a();
        let rb = b();
        (ra, rb)
    } else {
        let rb = b();
        let ra = a();
        (ra, rb)
    }
}
