//! Scenario bodies of C14. The same source is compiled twice: without the `concurrent` feature
//! (single-threaded reference, binary `conc_seq`) and with it on top of the rayon stand-in (binary
//! `conc_shim`). Every scenario returns a digest of all its deterministic outputs.
use std::sync::Arc;

use crypto::{hashers, DefaultRandomCoin, ElementHasher, Hasher, MerkleTree};
use fri::{DefaultProverChannel, FriOptions, FriProver};
use glue::{Fld, B128, B64};
use math::fields::QuadExtension;
use math::{fft, FieldElement};
use prover::matrix::{ColMatrix, RowMatrix};
use prover::StarkDomain;
use starkit::{build_statement, lenient, prove_with, verify_with, AKind, ASpec, AirSpec, Aux, Coin, Opts, ProveOutcome, Rule, Statement, Tail, VerifyOutcome};
use utils::Serializable;

/// true when this crate (and therefore winterfell) was built with the `concurrent` feature
pub const CONCURRENT: bool = cfg!(feature = "concurrent");

pub struct Scenario {
    pub name: String,
    pub run: Box<dyn Fn() -> Vec<u8> + Send + Sync>,
}

fn digest(parts: &[Vec<u8>]) -> Vec<u8> {
    let mut all = vec![];
    for p in parts {
        all.extend((p.len() as u64).to_le_bytes());
        all.extend(p);
    }
    hashers::Blake3_256::<B64>::hash(&all).to_bytes()
}

fn bytes_of<E: FieldElement>(v: &[E]) -> Vec<u8> {
    let mut out = Vec::with_capacity(v.len() * E::ELEMENT_BYTES);
    for e in v {
        out.extend(e.to_bytes());
    }
    out
}

fn poly<E: FieldElement>(n: usize, salt: u32) -> Vec<E> {
    (0..n).map(|i| E::from((i as u32).wrapping_mul(2654435761).wrapping_add(salt)) * E::from(salt | 1) + E::from(i as u32)).collect()
}

fn fft_scenario<B: Fld, E: FieldElement<BaseField = B>>(n: usize) -> Vec<u8> {
    let tw = fft::get_twiddles::<B>(n);
    let itw = fft::get_inv_twiddles::<B>(n);
    let p: Vec<E> = poly(n, 7);
    let mut a = p.clone();
    fft::evaluate_poly(&mut a, &tw);
    let b = fft::evaluate_poly_with_offset(&p, &tw, B::GENERATOR, 2);
    let b8 = fft::evaluate_poly_with_offset(&p, &tw, B::GENERATOR, 8);
    // short polynomials over large domains: the domain reaches the concurrency threshold long before the polynomial
    let big: Vec<Vec<E>> = if n <= 64 { [32usize, 64, 128].iter().map(|b| fft::evaluate_poly_with_offset(&p, &tw, B::GENERATOR, *b)).collect() } else { vec![] };
    let mut c = a.clone();
    fft::interpolate_poly(&mut c, &itw);
    let mut d = p.clone();
    fft::interpolate_poly_with_offset(&mut d, &itw, B::GENERATOR);
    let deg = fft::infer_degree(&a, B::ONE);
    let mut parts = vec![bytes_of(&tw), bytes_of(&itw), bytes_of(&a), bytes_of(&b), bytes_of(&b8), bytes_of(&c), bytes_of(&d), deg.to_le_bytes().to_vec()];
    // other domain offsets, in particular the unshifted domain (offset ONE) and an offset that is a root of unity
    for off in [B::ONE, B::get_root_of_unity(2)] {
        parts.push(bytes_of(&fft::evaluate_poly_with_offset(&p, &tw, off, 2)));
        let mut d2 = p.clone();
        fft::interpolate_poly_with_offset(&mut d2, &itw, off);
        parts.push(bytes_of(&d2));
    }
    for v in big.iter() {
        parts.push(bytes_of(v));
    }
    digest(&parts)
}

fn utils_scenario<B: Fld, E: FieldElement<BaseField = B>>(n: usize) -> Vec<u8> {
    let base = E::from(3u32) + E::from(B::GENERATOR);
    let ps = math::get_power_series(base, n);
    let pso = math::get_power_series_with_offset(base, E::from(5u32), n);
    let mut a: Vec<E> = poly(n, 11);
    let b: Vec<E> = poly(n, 13);
    math::add_in_place(&mut a, &b);
    let f: Vec<B> = poly(n, 17);
    let mut m: Vec<E> = poly(n, 19);
    math::mul_acc(&mut m, &f, base);
    let mut z: Vec<E> = poly(n, 23);
    for k in [0usize, 1, n / 2, n - 1] {
        if k < n {
            z[k] = E::ZERO;
        }
    }
    let inv = math::batch_inversion(&z);
    let pso1 = math::get_power_series_with_offset(base, E::ONE, n);
    let pso0 = math::get_power_series_with_offset(base, E::ZERO, n);
    let ps1 = math::get_power_series(E::ONE, n);
    digest(&[bytes_of(&ps), bytes_of(&pso), bytes_of(&pso1), bytes_of(&pso0), bytes_of(&ps1), bytes_of(&a), bytes_of(&m), bytes_of(&inv)])
}

fn merkle_scenario<H: Hasher>(n: usize) -> Vec<u8> {
    let leaves: Vec<H::Digest> = (0..n).map(|i| H::hash(&(i as u64 * 7 + 1).to_le_bytes())).collect();
    let tree = MerkleTree::<H>::new(leaves).expect("tree");
    let mut parts = vec![tree.root().to_bytes()];
    for i in [0usize, 1, n / 2, n - 1] {
        let path = tree.prove(i).expect("path");
        let mut b = vec![];
        for d in path {
            b.extend(d.to_bytes());
        }
        parts.push(b);
    }
    let batch = tree.prove_batch(&[1, 2, n / 3, n - 2]).expect("batch");
    parts.push(batch.serialize_nodes());
    digest(&parts)
}

fn fri_scenario<B: Fld, E: FieldElement<BaseField = B>, H: ElementHasher<BaseField = B>>(n: usize, folding: usize) -> Vec<u8> {
    let blowup = 4;
    let p: Vec<E> = poly(n / blowup, 29);
    let tw = fft::get_twiddles::<B>(n / blowup);
    let evals = fft::evaluate_poly_with_offset(&p, &tw, B::GENERATOR, blowup);
    let mut parts = vec![];
    // folding step and leaf hashing on their own
    match folding {
        2 => {
            let t: Vec<[E; 2]> = utils::transpose_slice(&evals);
            parts.push(bytes_of(&fri::folding::apply_drp(&t, B::GENERATOR, E::from(9u32))));
            let h = fri::utils::hash_values::<H, E, 2>(&t);
            parts.push(h.iter().flat_map(|d| d.to_bytes()).collect());
        },
        4 => {
            let t: Vec<[E; 4]> = utils::transpose_slice(&evals);
            parts.push(bytes_of(&fri::folding::apply_drp(&t, B::GENERATOR, E::from(9u32))));
            let h = fri::utils::hash_values::<H, E, 4>(&t);
            parts.push(h.iter().flat_map(|d| d.to_bytes()).collect());
        },
        16 => {
            let t: Vec<[E; 16]> = utils::transpose_slice(&evals);
            parts.push(bytes_of(&fri::folding::apply_drp(&t, B::GENERATOR, E::from(9u32))));
            let h = fri::utils::hash_values::<H, E, 16>(&t);
            parts.push(h.iter().flat_map(|d| d.to_bytes()).collect());
        },
        _ => {
            let t: Vec<[E; 8]> = utils::transpose_slice(&evals);
            parts.push(bytes_of(&fri::folding::apply_drp(&t, B::GENERATOR, E::from(9u32))));
            let h = fri::utils::hash_values::<H, E, 8>(&t);
            parts.push(h.iter().flat_map(|d| d.to_bytes()).collect());
        },
    }
    // the whole commit phase and a proof for fixed positions
    let mut channel = DefaultProverChannel::<E, H, DefaultRandomCoin<H>>::new(n, 4);
    let mut prover = FriProver::<B, E, _, H>::new(FriOptions::new(blowup, folding, 7));
    prover.build_layers(&mut channel, evals);
    for c in channel.layer_commitments() {
        parts.push(c.to_bytes());
    }
    parts.push(prover.build_proof(&[1, n / 2, n - 1]).to_bytes());
    digest(&parts)
}

fn matrix_scenario<B: Fld, E: FieldElement<BaseField = B>, H: ElementHasher<BaseField = B>>(n: usize, width: usize) -> Vec<u8> {
    let cols: Vec<Vec<E>> = (0..width).map(|c| poly(n, 31 + c as u32)).collect();
    let polys = ColMatrix::new(cols);
    let tw = fft::get_twiddles::<B>(n);
    let domain = StarkDomain::from_twiddles(tw, 4, B::GENERATOR);
    let m = RowMatrix::evaluate_polys_over::<8>(&polys, &domain);
    let tree: MerkleTree<H> = m.commit_to_rows();
    let ev = polys.evaluate_columns_over(&domain);
    let ip = ev.interpolate_columns();
    let mut parts = vec![bytes_of(m.data()), tree.root().to_bytes()];
    for c in 0..width.min(3) {
        parts.push(bytes_of(ev.get_column(c)));
        parts.push(bytes_of(ip.get_column(c)));
    }
    digest(&parts)
}

fn prove_scenario<B: Fld, H: ElementHasher<BaseField = B> + Send + Sync>(n: usize, aux: Aux, ext: u8, blowup: usize) -> Vec<u8> {
    prove_scenario_c::<B, H>(n, aux, ext, blowup, 8)
}

fn prove_scenario_opts<B: Fld, H: ElementHasher<BaseField = B> + Send + Sync>(n: usize, blowup: usize) -> Vec<u8> {
    let spec = AirSpec {
        n,
        rules: vec![Rule::Pow { d: 2, c: 1 }, Rule::Rot { order: 4 }],
        exemptions: 1,
        asserts: vec![ASpec { col: 0, kind: AKind::Single(0) }, ASpec { col: 1, kind: AKind::Periodic { first: 0, stride: 4 } }],
        aux: Aux::None,
        aux_pow: 1,
        tail: Tail::Continue,
        init: 3,
    };
    let st = Statement { spec: Arc::new(spec), opts: Opts { queries: 8, blowup, grinding: 0, ext: 1, folding: 4, rem_deg: 7 }, seed: 7, meta: vec![] };
    let (cols, _vals, pubs) = build_statement::<B>(&st);
    let (out, _) = prove_with::<B, H, Coin<H>>(&st, &cols, &pubs, None);
    let proof = match out {
        ProveOutcome::Proof(p) => *p,
        other => return format!("proof not produced: {:?}", other).into_bytes(),
    };
    let mut parts = vec![proof.context.to_bytes(), proof.commitments.to_bytes(), proof.ood_frame.to_bytes()];
    let v = verify_with::<B, H, Coin<H>>(proof, &pubs, &lenient());
    parts.push(vec![(v == VerifyOutcome::Accept) as u8]);
    digest(&parts)
}

/// `cycle`: length of the periodic column used by the second transition rule (short cycles divide every
/// fragment of the constraint evaluation table, long ones straddle fragments)
fn prove_scenario_c<B: Fld, H: ElementHasher<BaseField = B> + Send + Sync>(n: usize, aux: Aux, ext: u8, blowup: usize, cycle: usize) -> Vec<u8> {
    let spec = AirSpec {
        n,
        rules: vec![Rule::Pow { d: 2, c: 1 }, Rule::Periodic { cycle, c: 3 }, Rule::FibA, Rule::FibB, Rule::Rot { order: 4 }],
        exemptions: 2,
        asserts: vec![ASpec { col: 0, kind: AKind::Single(0) }, ASpec { col: 4, kind: AKind::Periodic { first: 0, stride: 4 } }, ASpec { col: 1, kind: AKind::Sequence { first: 1, stride: (n / 64).max(2) } }],
        aux,
        aux_pow: 1,
        tail: Tail::Continue,
        init: 3,
    };
    let st = Statement { spec: Arc::new(spec), opts: Opts { queries: 12, blowup, grinding: 0, ext, folding: 4, rem_deg: 15 }, seed: 5, meta: vec![] };
    let (cols, _vals, pubs) = build_statement::<B>(&st);
    let (out, _) = prove_with::<B, H, Coin<H>>(&st, &cols, &pubs, None);
    let proof = match out {
        ProveOutcome::Proof(p) => *p,
        other => return format!("proof not produced: {:?}", other).into_bytes(),
    };
    // everything deterministic: context, all commitments (trace, constraints, FRI layers, remainder), OOD frame
    let mut parts = vec![proof.context.to_bytes(), proof.commitments.to_bytes(), proof.ood_frame.to_bytes()];
    // the proofs produced must verify
    let v = verify_with::<B, H, Coin<H>>(proof, &pubs, &lenient());
    parts.push(vec![(v == VerifyOutcome::Accept) as u8]);
    digest(&parts)
}

pub fn scenarios(thorough: bool) -> Vec<Scenario> {
    let mut v: Vec<Scenario> = vec![];
    let mut add = |name: String, f: Box<dyn Fn() -> Vec<u8> + Send + Sync>| v.push(Scenario { name, run: f });
    let sizes: Vec<usize> = if thorough { vec![64, 256, 512, 1024, 2048, 4096] } else { vec![64, 512, 1024, 2048] };
    // transforms also on sizes far below every threshold
    for n in [2usize, 8, 16] {
        add(format!("fft/f64/{n}"), Box::new(move || fft_scenario::<B64, B64>(n)));
        add(format!("fft/f128/{n}"), Box::new(move || fft_scenario::<B128, B128>(n)));
    }
    for &n in sizes.iter() {
        add(format!("fft/f64/{n}"), Box::new(move || fft_scenario::<B64, B64>(n)));
        add(format!("fft/f64^2/{n}"), Box::new(move || fft_scenario::<B64, QuadExtension<B64>>(n)));
        add(format!("fft/f128/{n}"), Box::new(move || fft_scenario::<B128, B128>(n)));
        add(format!("merkle/blake3_256/{n}"), Box::new(move || merkle_scenario::<hashers::Blake3_256<B64>>(n)));
        add(format!("merkle/rp64_256/{n}"), Box::new(move || merkle_scenario::<hashers::Rp64_256>(n)));
        add(format!("fri/f64/fold4/{n}"), Box::new(move || fri_scenario::<B64, B64, hashers::Blake3_256<B64>>(n, 4)));
        add(format!("fri/f64^2/fold2/{n}"), Box::new(move || fri_scenario::<B64, QuadExtension<B64>, hashers::Blake3_256<B64>>(n, 2)));
        add(format!("fri/f128/fold8/{n}"), Box::new(move || fri_scenario::<B128, B128, hashers::Sha3_256<B128>>(n, 8)));
    }
    for n in [1024usize, 2048] {
        add(format!("fri/f64^2/fold16/{n}"), Box::new(move || fri_scenario::<B64, QuadExtension<B64>, hashers::Rp64_256>(n, 16)));
    }
    for n in [1usize, 2, 3, 8, 31, 64, 127, 128, 129, 255, 513, 1023, 1024, 1025, 2048, 3000, 4096] {
        add(format!("utils/f64/{n}"), Box::new(move || utils_scenario::<B64, B64>(n)));
        add(format!("utils/f128^2/{n}"), Box::new(move || utils_scenario::<B128, QuadExtension<B128>>(n)));
    }
    // (polynomial size, columns): tall and narrow, and short and wide (few rows, many segments: more batches than rows
    // for large pools), and segment counts that are not powers of two (3, 5, 7, 13 segments: rows x segments / 1024 is
    // not a power of two either)
    let shapes: Vec<(usize, usize)> = if thorough { vec![(512, 1), (1024, 8), (1024, 9), (2048, 17), (256, 40), (16, 128), (8, 255), (32, 40), (64, 17), (1024, 20), (512, 50), (128, 100), (4096, 33)] } else { vec![(512, 1), (1024, 9), (16, 128), (8, 255), (1024, 20)] };
    for (n, w) in shapes {
        add(format!("matrix/f64/{n}x{w}"), Box::new(move || matrix_scenario::<B64, B64, hashers::Blake3_256<B64>>(n, w)));
    }
    if thorough {
        add("matrix/f64^2/1024x5".into(), Box::new(|| matrix_scenario::<B64, QuadExtension<B64>, hashers::Rp64_256>(1024, 5)));
    } else {
        add("matrix/f64^2/1024x2".into(), Box::new(|| matrix_scenario::<B64, QuadExtension<B64>, hashers::Blake3_256<B64>>(1024, 2)));
    }
    // full proofs: constraint-evaluation domains of 2048 (below the fragment threshold), 8192 and 16384 rows
    add("prove/f64/blake3/n1024".into(), Box::new(|| prove_scenario::<B64, hashers::Blake3_256<B64>>(1024, Aux::None, 1, 4)));
    add("prove/f64/blake3/n4096".into(), Box::new(|| prove_scenario::<B64, hashers::Blake3_256<B64>>(4096, Aux::None, 1, 4)));
    add("prove/f64/blake3/n4096/aux+lagrange/quadratic".into(), Box::new(|| prove_scenario::<B64, hashers::Blake3_256<B64>>(4096, Aux::SumLagrange { cols: 2, rands: 3 }, 2, 4)));
    // tiny traces: every per-batch minimum of the parallel helpers is larger than the data, and large pools have
    // more threads than rows
    // tiny traces under large blowups (the LDE domain is large although the polynomials are short)
    for (n, blowup) in [(8usize, 128usize), (16, 64), (32, 32)] {
        add(format!("prove/f64/blake3/tiny/n{n}/blowup{blowup}"), Box::new(move || prove_scenario_opts::<B64, hashers::Blake3_256<B64>>(n, blowup)));
    }
    for n in [8usize, 16, 32, 64, 128, 256] {
        add(format!("prove/f64/blake3/tiny/n{n}"), Box::new(move || prove_scenario_c::<B64, hashers::Blake3_256<B64>>(n, Aux::None, 1, 4, 8.min(n))));
        add(format!("prove/f128/sha3/tiny/aux/n{n}"), Box::new(move || prove_scenario_c::<B128, hashers::Sha3_256<B128>>(n, Aux::Sum { cols: 1, rands: 1 }, 1, 8, 4)));
    }
    // periodic columns as long as the trace / a quarter of it: their table straddles the fragments
    add("prove/f64/blake3/n4096/cycle4096".into(), Box::new(|| prove_scenario_c::<B64, hashers::Blake3_256<B64>>(4096, Aux::None, 1, 4, 4096)));
    add("prove/f64/blake3/n4096/cycle1024".into(), Box::new(|| prove_scenario_c::<B64, hashers::Blake3_256<B64>>(4096, Aux::None, 1, 4, 1024)));
    add("prove/f64/blake3/n4096/aux/cycle4096".into(), Box::new(|| prove_scenario_c::<B64, hashers::Blake3_256<B64>>(4096, Aux::Sum { cols: 1, rands: 1 }, 1, 4, 4096)));
    if thorough {
        add("prove/f128/sha3/n8192/aux".into(), Box::new(|| prove_scenario::<B128, hashers::Sha3_256<B128>>(8192, Aux::Sum { cols: 1, rands: 1 }, 1, 2)));
        add("prove/f64/rp64/n4096/cubic".into(), Box::new(|| prove_scenario::<B64, hashers::Rp64_256>(4096, Aux::None, 3, 4)));
    }
    v
}
