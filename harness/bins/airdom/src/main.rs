//! C16 (constraints are enforced on exactly the intended steps) and C18 (security estimate / policy).
mod c18;

use std::collections::BTreeSet;
use std::sync::Arc;

use air::{Assertion, AirContext, BoundaryConstraints, ConstraintDivisor, FieldExtension, ProofOptions, TraceInfo, TransitionConstraintDegree};
use glue::{root_of_unity, Fld, B128, B62, B64};
use kit::engine::sub_t;
use kit::refmath::{invm, mulm, powm, subm};
use kit::{json, pan, Args, Run, Sub, Value};
use math::{FieldElement, StarkField};

#[derive(Clone, Debug, PartialEq, Eq)]
enum Kind {
    Single(usize),
    Periodic(usize, usize),        // first, stride
    Sequence(usize, usize, usize), // first, stride, number of values
}

impl Kind {
    fn steps(&self, n: usize) -> Vec<usize> {
        match *self {
            Kind::Single(s) => vec![s],
            Kind::Periodic(f, st) => (0..n / st).map(|k| f + k * st).collect(),
            Kind::Sequence(f, st, cnt) => (0..cnt).map(|k| f + k * st).collect(),
        }
    }
    fn json(&self) -> Value {
        json!(format!("{:?}", self))
    }
    fn build<B: Fld>(&self, col: usize) -> Assertion<B> {
        match *self {
            Kind::Single(s) => Assertion::single(col, s, B::mk(1000 + s as u128)),
            Kind::Periodic(f, st) => Assertion::periodic(col, f, st, B::mk(self.value(0))),
            Kind::Sequence(f, st, cnt) => {
                let _ = (f, st);
                Assertion::sequence(col, f, st, (0..cnt).map(|k| B::mk(self.value(k))).collect())
            },
        }
    }
    fn value(&self, k: usize) -> u128 {
        match *self {
            Kind::Single(s) => 1000 + s as u128,
            Kind::Periodic(f, st) => 50_000 + (f * 257 + st) as u128,
            Kind::Sequence(f, st, _) => 900_000 + (k * k * 31 + 3 * f + 1009 * st) as u128,
        }
    }
}

/// every assertion that is valid for a trace of length n
fn all_assertions(n: usize) -> Vec<Kind> {
    let mut v: Vec<Kind> = (0..n).map(Kind::Single).collect();
    let mut st = 2;
    while st <= n {
        for f in 0..st {
            v.push(Kind::Periodic(f, st));
            // n / st values; the one-value sequence (stride n) must behave as the single assertion on its first step
            v.push(Kind::Sequence(f, st, n / st));
            // a one-value sequence with ANY stride is the documented alternative spelling of the single assertion
            if n / st != 1 {
                v.push(Kind::Sequence(f, st, 1));
            }
        }
        st *= 2;
    }
    v
}

fn ctx_for<B: Fld>(n: usize, num_assertions: usize) -> AirContext<B> {
    let opts = ProofOptions::new(4, 8, 0, FieldExtension::None, 4, 7);
    AirContext::new(TraceInfo::new(2, n), vec![TransitionConstraintDegree::new(2)], num_assertions, opts)
}

/// every assertion must be represented by exactly one constraint, in a group whose divisor vanishes on exactly
/// the steps the assertion names, and the constraint must accept the asserted values there
fn groups_ok<B: Fld>(bc: &BoundaryConstraints<B>, n: usize, asserted: &[(usize, &Kind)]) -> Result<(), String> {
    groups_ok_in::<B>(bc.main_constraints(), n, asserted)
}

fn groups_ok_in<B: Fld>(groups: &[air::BoundaryConstraintGroup<B, B>], n: usize, asserted: &[(usize, &Kind)]) -> Result<(), String> {
    let p = B::P;
    let g = root_of_unity::<B>(n.ilog2());
    let total: usize = groups.iter().map(|g| g.constraints().len()).sum();
    if total != asserted.len() {
        return Err(format!("{} constraints built for {} assertions", total, asserted.len()));
    }
    let zero_sets: Vec<Vec<usize>> = groups.iter().map(|gr| (0..n).filter(|i| gr.divisor().evaluate_at(B::mk(powm(g, *i as u128, p))).int() == 0).collect()).collect();
    for (col, kind) in asserted.iter() {
        let steps = kind.steps(n);
        // some constraint on this column must reproduce the asserted values AND sit under a divisor vanishing on
        // exactly the asserted steps (two assertions may assert the same value: a constraint that merely fits the
        // values of another assertion does not count either way)
        let mut found = false;
        let mut wrong_divisor: Option<Vec<usize>> = None;
        for (gi, gr) in groups.iter().enumerate() {
            for c in gr.constraints().iter().filter(|c| c.column() == *col) {
                let fits = steps.iter().enumerate().all(|(k, s)| c.evaluate_at(B::mk(powm(g, *s as u128, p)), B::mk(kind.value(k))).int() == 0);
                if fits {
                    if zero_sets[gi] == steps {
                        found = true;
                    } else {
                        wrong_divisor = Some(zero_sets[gi].clone());
                    }
                }
            }
        }
        if !found {
            return Err(match wrong_divisor {
                Some(z) => format!("the constraint for {:?} on column {} is divided by a divisor vanishing on {:?} instead of its own steps", kind, col, z),
                None => format!("no constraint reproduces the values of {:?} on column {}", kind, col),
            });
        }
    }
    Ok(())
}

/// context of a two-segment trace (2 main columns, 2 auxiliary columns) for the given assertion counts
fn ctx_multi<B: Fld>(n: usize) -> impl Fn(usize, usize) -> AirContext<B> {
    move |num_main: usize, num_aux: usize| {
        let opts = ProofOptions::new(4, 8, 0, FieldExtension::None, 4, 7);
        AirContext::new_multi_segment(TraceInfo::new_multi_segment(2, 2, 1, n, vec![]), vec![TransitionConstraintDegree::new(2)], vec![TransitionConstraintDegree::new(1)], num_main, num_aux, None, opts)
    }
}

fn c16_subs<B: Fld>(run: &Arc<Run>) -> Vec<Arc<dyn Sub>> {
    let tier = run.tier();
    let lens: Vec<usize> = if tier.is_thorough() { vec![8, 16, 32, 64, 128, 256] } else { vec![8, 16, 32, 64, 128, 256] };
    let p = B::P;
    let mut subs: Vec<Arc<dyn Sub>> = vec![];

    // ---- transition divisors: every exemption count
    let mut tcases: Vec<(usize, usize)> = vec![];
    for &n in lens.iter() {
        for e in 1..=n / 2 + 1 {
            tcases.push((n, e));
        }
    }
    let tcases = Arc::new(tcases);
    let tc2 = tcases.clone();
    subs.push(sub_t(
        &format!("{}.transition_divisor", B::NAME),
        tcases.len() as u64,
        120,
        true,
        move |idx, out| {
            let (n, e) = tcases[idx as usize];
            let g = root_of_unity::<B>(n.ilog2());
            let d = || json!({"field": B::NAME, "trace_length": n, "exemptions": e});
            let div = match pan::catch(|| ConstraintDivisor::<B>::from_transition(n, e)) {
                Ok(d) => d,
                Err(pr) => return out.violation(format!("{}: from_transition panics ({})", B::NAME, pr.class()), d()),
            };
            out.nontrivial();
            // numerator x^n - 1, exemptions = the last e domain points (as a set)
            let num_ok = div.numerator().len() == 1 && div.numerator()[0].0 == n && div.numerator()[0].1.int() == 1;
            let want_ex: BTreeSet<u128> = (n - e..n).map(|i| powm(g, i as u128, p)).collect();
            let got_ex: BTreeSet<u128> = div.exemptions().iter().map(|x| x.int()).collect();
            if !num_ok || want_ex != got_ex || div.exemptions().len() != e {
                out.violation(format!("{}: transition divisor is not (x^n - 1) / prod over the last e domain points", B::NAME), d());
            }
            if div.degree() != n - e {
                out.violation(format!("{}: transition divisor reports a wrong degree", B::NAME), d());
            }
            // the divisor ATTACHED to the transition constraints of a context with e exemptions is this one (the
            // constructor of the constraint set builds it from the context, not from the caller's count)
            match pan::catch(|| {
                let ctx = ctx_for::<B>(n, 1).set_num_transition_exemptions(e);
                let tc = air::TransitionConstraints::<B>::new(&ctx, &[B::mk(1)]);
                let dv = tc.divisor();
                (dv.numerator().iter().map(|(a, b)| (*a, b.int())).collect::<Vec<_>>(), dv.exemptions().iter().map(|x| x.int()).collect::<BTreeSet<u128>>(), dv.exemptions().len(), dv.degree())
            }) {
                Ok((num, ex, ex_len, deg)) => {
                    if num != vec![(n, 1u128)] || ex != want_ex || ex_len != e || deg != n - e {
                        out.violation(
                            format!("{}: the divisor attached to the transition constraints of a context does not vanish on exactly the non-exempt steps", B::NAME),
                            json!({"case": d(), "attached_exemption_points": ex_len, "attached_degree": deg}),
                        );
                    }
                },
                Err(pr) => out.violation(format!("{}: TransitionConstraints::new panics for a legal exemption count ({})", B::NAME, pr.class()), d()),
            }
            // as a polynomial it equals prod_{i < n-e} (x - g^i): compare at n+1 points of a coset
            // disjoint from the trace domain (degree <= n fixes the polynomial)
            let h = root_of_unity::<B>((2 * n).ilog2());
            let off = B::GENERATOR.int();
            let gp: Vec<u128> = {
                let mut v = vec![1u128];
                for _ in 1..n {
                    v.push(mulm(*v.last().unwrap(), g, p));
                }
                v
            };
            for k in 0..=n {
                let x = mulm(off, powm(h, k as u128, p), p);
                let mut want = 1u128;
                for gi in gp.iter().take(n - e) {
                    want = mulm(want, subm(x, *gi, p), p);
                }
                let got = div.evaluate_at(B::mk(x)).int();
                if got != want {
                    out.violation(format!("{}: transition divisor differs from the product over the non-exempt steps", B::NAME), json!({"case": d(), "point_index": k}));
                    break;
                }
            }
            out.evals(n as u64);
            // it vanishes at every non-exempt trace-domain point
            for (i, gi) in gp.iter().enumerate().take(n - e) {
                if div.evaluate_at(B::mk(*gi)).int() != 0 {
                    out.violation(format!("{}: transition divisor does not vanish on a non-exempt step", B::NAME), json!({"case": d(), "step": i}));
                    break;
                }
            }
        },
        move |idx| json!({"trace_length": tc2[idx as usize].0, "exemptions": tc2[idx as usize].1}),
    ));

    // ---- beyond the quantified lengths: trace domains above 2^32 (fields whose two-adicity allows them). The zero sets cannot
    // be enumerated there, but the divisors are given in closed form: the exemption points of the transition divisor are the
    // last e domain points, the numerator of an assertion divisor is x^k - g^(a*k). Steps at and above 2^32 meet every 32-bit
    // truncation of a step or exponent.
    if B::TWO_ADICITY >= 34 {
        let hcases: Vec<u32> = vec![33, 34];
        subs.push(sub_t(
            &format!("{}.huge_domains", B::NAME),
            hcases.len() as u64,
            120,
            true,
            move |idx, out| {
                let log_n = [33u32, 34][idx as usize];
                let n = 1usize << log_n;
                let g = root_of_unity::<B>(log_n);
                out.nontrivial();
                for e in [1usize, 2, 3, 5] {
                    match pan::catch(|| ConstraintDivisor::<B>::from_transition(n, e)) {
                        Ok(div) => {
                            let want: BTreeSet<u128> = (n - e..n).map(|i| powm(g, i as u128, p)).collect();
                            let got: BTreeSet<u128> = div.exemptions().iter().map(|x| x.int()).collect();
                            if want != got || div.numerator().len() != 1 || div.numerator()[0].0 != n || div.numerator()[0].1.int() != 1 {
                                out.violation(format!("{}: transition divisor over a trace domain above 2^32 does not exempt the last steps", B::NAME), json!({"log2_trace_length": log_n, "exemptions": e}));
                            }
                        },
                        Err(pr) => out.violation(format!("{}: from_transition panics on a trace domain above 2^32 ({})", B::NAME, pr.class()), json!({"log2_trace_length": log_n, "exemptions": e})),
                    }
                    out.evals(1);
                }
                let big = 1usize << 32;
                // single assertions: x - g^step
                for step in [big - 1, big, big + 1, n - 1] {
                    let a = Assertion::<B>::single(0, step, B::mk(7));
                    match pan::catch(|| ConstraintDivisor::<B>::from_assertion(&a, n)) {
                        Ok(div) => {
                            let ok = div.numerator().len() == 1 && div.numerator()[0].0 == 1 && div.numerator()[0].1.int() == powm(g, step as u128, p) && div.exemptions().is_empty();
                            if !ok {
                                out.violation(format!("{}: the divisor of a single assertion at a step at or above 2^32 is not x - g^step", B::NAME), json!({"log2_trace_length": log_n, "step": step}));
                            }
                        },
                        Err(pr) => out.violation(format!("{}: from_assertion panics on a trace domain above 2^32 ({})", B::NAME, pr.class()), json!({"log2_trace_length": log_n, "step": step})),
                    }
                    out.evals(1);
                }
                // periodic assertions with two asserted steps: x^2 - g^(2 * first)
                for first in [big, big + 7] {
                    let stride = n / 2;
                    if first >= stride {
                        continue;
                    }
                    let a = Assertion::<B>::periodic(0, first, stride, B::mk(7));
                    match pan::catch(|| ConstraintDivisor::<B>::from_assertion(&a, n)) {
                        Ok(div) => {
                            let ok = div.numerator().len() == 1 && div.numerator()[0].0 == 2 && div.numerator()[0].1.int() == powm(g, 2 * first as u128, p);
                            if !ok {
                                out.violation(format!("{}: the divisor of a periodic assertion with a first step above 2^32 is not x^k - g^(a*k)", B::NAME), json!({"log2_trace_length": log_n, "first_step": first, "stride": stride}));
                            }
                        },
                        Err(pr) => out.violation(format!("{}: from_assertion panics on a trace domain above 2^32 ({})", B::NAME, pr.class()), json!({"log2_trace_length": log_n, "first_step": first})),
                    }
                    out.evals(1);
                }
            },
            |idx| json!({"log2_trace_length": 33 + idx}),
        ));
        let _ = hcases;
    }

    // ---- exemption bounds of the context
    let l2 = lens.clone();
    subs.push(sub_t(
        &format!("{}.exemption_bounds", B::NAME),
        lens.len() as u64,
        60,
        true,
        move |idx, out| {
            let n = l2[idx as usize];
            out.nontrivial();
            for e in 0..=n / 2 + 3 {
                let r = pan::catch(|| ctx_for::<B>(n, 1).set_num_transition_exemptions(e));
                let legal = e >= 1 && e <= n / 2 + 1;
                match (r, legal) {
                    (Ok(c), true) => {
                        if c.num_transition_exemptions() != e {
                            out.violation(format!("{}: set_num_transition_exemptions stores a different count", B::NAME), json!({"n": n, "e": e}));
                        }
                    },
                    (Err(_), false) => {},
                    (Ok(_), false) => out.violation(format!("{}: an illegal number of transition exemptions is accepted", B::NAME), json!({"n": n, "e": e})),
                    (Err(pr), true) => out.violation(format!("{}: a legal number of transition exemptions is refused ({})", B::NAME, pr.class()), json!({"n": n, "e": e})),
                }
            }
        },
        |idx| json!({"length index": idx, "exemptions": "0 ..= n/2+3"}),
    ));

    // ---- every assertion: divisor zero set, value polynomial, step enumeration
    let mut acases: Vec<(usize, Kind)> = vec![];
    for &n in lens.iter() {
        for k in all_assertions(n) {
            acases.push((n, k));
        }
    }
    let acases = Arc::new(acases);
    let ac2 = acases.clone();
    subs.push(sub_t(
        &format!("{}.assertions", B::NAME),
        acases.len() as u64,
        120,
        true,
        move |idx, out| {
            let (n, kind) = acases[idx as usize].clone();
            let g = root_of_unity::<B>(n.ilog2());
            let d = || json!({"field": B::NAME, "trace_length": n, "assertion": kind.json()});
            let a: Assertion<B> = match pan::catch(|| kind.build::<B>(1)) {
                Ok(a) => a,
                Err(pr) => return out.violation(format!("{}: a well-formed assertion is refused ({})", B::NAME, pr.class()), d()),
            };
            out.nontrivial();
            let steps = kind.steps(n);
            if a.validate_trace_length(n).is_err() || a.validate_trace_width(2).is_err() {
                out.violation(format!("{}: a well-formed assertion fails validation", B::NAME), d());
                return;
            }
            if a.get_num_steps(n) != steps.len() {
                out.violation(format!("{}: get_num_steps is wrong", B::NAME), d());
            }
            let mut applied = vec![];
            a.apply(n, |s, v| applied.push((s, v.int())));
            let want_applied: Vec<(usize, u128)> = steps.iter().enumerate().map(|(k, s)| (*s, kind.value(k))).collect();
            if applied != want_applied {
                out.violation(format!("{}: apply() does not visit exactly the named (step, value) pairs", B::NAME), d());
            }
            // divisor: zero set over the whole trace domain == named steps
            let div = ConstraintDivisor::<B>::from_assertion(&a, n);
            let zeros: Vec<usize> = (0..n).filter(|i| div.evaluate_at(B::mk(powm(g, *i as u128, p))).int() == 0).collect();
            if zeros != steps || div.degree() != steps.len() {
                out.violation(format!("{}: assertion divisor does not vanish on exactly the named steps", B::NAME), json!({"case": d(), "zeros": zeros}));
            }
            // value polynomial: reproduces the asserted value at every named step
            let ctx = ctx_for::<B>(n, 1);
            let bc = match pan::catch(|| BoundaryConstraints::<B>::new(&ctx, vec![a.clone()], vec![], &[B::mk(5)])) {
                Ok(b) => b,
                Err(pr) => return out.violation(format!("{}: BoundaryConstraints::new panics on one well-formed assertion ({})", B::NAME, pr.class()), d()),
            };
            let groups = bc.main_constraints();
            if groups.len() != 1 || groups[0].constraints().len() != 1 || *groups[0].divisor() != div {
                out.violation(format!("{}: boundary constraint grouping is wrong for a single assertion", B::NAME), d());
                return;
            }
            let c = &groups[0].constraints()[0];
            for (k, s) in steps.iter().enumerate() {
                let x = B::mk(powm(g, *s as u128, p));
                // evaluate_at(x, trace_value) = trace_value - value(x)
                let got = c.evaluate_at(x, B::mk(kind.value(k)));
                if got.int() != 0 || c.evaluate_at(x, B::ZERO).int() != kit::refmath::negm(kind.value(k) % p, p) {
                    out.violation(format!("{}: interpolated assertion values do not reproduce the asserted value at a named step", B::NAME), json!({"case": d(), "step": s}));
                    break;
                }
            }
            // the whole group at an off-domain point equals cc * (t - value(x)) / divisor(x)
            let x = B::GENERATOR.int();
            let t = 12345u128;
            let val = {
                // value polynomial evaluated through the constraint itself at x, cross-checked by
                // Lagrange on the named steps when there are at most 8 of them
                let v = c.evaluate_at(B::mk(x), B::ZERO).int();
                kit::refmath::negm(v, p)
            };
            if steps.len() <= 8 {
                let ctxr = kit::refmath::Ctx::base(p);
                let xs: Vec<[u128; 3]> = steps.iter().map(|s| [powm(g, *s as u128, p), 0, 0]).collect();
                let ys: Vec<[u128; 3]> = (0..steps.len()).map(|k| [kind.value(k) % p, 0, 0]).collect();
                let poly = ctxr.poly_interpolate(&xs, &ys);
                if ctxr.poly_eval(&poly, &[x, 0, 0])[0] != val {
                    out.violation(format!("{}: the value polynomial is not the unique low-degree interpolant of the asserted values", B::NAME), d());
                }
            }
            let mut dz = 1u128;
            for s in steps.iter() {
                dz = mulm(dz, subm(x, powm(g, *s as u128, p), p), p);
            }
            let want = mulm(mulm(5, subm(t, val, p), p), invm(dz, p), p);
            let state = [B::ZERO, B::mk(t)];
            if groups[0].evaluate_at(&state, B::mk(x)).int() != want {
                out.violation(format!("{}: boundary group evaluation differs from cc*(T - V)/Z", B::NAME), d());
            }
        },
        move |idx| json!({"trace_length": ac2[idx as usize].0, "assertion": ac2[idx as usize].1.json()}),
    ));

    // ---- every ordered pair of assertions on one column: overlap <=> common step; prepare panics exactly then
    for &n in lens.iter() {
        let all = Arc::new(all_assertions(n));
        let m = all.len() as u64;
        let a2 = all.clone();
        let do_prepare = n <= if tier.is_thorough() { 256 } else { 32 };
        subs.push(sub_t(
            &format!("{}.overlap.n{}", B::NAME, n),
            m,
            120,
            true,
            move |idx, out| {
                let ka = &all[idx as usize];
                let a = ka.build::<B>(0);
                let sa: BTreeSet<usize> = ka.steps(n).into_iter().collect();
                let ctx = if do_prepare { Some(ctx_for::<B>(n, 2)) } else { None };
                for kb in all.iter() {
                    let b = kb.build::<B>(0);
                    let common = kb.steps(n).iter().any(|s| sa.contains(s));
                    let d = || json!({"field": B::NAME, "trace_length": n, "a": ka.json(), "b": kb.json()});
                    if a.overlaps_with(&b) != common {
                        out.violation(format!("{}: overlaps_with disagrees with the intersection of the named step sets", B::NAME), d());
                    }
                    // same steps on another column never overlap
                    if a.overlaps_with(&kb.build::<B>(1)) {
                        out.violation(format!("{}: assertions on different columns reported as overlapping", B::NAME), d());
                    }
                    if let Some(ctx) = &ctx {
                        let r = pan::catch(|| BoundaryConstraints::<B>::new(ctx, vec![a.clone(), b.clone()], vec![], &[B::ONE, B::ONE]));
                        // identical assertions collapse in the sorted set before the overlap test only if
                        // they are equal as values; equal assertions do overlap, so they must be refused too
                        if r.is_err() != common {
                            out.violation(format!("{}: a pair of assertions is {} although the step sets {}", B::NAME, if r.is_err() { "refused" } else { "accepted" }, if common { "intersect" } else { "are disjoint" }), d());
                        }
                        // grouping: whatever groups the two constraints land in, each must sit under a divisor
                        // that vanishes on exactly its own steps - on the same column and on different columns
                        if let Ok(bc) = &r {
                            if let Err(why) = groups_ok::<B>(bc, n, &[(0, ka), (0, kb)]) {
                                out.violation(format!("{}: two assertions on one column: {}", B::NAME, why), d());
                            }
                        }
                        let b1 = kb.build::<B>(1);
                        match pan::catch(|| BoundaryConstraints::<B>::new(ctx, vec![a.clone(), b1.clone()], vec![], &[B::ONE, B::ONE])) {
                            Ok(bc) => {
                                if let Err(why) = groups_ok::<B>(&bc, n, &[(0, ka), (1, kb)]) {
                                    out.violation(format!("{}: two assertions on different columns: {}", B::NAME, why), d());
                                }
                            },
                            Err(pr) => out.violation(format!("{}: assertions on different columns are refused ({})", B::NAME, pr.class()), d()),
                        }
                        // the auxiliary segment: its assertions outnumber, then are outnumbered by, the main ones; every
                        // one of them must still become a constraint under its own divisor
                        if !common {
                            let mctx = ctx_multi::<B>(n);
                            for (mains, auxs) in [(vec![(0usize, ka)], vec![(0usize, kb), (1, ka)]), (vec![(0, ka), (1, kb)], vec![(1usize, kb)])] {
                                let ma: Vec<Assertion<B>> = mains.iter().map(|(c, k)| k.build::<B>(*c)).collect();
                                let aa: Vec<Assertion<B>> = auxs.iter().map(|(c, k)| k.build::<B>(*c)).collect();
                                let coeffs = vec![B::ONE; ma.len() + aa.len()];
                                match pan::catch(|| BoundaryConstraints::<B>::new(&mctx(ma.len(), aa.len()), ma.clone(), aa.clone(), &coeffs)) {
                                    Ok(bc) => {
                                        if let Err(why) = groups_ok_in::<B>(bc.main_constraints(), n, &mains) {
                                            out.violation(format!("{}: main assertions next to auxiliary ones: {}", B::NAME, why), d());
                                        }
                                        if let Err(why) = groups_ok_in::<B>(bc.aux_constraints(), n, &auxs) {
                                            out.violation(format!("{}: auxiliary assertions ({} auxiliary, {} main): {}", B::NAME, aa.len(), ma.len(), why), d());
                                        }
                                    },
                                    Err(pr) => out.violation(format!("{}: well-formed main and auxiliary assertions are refused ({})", B::NAME, pr.class()), d()),
                                }
                            }
                        }
                    }
                }
                out.evals(m - 1);
                out.nontrivial_n(m);
            },
            move |idx| json!({"trace_length": n, "a": a2[idx as usize].json(), "b": "every assertion valid for this length"}),
        ));
    }

    // ---- ill-formed assertions are refused
    subs.push(sub_t(
        &format!("{}.ill_formed", B::NAME),
        1,
        60,
        true,
        move |_, out| {
            out.nontrivial_n(2);
            let v = B::ONE;
            let bad_ctor: Vec<(&str, Box<dyn Fn() -> Assertion<B>>)> = vec![
                ("periodic stride 3", Box::new(move || Assertion::periodic(0, 0, 3, v))),
                ("periodic stride 1", Box::new(move || Assertion::periodic(0, 0, 1, v))),
                ("periodic stride 0", Box::new(move || Assertion::periodic(0, 0, 0, v))),
                ("periodic first step == stride", Box::new(move || Assertion::periodic(0, 4, 4, v))),
                ("sequence stride 6", Box::new(move || Assertion::sequence(0, 0, 6, vec![v, v]))),
                ("sequence first step > stride", Box::new(move || Assertion::sequence(0, 9, 8, vec![v, v]))),
                ("sequence of 3 values", Box::new(move || Assertion::sequence(0, 0, 4, vec![v, v, v]))),
                ("sequence of 0 values", Box::new(move || Assertion::sequence(0, 0, 4, vec![]))),
            ];
            for (what, f) in bad_ctor.iter() {
                if pan::catch(|| f()).is_ok() {
                    out.violation(format!("{}: an ill-formed assertion is accepted by its constructor ({what})", B::NAME), json!({}));
                }
            }
            // well-formed as values, but not for this trace
            let n = 16;
            let ctx = ctx_for::<B>(n, 1);
            let wrong: Vec<(&str, Assertion<B>)> = vec![
                ("single step == trace length", Assertion::single(0, 16, v)),
                ("single step beyond the trace", Assertion::single(0, 1000, v)),
                ("periodic stride > trace length", Assertion::periodic(0, 0, 32, v)),
                ("sequence too short for the trace", Assertion::sequence(0, 0, 4, vec![v, v])),
                ("sequence too long for the trace", Assertion::sequence(0, 0, 4, vec![v; 8])),
                ("column out of range", Assertion::single(2, 0, v)),
                ("column far out of range", Assertion::periodic(255, 0, 2, v)),
            ];
            for (what, a) in wrong {
                let ok_len = a.validate_trace_length(n).is_ok();
                let ok_w = a.validate_trace_width(2).is_ok();
                if ok_len && ok_w {
                    out.violation(format!("{}: validation accepts an assertion that does not fit the trace ({what})", B::NAME), json!({}));
                }
                if pan::catch(|| BoundaryConstraints::<B>::new(&ctx, vec![a.clone()], vec![], &[v])).is_ok() {
                    out.violation(format!("{}: BoundaryConstraints accepts an assertion that does not fit the trace ({what})", B::NAME), json!({}));
                }
            }
            // multi-segment traces (2 main + 2 auxiliary columns): an assertion is checked against the width of ITS
            // segment - every column 0..=5 as a main and as an auxiliary assertion, single / periodic / sequence
            let mk = ctx_multi::<B>(n);
            for col in 0..6usize {
                let kinds: Vec<(&str, Assertion<B>)> = vec![("single", Assertion::single(col, 1, v)), ("periodic", Assertion::periodic(col, 1, 4, v)), ("sequence", Assertion::sequence(col, 0, 4, vec![v, v + v, v, v + v]))];
                for (kname, a) in kinds {
                    let legal = col < 2;
                    let main_ok = pan::catch(|| BoundaryConstraints::<B>::new(&mk(1, 1), vec![a.clone()], vec![Assertion::single(0, 0, v)], &[v, v])).is_ok();
                    if main_ok != legal {
                        out.violation(format!("{}: a main-segment assertion is {} against the width of the main segment", B::NAME, if legal { "refused although its column exists" } else { "accepted although its column does not exist" }), json!({"column": col, "main_width": 2, "aux_width": 2, "kind": kname}));
                    }
                    let aux_ok = pan::catch(|| BoundaryConstraints::<B>::new(&mk(1, 1), vec![Assertion::single(0, 0, v)], vec![a.clone()], &[v, v])).is_ok();
                    if aux_ok != legal {
                        out.violation(format!("{}: an auxiliary-segment assertion is {} against the width of the auxiliary segment", B::NAME, if legal { "refused although its column exists" } else { "accepted although its column does not exist" }), json!({"column": col, "main_width": 2, "aux_width": 2, "kind": kname}));
                    }
                }
            }
            if Assertion::single(0, 0, v).validate_trace_length(12).is_ok() {
                out.violation(format!("{}: a trace length that is not a power of two is accepted", B::NAME), json!({}));
            }
        },
        |_| json!({"checks": "illegal strides, first steps, value counts, lengths, columns"}),
    ));
    subs
}

fn main() {
    let args = Args::parse();
    match args.prop.clone().as_str() {
        "C16" => {
            let run = Run::new(args, "exploration");
            run.rule("for trace lengths 8..64 (..256 thorough) and all three base fields: every exemption count 1..=n/2+1 (divisor = (x^n-1)/prod over the last e points as data, equal to prod over the non-exempt points at n+1 off-domain points, i.e. as a polynomial; exemption bounds 0..n/2+3 accepted exactly when legal); every assertion valid for the length (single at every step, periodic for every stride and first step, sequence for every stride and first step): divisor zero set over all n domain points == named steps, value polynomial reproduces every asserted value at its step and is the low-degree interpolant, apply()/get_num_steps; every ordered pair of assertions on one column: overlaps_with <=> step sets intersect and (n <= 32) BoundaryConstraints::new refuses exactly then; ill-formed assertions are refused (illegal strides / first steps / value counts / lengths; every column 0..5 as a main and as an auxiliary assertion of a 2+2-column trace is accepted exactly when it exists in its own segment); distinct by enumeration index");
            run.assume("trace-domain generator = the library's root of unity (C07); reference arithmetic as in C07");
            let mut subs = vec![];
            subs.extend(c16_subs::<B64>(&run));
            subs.extend(c16_subs::<B62>(&run));
            subs.extend(c16_subs::<B128>(&run));
            run.go(subs)
        },
        "C18" => {
            let run = Run::new(args, "exploration");
            let subs = c18::subs(&run);
            run.go(subs)
        },
        other => kit::engine::die(&format!("airdom binary does not serve {other}")),
    }
}
