//! C18 — security estimate and acceptance policy.
use std::marker::PhantomData;
use std::sync::Arc;

use air::proof::{Context, Proof};
use air::{FieldExtension, ProofOptions, TraceInfo};
use crypto::{hashers, Hasher};
use glue::B64;
use kit::engine::sub_t;
use kit::{json, pan, Run, Sub};
use utils::{Deserializable, Serializable, SliceReader};
use verifier::AcceptableOptions;

/// dummy hasher that only carries a collision resistance
pub struct Cr<const N: u32>(PhantomData<()>);
type D = <hashers::Blake3_256<B64> as Hasher>::Digest;
impl<const N: u32> Hasher for Cr<N> {
    type Digest = D;
    const COLLISION_RESISTANCE: u32 = N;
    fn hash(_: &[u8]) -> D {
        D::default()
    }
    fn merge(_: &[D; 2]) -> D {
        D::default()
    }
    fn merge_with_int(_: D, _: u64) -> D {
        D::default()
    }
}

fn level(proof: &Proof, cr: u32, conjectured: bool) -> u32 {
    match cr {
        96 => proof.security_level::<Cr<96>>(conjectured),
        100 => proof.security_level::<Cr<100>>(conjectured),
        112 => proof.security_level::<Cr<112>>(conjectured),
        124 => proof.security_level::<Cr<124>>(conjectured),
        127 => proof.security_level::<Cr<127>>(conjectured),
        _ => proof.security_level::<Cr<128>>(conjectured),
    }
}
const CRS: [u32; 6] = [96, 100, 112, 124, 127, 128];

fn modulus_bytes(bits: u32) -> Vec<u8> {
    match bits {
        62 => kit::refmath::P62.to_le_bytes()[..8].to_vec(),
        64 => kit::refmath::P64.to_le_bytes()[..8].to_vec(),
        _ => kit::refmath::P128.to_le_bytes().to_vec(),
    }
}

/// a proof whose context claims the given parameters; contexts beyond what Context::new accepts
/// (LDE domain > 2^32) are obtained by decoding a hand-assembled context
fn proof_with(log_len: u32, bits: u32, opts: &ProofOptions) -> Result<Proof, String> {
    let mut bytes = vec![1u8, 0, 0, log_len as u8, 0, 0]; // main width 1, no aux, log2(length), no metadata
    let m = modulus_bytes(bits);
    bytes.push(m.len() as u8);
    bytes.extend(m);
    bytes.extend(opts.to_bytes());
    let ctx = Context::read_from(&mut SliceReader::new(&bytes)).map_err(|e| format!("{e}"))?;
    let mut p = Proof::new_dummy();
    p.context = ctx;
    Ok(p)
}

/// the documented / conjectured formula, computed independently
fn ref_conjectured(q: u32, blowup: u32, grinding: u32, ext_deg: u32, bits: u32, log_len: u32, cr: u32) -> u32 {
    let log_blowup = 31 - blowup.leading_zeros();
    let field_security = bits * ext_deg - (log_len + log_blowup);
    let mut query_security = log_blowup * q;
    if query_security >= 80 {
        query_security += grinding;
    }
    (field_security.min(query_security) - 1).min(cr)
}

/// The proven estimate, transcribed from the description the library documents (Theorem 8 of eprint 2022/1216 as
/// summarised in the doc comments of air/src/proof/mod.rs): for every proximity parameter m in [3, m_max) the minimum
/// of the FRI (commit and query phase), ALI and DEEP error terms minus one bit, maximised over m, capped by the
/// collision resistance. Returns an interval [lo, hi]: every real-valued term is floored at x - 1e-6 and x + 1e-6,
/// so that a last-digit difference between two correct floating-point evaluations cannot raise an alarm.
fn ref_proven(q: u32, blowup: u32, grinding: u32, ext_deg: u32, bits: u32, log_len: u32, cr: u32) -> (u64, u64) {
    let eps = 1e-6f64;
    let fl = |x: f64| -> (u64, u64) {
        let lo = (x - eps).floor();
        let hi = (x + eps).floor();
        (if lo < 0.0 { 0 } else { lo as u64 }, if hi < 0.0 { 0 } else { hi as u64 })
    };
    let n = (1u64 << log_len) as f64;
    let field_bits = (bits * ext_deg) as f64;
    let rho = 1.0 / blowup as f64;
    let lde = n * blowup as f64;
    let rho_plus = (n + 2.0) / lde;
    let max_deg = blowup as f64 + 1.0;
    let m_max = {
        let v = (0.25 * n * (1.0 + (1.0 + 2.0 / n).sqrt())).ceil();
        (v as u64).min(1000)
    };
    let (mut best_lo, mut best_hi) = (0u64, 0u64);
    for m in 3..m_max {
        let m = m as f64;
        let alpha = (1.0 + 0.5 / m) * rho.sqrt();
        let m_plus = (1.0 / (2.0 * (alpha / rho_plus.sqrt() - 1.0))).ceil();
        let alpha_plus = (1.0 + 0.5 / m_plus) * rho_plus.sqrt();
        let fri_commit = field_bits - ((0.5 * (m + 0.5).powf(7.0) / rho.powf(1.5)) * lde.powf(2.0)).log2();
        let fri_query = grinding as f64 - (alpha_plus.powf(q as f64)).log2();
        let l_plus = (2.0 * m_plus + 1.0) / (2.0 * rho_plus.sqrt());
        let ali = -(l_plus.log2()) + field_bits;
        let deep = -((l_plus * (max_deg * (n + 2.0 - 1.0) + (n - 1.0))).log2()) + field_bits;
        let step = |fc: u64, fq: u64, a: u64, d: u64| -> u64 {
            let fri = fc.min(fq);
            if fri < 1 {
                return 0;
            }
            let mn = (fri - 1).min(a).min(d);
            if mn < 1 {
                0
            } else {
                mn - 1
            }
        };
        let (c, qy, a, d) = (fl(fri_commit), fl(fri_query), fl(ali), fl(deep));
        best_lo = best_lo.max(step(c.0, qy.0, a.0, d.0));
        best_hi = best_hi.max(step(c.1, qy.1, a.1, d.1));
    }
    (best_lo.min(cr as u64), best_hi.min(cr as u64))
}

fn ext_of(d: u32) -> FieldExtension {
    match d {
        1 => FieldExtension::None,
        2 => FieldExtension::Quadratic,
        _ => FieldExtension::Cubic,
    }
}

pub fn subs(run: &Arc<Run>) -> Vec<Arc<dyn Sub>> {
    let thorough = run.tier().is_thorough();
    run.rule("conjectured estimate: every (queries 1..255) x (blowup 2..128) x (grinding 0..32) x 3 extensions x field bits {62,64,128} x trace lengths 2^3..2^32 (all in thorough, {3,4,10,20,29,32} in quick) x collision resistance {96,100,112,124,127,128}, each compared with the independently computed formula and with its successor in every monotone dimension; proven estimate: a lattice of the same space (all queries x all blowups x grinding {0,8,16,32} x 3 extensions x 3 fields x lengths {2^3,2^10,2^20,2^32} thorough; coarser quick), successor comparisons in queries / grinding / extension / collision resistance, plus pinned values; policy: AcceptableOptions::validate at level-1, level, level+1 for both estimates and OptionSet membership for every enumerated context of a sub-lattice; verify() of a 64-bit computation on proofs claiming other moduli (128-bit, 62-bit, tiny, over-long) under six policies refuses without panicking and never reports a level computed from the claimed field; a case is one (queries, blowup, grinding) triple with the remaining dimensions in the inner loop; distinct by enumeration index");
    run.assume("the conjectured formula is min(min(field_bits*ext_degree - log2(lde_domain), log2(blowup)*queries [+ grinding if >= 80]) - 1, collision_resistance), as implemented from the ethSTARK conjecture and described in the crate documentation");
    let mut subs: Vec<Arc<dyn Sub>> = vec![];
    let blowups: [u32; 7] = [2, 4, 8, 16, 32, 64, 128];
    let lens: Vec<u32> = if thorough { (3..=32).collect() } else { vec![3, 4, 10, 20, 29, 32] };

    // ---- conjectured: full space
    {
        let lens = lens.clone();
        subs.push(sub_t(
            "conjectured",
            255 * 7 * 33,
            120,
            true,
            move |idx, out| {
                let q = (idx % 255) as u32 + 1;
                let b = blowups[((idx / 255) % 7) as usize];
                let g = (idx / (255 * 7)) as u32;
                let mut n = 0u64;
                for ext in 1..=3u32 {
                    let opts = ProofOptions::new(q as usize, b as usize, g, ext_of(ext), 4, 31);
                    // the successors in the monotone dimensions
                    let opts_q = if q < 255 { Some(ProofOptions::new(q as usize + 1, b as usize, g, ext_of(ext), 4, 31)) } else { None };
                    let opts_g = if g < 32 { Some(ProofOptions::new(q as usize, b as usize, g + 1, ext_of(ext), 4, 31)) } else { None };
                    let opts_e = if ext < 3 { Some(ProofOptions::new(q as usize, b as usize, g, ext_of(ext + 1), 4, 31)) } else { None };
                    for bits in [62u32, 64, 128] {
                        for &ll in lens.iter() {
                            let info = || json!({"queries": q, "blowup": b, "grinding": g, "extension_degree": ext, "field_bits": bits, "log2_trace_length": ll});
                            // contexts whose LDE domain exceeds 2^32 - 1 can neither be constructed nor decoded
                            if (1u64 << ll) * b as u64 > u32::MAX as u64 {
                                continue;
                            }
                            let p = match proof_with(ll, bits, &opts) {
                                Ok(p) => p,
                                Err(e) => {
                                    out.violation("a context inside the documented parameter space cannot be decoded", json!({"case": info(), "error": e}));
                                    continue;
                                },
                            };
                            let mut prev = 0;
                            for (ci, cr) in CRS.iter().enumerate() {
                                n += 1;
                                let got = match pan::catch(|| level(&p, *cr, true)) {
                                    Ok(v) => v,
                                    Err(pr) => {
                                        out.violation(format!("conjectured security estimate panics ({})", pr.class()), info());
                                        continue;
                                    },
                                };
                                if got != ref_conjectured(q, b, g, ext, bits, ll, *cr) {
                                    out.violation("conjectured security differs from the documented formula", json!({"case": info(), "collision_resistance": cr, "got": got, "want": ref_conjectured(q, b, g, ext, bits, ll, *cr)}));
                                }
                                if ci > 0 && got < prev {
                                    out.violation("conjectured security decreases when the collision resistance grows", info());
                                }
                                prev = got;
                            }
                            // monotone in queries, grinding, extension degree (collision resistance 128)
                            let base = level(&p, 128, true);
                            for (what, o) in [("number of queries", &opts_q), ("grinding factor", &opts_g), ("extension degree", &opts_e)] {
                                if let Some(o) = o {
                                    if let Ok(p2) = proof_with(ll, bits, o) {
                                        if level(&p2, 128, true) < base {
                                            out.violation(format!("conjectured security decreases when the {what} grows"), info());
                                        }
                                    }
                                }
                            }
                        }
                    }
                }
                out.evals(n);
                out.nontrivial_n(n);
            },
            |idx| json!({"queries": idx % 255 + 1, "blowup_index": (idx / 255) % 7, "grinding": idx / (255 * 7), "inner": "3 extensions x 3 fields x trace lengths x 6 collision resistances"}),
        ));
    }

    // ---- proven: lattice, monotone comparisons only (+ pinned values)
    {
        let grs: Vec<u32> = if thorough { vec![0, 8, 16, 32] } else { vec![0, 16] };
        let plens: Vec<u32> = if thorough { vec![3, 10, 20, 24, 28, 30] } else { vec![3, 20] };
        let qs: Vec<u32> = if thorough { (1..=255).collect() } else { (1..=255).filter(|q| *q <= 4 || q % 9 == 0 || *q >= 253).collect() };
        let ng = grs.len() as u64;
        let nq = qs.len() as u64;
        let (qs2, grs2) = (qs.clone(), grs.clone());
        subs.push(sub_t(
            "proven",
            nq * 7 * ng,
            300,
            true,
            move |idx, out| {
                let qi = (idx % nq) as usize;
                let q = qs[qi];
                let b = blowups[((idx / nq) % 7) as usize];
                let gi = (idx / (nq * 7)) as usize;
                let g = grs[gi];
                let mut n = 0u64;
                for ext in 1..=3u32 {
                    let mk = |q: u32, g: u32, ext: u32| ProofOptions::new(q as usize, b as usize, g, ext_of(ext), 4, 31);
                    for bits in [62u32, 64, 128] {
                        for &ll in plens.iter() {
                            let info = || json!({"queries": q, "blowup": b, "grinding": g, "extension_degree": ext, "field_bits": bits, "log2_trace_length": ll});
                            // contexts whose LDE domain exceeds 2^32 - 1 can neither be constructed nor decoded
                            if (1u64 << ll) * b as u64 > u32::MAX as u64 {
                                continue;
                            }
                            let lv = |o: &ProofOptions, cr: u32| -> Option<u32> {
                                let p = proof_with(ll, bits, o).ok()?;
                                pan::catch(|| level(&p, cr, false)).ok()
                            };
                            let base = match lv(&mk(q, g, ext), 128) {
                                Some(v) => v,
                                None => {
                                    out.violation("proven security estimate panics or its context cannot be decoded", info());
                                    continue;
                                },
                            };
                            n += 1;
                            // the value itself, against the transcription of the documented formula
                            let (lo, hi) = ref_proven(q, b, g, ext, bits, ll, 128);
                            if (base as u64) < lo || (base as u64) > hi {
                                out.violation("proven security differs from the documented formula", json!({"case": info(), "got": base, "want": [lo, hi]}));
                            }
                            // successors: next query count in the lattice, next grinding value, next extension
                            if q < 255 {
                                if let Some(v) = lv(&mk(q + 1, g, ext), 128) {
                                    n += 1;
                                    if v < base {
                                        out.violation("proven security decreases when the number of queries grows", json!({"case": info(), "level": base, "with_one_more_query": v}));
                                    }
                                }
                            }
                            if g < 32 {
                                if let Some(v) = lv(&mk(q, g + 1, ext), 128) {
                                    n += 1;
                                    if v < base {
                                        out.violation("proven security decreases when the grinding factor grows", json!({"case": info(), "level": base, "with_more_grinding": v}));
                                    }
                                }
                            }
                            if ext < 3 {
                                if let Some(v) = lv(&mk(q, g, ext + 1), 128) {
                                    n += 1;
                                    if v < base {
                                        out.violation("proven security decreases when the extension degree grows", json!({"case": info(), "level": base, "with_larger_extension": v}));
                                    }
                                }
                            }
                            let mut prev = 0;
                            for cr in CRS {
                                if let Some(v) = lv(&mk(q, g, ext), cr) {
                                    n += 1;
                                    if v < prev || v > cr {
                                        out.violation("proven security decreases when the collision resistance grows, or exceeds it", info());
                                    }
                                    prev = v;
                                }
                            }
                            // the proven level never exceeds the conjectured one
                            if let Ok(p) = proof_with(ll, bits, &mk(q, g, ext)) {
                                if base > level(&p, 128, true) + 1 {
                                    out.class("proven estimate above conjectured estimate (reported, not a violation)");
                                }
                            }
                        }
                    }
                }
                out.evals(n);
                out.nontrivial_n(n);
            },
            move |idx| json!({"queries": qs2[(idx % nq) as usize], "blowup_index": (idx / nq) % 7, "grinding": grs2[(idx / (nq * 7)) as usize], "inner": "3 extensions x 3 fields x trace lengths; successors in each monotone dimension"}),
        ));
    }

    // ---- pinned values from the crate's own documentation/tests (regression anchors for the proven estimate)
    subs.push(sub_t(
        "proven.pinned",
        1,
        60,
        true,
        |_, out| {
            out.nontrivial_n(2);
            let cases: [(usize, usize, u32, u32, u32, u32, u32); 2] = [(80, 4, 20, 3, 64, 18, 97), (85, 2, 20, 3, 64, 18, 0)];
            for (i, (q, b, g, ext, bits, ll, want)) in cases.iter().enumerate() {
                let o = ProofOptions::new(*q, *b, *g, ext_of(*ext), 8, 127);
                if let Ok(p) = proof_with(*ll, *bits, &o) {
                    let got = level(&p, 128, false);
                    if i == 0 && got != *want {
                        out.violation("proven security differs from the value pinned in the crate's own test (97 bits)", json!({"got": got}));
                    }
                }
            }
        },
        |_| json!({"pinned": "80 queries, blowup 4, grinding 20, cubic extension of the 64-bit field, 2^18 steps -> 97 bits"}),
    ));

    // ---- policy: thresholds around the level and option-set membership
    {
        let lens = lens.clone();
        subs.push(sub_t(
            "policy",
            255,
            120,
            true,
            move |idx, out| {
                let q = idx as u32 + 1;
                let mut n = 0;
                for &b in blowups.iter() {
                    for g in [0u32, 16, 32] {
                        for ext in 1..=3u32 {
                            let opts = ProofOptions::new(q as usize, b as usize, g, ext_of(ext), 8, 15);
                            let ll = lens[(q as usize + ext as usize) % lens.len()];
                            let bits = [62, 64, 128][(q % 3) as usize];
                            let p = match proof_with(ll, bits, &opts) {
                                Ok(p) => p,
                                Err(e) => {
                                    // only contexts whose LDE domain exceeds 2^32 - 1 may be refused
                                    if (1u64 << ll) * b as u64 <= u32::MAX as u64 {
                                        out.violation("a context inside the documented parameter space cannot be decoded", json!({"queries": q, "blowup": b, "grinding": g, "extension_degree": ext, "field_bits": bits, "log2_trace_length": ll, "error": e}));
                                    }
                                    continue;
                                },
                            };
                            let info = || json!({"queries": q, "blowup": b, "grinding": g, "extension_degree": ext, "field_bits": bits, "log2_trace_length": ll});
                            for conj in [true, false] {
                                if !conj && q % 16 != 0 {
                                    continue; // the proven estimate is costly: thresholds on a sub-lattice
                                }
                                let lvl = p.security_level::<hashers::Blake3_256<B64>>(conj);
                                for t in [lvl.saturating_sub(1), lvl, lvl + 1] {
                                    n += 1;
                                    let pol = if conj { AcceptableOptions::MinConjecturedSecurity(t) } else { AcceptableOptions::MinProvenSecurity(t) };
                                    let r = pol.validate::<hashers::Blake3_256<B64>>(&p);
                                    if r.is_ok() != (lvl >= t) {
                                        out.violation("acceptance policy does not refuse exactly the proofs whose level is below the minimum", json!({"case": info(), "level": lvl, "minimum": t, "conjectured": conj}));
                                    }
                                }
                            }
                            // option sets accept exactly members
                            let other = ProofOptions::new(q as usize, b as usize, g, ext_of(ext), 4, 15);
                            let sets: Vec<(Vec<ProofOptions>, bool)> = vec![(vec![], false), (vec![other.clone()], false), (vec![other.clone(), opts.clone()], true), (vec![opts.clone()], true)];
                            for (set, member) in sets {
                                n += 1;
                                if AcceptableOptions::OptionSet(set).validate::<hashers::Blake3_256<B64>>(&p).is_ok() != member {
                                    out.violation("OptionSet policy does not accept exactly its members", info());
                                }
                            }
                        }
                    }
                }
                out.evals(n);
                out.nontrivial_n(n);
            },
            |idx| json!({"queries": idx + 1, "inner": "7 blowups x 3 grinding x 3 extensions; thresholds level-1, level, level+1; option sets"}),
        ));
    }
    // ---- the collision resistance each library hasher declares: half the digest size stated in its
    // documentation (32-byte digests: 128; 24-byte digests: 96; four 64-bit elements: 128; four 62-bit elements:
    // 248 / 2 = 124). The estimates above take it as a parameter; here it is checked for the real hashers, and
    // through them the cap of both estimates and the policy.
    {
        use crypto::Hasher;
        use glue::{B128, B62};
        subs.push(sub_t(
            "library_hashers.collision_resistance",
            6,
            60,
            true,
            |idx, out| {
                let (name, declared, want, digest_bytes): (&str, u32, u32, usize) = match idx {
                    0 => ("Blake3_256", hashers::Blake3_256::<B64>::COLLISION_RESISTANCE, 128, hashers::Blake3_256::<B64>::hash(b"x").to_bytes().len()),
                    1 => ("Blake3_192", hashers::Blake3_192::<B62>::COLLISION_RESISTANCE, 96, hashers::Blake3_192::<B62>::hash(b"x").to_bytes().len()),
                    2 => ("Sha3_256", hashers::Sha3_256::<B128>::COLLISION_RESISTANCE, 128, hashers::Sha3_256::<B128>::hash(b"x").to_bytes().len()),
                    3 => ("Rp64_256", hashers::Rp64_256::COLLISION_RESISTANCE, 128, 32),
                    4 => ("Rp62_248", hashers::Rp62_248::COLLISION_RESISTANCE, 124, 31),
                    _ => ("RpJive64_256", hashers::RpJive64_256::COLLISION_RESISTANCE, 128, 32),
                };
                out.nontrivial();
                if declared != want || (idx < 3 && declared as usize != digest_bytes * 4) {
                    out.violation(format!("{name}: declared collision resistance differs from half the documented digest size"), json!({"declared": declared, "documented": want}));
                }
                // a proof with parameters far above the cap: both estimates must stop at the hasher's collision
                // resistance, and the policy must refuse the first minimum above it
                let opts = ProofOptions::new(255, 16, 16, FieldExtension::Cubic, 4, 31);
                let bits = if idx == 1 || idx == 4 { 62 } else if idx == 2 { 128 } else { 64 };
                let opts = if bits == 128 { ProofOptions::new(255, 16, 16, FieldExtension::Quadratic, 4, 31) } else { opts };
                let Ok(p) = proof_with(10, bits, &opts) else {
                    out.violation("a context inside the documented parameter space cannot be decoded", json!({"hasher": name}));
                    return;
                };
                let (lc, lp, above_c, above_p) = match idx {
                    0 => (p.security_level::<hashers::Blake3_256<B64>>(true), p.security_level::<hashers::Blake3_256<B64>>(false), AcceptableOptions::MinConjecturedSecurity(want + 1).validate::<hashers::Blake3_256<B64>>(&p).is_ok(), AcceptableOptions::MinProvenSecurity(want + 1).validate::<hashers::Blake3_256<B64>>(&p).is_ok()),
                    1 => (p.security_level::<hashers::Blake3_192<B62>>(true), p.security_level::<hashers::Blake3_192<B62>>(false), AcceptableOptions::MinConjecturedSecurity(want + 1).validate::<hashers::Blake3_192<B62>>(&p).is_ok(), AcceptableOptions::MinProvenSecurity(want + 1).validate::<hashers::Blake3_192<B62>>(&p).is_ok()),
                    2 => (p.security_level::<hashers::Sha3_256<B128>>(true), p.security_level::<hashers::Sha3_256<B128>>(false), AcceptableOptions::MinConjecturedSecurity(want + 1).validate::<hashers::Sha3_256<B128>>(&p).is_ok(), AcceptableOptions::MinProvenSecurity(want + 1).validate::<hashers::Sha3_256<B128>>(&p).is_ok()),
                    3 => (p.security_level::<hashers::Rp64_256>(true), p.security_level::<hashers::Rp64_256>(false), AcceptableOptions::MinConjecturedSecurity(want + 1).validate::<hashers::Rp64_256>(&p).is_ok(), AcceptableOptions::MinProvenSecurity(want + 1).validate::<hashers::Rp64_256>(&p).is_ok()),
                    4 => (p.security_level::<hashers::Rp62_248>(true), p.security_level::<hashers::Rp62_248>(false), AcceptableOptions::MinConjecturedSecurity(want + 1).validate::<hashers::Rp62_248>(&p).is_ok(), AcceptableOptions::MinProvenSecurity(want + 1).validate::<hashers::Rp62_248>(&p).is_ok()),
                    _ => (p.security_level::<hashers::RpJive64_256>(true), p.security_level::<hashers::RpJive64_256>(false), AcceptableOptions::MinConjecturedSecurity(want + 1).validate::<hashers::RpJive64_256>(&p).is_ok(), AcceptableOptions::MinProvenSecurity(want + 1).validate::<hashers::RpJive64_256>(&p).is_ok()),
                };
                if lc > want || lp > want || above_c || above_p {
                    out.violation(format!("{name}: an estimate exceeds the hasher's collision resistance, or a minimum above it is accepted"), json!({"conjectured": lc, "proven": lp, "collision_resistance": want, "min_above_accepted": [above_c, above_p]}));
                }
                if lc != want {
                    out.violation(format!("{name}: conjectured estimate of an over-provisioned proof is not capped exactly at the collision resistance"), json!({"conjectured": lc, "collision_resistance": want}));
                }
            },
            |idx| json!({"hasher": (["Blake3_256", "Blake3_192", "Sha3_256", "Rp64_256", "Rp62_248", "RpJive64_256"][idx as usize])}),
        ));
    }
    let _ = TraceInfo::new(1, 8);
    // ---- proofs whose claimed field differs from the computation's field: verify() of a computation over the 64-bit field
    // on proofs claiming other moduli must refuse without panicking, and a policy error must never carry a level computed
    // from the claimed field
    subs.push(sub_t(
        "claimed_field",
        1,
        60,
        true,
        move |_, out| {
            use air::{Air, AirContext, Assertion, EvaluationFrame, TransitionConstraintDegree};
            use math::FieldElement;
            struct IncAir {
                ctx: AirContext<B64>,
            }
            impl Air for IncAir {
                type BaseField = B64;
                type PublicInputs = ();
                type GkrProof = ();
                type GkrVerifier = ();
                fn new(info: TraceInfo, _p: (), opts: ProofOptions) -> Self {
                    IncAir { ctx: AirContext::new(info, vec![TransitionConstraintDegree::new(1)], 1, opts) }
                }
                fn context(&self) -> &AirContext<B64> {
                    &self.ctx
                }
                fn evaluate_transition<E: FieldElement<BaseField = B64>>(&self, frame: &EvaluationFrame<E>, _pv: &[E], result: &mut [E]) {
                    result[0] = frame.next()[0] - frame.current()[0] - E::ONE;
                }
                fn get_assertions(&self) -> Vec<Assertion<B64>> {
                    vec![Assertion::single(0, 0, B64::ZERO)]
                }
            }
            type H = hashers::Blake3_256<B64>;
            // claimed moduli: the other two fields, tiny and huge values, the right one (control)
            let claims: Vec<(&str, Vec<u8>)> = vec![
                ("128-bit field", kit::refmath::P128.to_le_bytes().to_vec()),
                ("62-bit field", kit::refmath::P62.to_le_bytes()[..8].to_vec()),
                ("3", vec![3]),
                ("2^16 + 1", vec![1, 0, 1]),
                ("2^200 (25 bytes)", {
                    let mut v = vec![0u8; 25];
                    v.push(1);
                    v
                }),
            ];
            let mut n = 0u64;
            for (cname, modulus) in claims {
                for (q, blowup, log_len) in [(200usize, 8usize, 10u8), (1, 2, 3), (255, 128, 20), (30, 4, 25)] {
                    let opts = ProofOptions::new(q, blowup, 0, FieldExtension::None, 4, 7);
                    let mut bytes = vec![1u8, 0, 0, log_len, 0, 0];
                    bytes.push(modulus.len() as u8);
                    bytes.extend(&modulus);
                    bytes.extend(opts.to_bytes());
                    let Ok(ctx) = Context::read_from(&mut SliceReader::new(&bytes)) else { continue };
                    let mut p = Proof::new_dummy();
                    p.context = ctx;
                    // the level the policy may legitimately talk about: the one of the computation's own field
                    let own = ref_conjectured(q as u32, blowup as u32, 0, 1, 64, log_len as u32, 128);
                    let pols = [("MinConjecturedSecurity(0)", AcceptableOptions::MinConjecturedSecurity(0)), ("MinConjecturedSecurity(level + 1)", AcceptableOptions::MinConjecturedSecurity(own + 1)), ("MinConjecturedSecurity(127)", AcceptableOptions::MinConjecturedSecurity(127)), ("MinProvenSecurity(0)", AcceptableOptions::MinProvenSecurity(0)), ("MinProvenSecurity(127)", AcceptableOptions::MinProvenSecurity(127)), ("OptionSet", AcceptableOptions::OptionSet(vec![opts.clone()]))];
                    for (polname, pol) in pols.iter() {
                        n += 1;
                        let info = || json!({"claimed_modulus": cname, "queries": q, "blowup": blowup, "log2_trace_length": log_len, "policy": polname});
                        match pan::catch(|| verifier::verify::<IncAir, H, crypto::DefaultRandomCoin<H>>(p.clone(), (), pol)) {
                            Err(pr) => out.violation(format!("verify() panics on a proof that claims another field ({})", pr.class()), info()),
                            Ok(Ok(())) => out.violation("verify() accepts a proof that claims another field".to_string(), info()),
                            Ok(Err(e)) => {
                                let s = format!("{:?}", e);
                                if let Some(rest) = s.strip_prefix("InsufficientConjecturedSecurity(") {
                                    let got: Vec<u32> = rest.trim_end_matches(')').split(',').filter_map(|x| x.trim().parse().ok()).collect();
                                    if got.len() == 2 && got[1] != own {
                                        out.violation("the acceptance policy reports a security level computed from the field the proof claims, not from the field of the computation".to_string(), json!({"case": info(), "reported_level": got[1], "level_for_the_computation_field": own}));
                                    }
                                }
                            },
                        }
                    }
                }
            }
            out.evals(n);
            out.nontrivial_n(n);
        },
        |_| json!({"checks": "verify() on proofs claiming moduli of other fields, tiny and over-long moduli, under six policies"}),
    ));
    subs
}
