//! A harness-side FRI prover (honest and adversarial strategies) and a reference verifier written
//! from the protocol description. The prover model is bound to the implementation by comparing its
//! honest proof, byte for byte, with the proof of the real `FriProver` (see `main.rs`).
use crypto::{DefaultRandomCoin, ElementHasher, MerkleTree, RandomCoin};
use glue::{Elt, Fld};
use kit::refmath::{mulm, powm, Ctx, El};
use math::FieldElement;
use utils::Serializable;

#[derive(Clone, Copy, Debug, PartialEq, Eq)]
pub struct Cfg {
    pub n: usize,
    pub blowup: usize,
    pub k: usize,
    pub rem_deg: usize,
}

impl Cfg {
    pub fn max_poly_degree(&self) -> usize {
        self.n / self.blowup - 1
    }
    /// number of folded layers, from the protocol description
    pub fn num_layers(&self) -> usize {
        let mut d = self.n;
        let mut l = 0;
        while d > (self.rem_deg + 1) * self.blowup {
            d /= self.k;
            l += 1;
        }
        l
    }
    /// well-formed schedule: every folded layer keeps at least two rows and at least one remainder coefficient
    pub fn well_formed(&self) -> bool {
        let mut d = self.n;
        for _ in 0..self.num_layers() {
            if d % self.k != 0 || d / self.k < 2 {
                return false;
            }
            d /= self.k;
        }
        d / self.blowup >= 1 && d >= 2 && self.n >= 8
    }
    pub fn last_layer_size(&self) -> usize {
        let mut d = self.n;
        for _ in 0..self.num_layers() {
            d /= self.k;
        }
        d
    }
}

#[derive(Clone, Debug, PartialEq, Eq)]
pub enum Strategy {
    Honest,
    /// send all coefficients of the last layer's interpolant instead of the truncated remainder
    RemainderFull,
    /// commit to the honest remainder, then (knowing the positions) send a remainder interpolated
    /// through the folded query points
    RemainderAdaptive,
    /// change one opened value of layer `0` in the proof only (the commitment stays honest)
    TamperOpened(usize),
    /// change one committed value of layer `0` (>= 1) before committing and continue honestly from it
    TamperCommitted(usize),
    /// fold layer `0` with alpha + 1
    WrongAlpha(usize),
    /// drop the last layer from the proof (commitments unchanged)
    OmitLastLayer,
    /// send layer 0 twice in place of layers 0 and 1
    DuplicateLayer,
    /// swap layers 0 and 1 in the proof
    SwapLayers,
    /// commit honestly, then - knowing the positions - claim other values at the queried positions and send
    /// first-layer rows that show those values, with one un-queried member of every row adjusted so that the
    /// rows still fold to the committed next layer; the proof declares 2^`0` partitions (the openings carry the
    /// honest Merkle paths, so nothing authenticates the forged rows)
    ForgedFirstLayer(u8),
    /// commit to the function honestly, then to constant layers (all 0 / all 1) instead of the folded ones, and to the
    /// matching constant remainder
    ConstantTail(u8),
    /// an honest prover that works in 2^`0` partitions (the layout a distributed prover produces): every layer tree
    /// holds the row of position p at leaf (p mod P) * (rows / P) + p div P, the proof declares P partitions;
    /// everything else is honest
    Partitioned(u8),
}

/// leaf index of the row at `position` in a layer tree of `rows` leaves committed in `parts` partitions
pub fn leaf_index(position: usize, rows: usize, parts: usize) -> usize {
    if parts <= 1 {
        position
    } else {
        (position % parts) * (rows / parts) + position / parts
    }
}

/// domain points of layer `depth`: offset^(k^depth) * (w^(k^depth))^i
pub fn layer_domain<B: Fld>(cfg: &Cfg, depth: usize) -> (u128, u128, usize) {
    let p = B::P;
    let w = glue::root_of_unity::<B>(cfg.n.ilog2());
    let e = (cfg.k as u128).pow(depth as u32);
    // convention of the implementation (prover and verifier alike): every layer is treated as a
    // function over the coset generator * <w^(k^depth)> - the offset is not raised to the k-th power
    // from layer to layer. This rescales the variable of each folded function by a constant and leaves
    // all degrees unchanged, so it is an equivalent protocol; the model follows it.
    (B::GENERATOR.int(), powm(w, e, p), cfg.n / cfg.k.pow(depth as u32))
}

/// fold evaluations over a layer domain with factor k and challenge alpha (per-row interpolation)
pub fn ref_fold(ctx: &Ctx, evals: &[El], k: usize, offset: u128, w: u128, alpha: &El) -> Vec<El> {
    let n = evals.len();
    let rows = n / k;
    let p = ctx.p;
    (0..rows)
        .map(|j| {
            let xs: Vec<El> = (0..k).map(|m| [mulm(offset, powm(w, (j + m * rows) as u128, p), p), 0, 0]).collect();
            let ys: Vec<El> = (0..k).map(|m| evals[j + m * rows]).collect();
            let poly = ctx.poly_interpolate(&xs, &ys);
            ctx.poly_eval(&poly, alpha)
        })
        .collect()
}

/// interpolate evaluations over a layer domain (quadratic; sizes here are tiny)
pub fn ref_interpolate_domain(ctx: &Ctx, evals: &[El], offset: u128, w: u128) -> Vec<El> {
    let p = ctx.p;
    let xs: Vec<El> = (0..evals.len()).map(|i| [mulm(offset, powm(w, i as u128, p), p), 0, 0]).collect();
    ctx.poly_interpolate(&xs, evals)
}

pub fn fold_positions_ref(positions: &[usize], domain: usize, k: usize) -> Vec<usize> {
    let t = domain / k;
    let mut out: Vec<usize> = vec![];
    for p in positions {
        if !out.contains(&(p % t)) {
            out.push(p % t);
        }
    }
    out
}

pub struct Layer<E: FieldElement, H: ElementHasher<BaseField = E::BaseField>> {
    pub evals: Vec<El>,
    pub tree: MerkleTree<H>,
    pub rows: Vec<Vec<E>>,
}

/// everything the adversary committed to, plus what it will say in the proof
pub struct Committed<E: FieldElement, H: ElementHasher<BaseField = E::BaseField>> {
    pub cfg: Cfg,
    pub strategy: Strategy,
    /// evaluations the prover claims for the function (layer 0 as committed)
    pub layers: Vec<Layer<E, H>>,
    pub alphas: Vec<El>,
    pub commitments: Vec<H::Digest>,
    /// the remainder that was committed (hash of it is the last commitment)
    pub committed_remainder: Vec<El>,
    /// evaluations of the last (uncommitted) layer
    pub last_evals: Vec<El>,
}

fn commit_layer<E: Elt, H: ElementHasher<BaseField = E::BaseField>>(evals: &[El], k: usize, parts: usize) -> (MerkleTree<H>, Vec<Vec<E>>)
where
    E::BaseField: Fld,
{
    let rows = evals.len() / k;
    // rows stay indexed by position; only the leaf order of the tree follows the partition layout
    let rr: Vec<Vec<E>> = (0..rows).map(|j| (0..k).map(|m| E::from_ref(&evals[j + m * rows])).collect()).collect();
    let mut leaves: Vec<H::Digest> = vec![H::Digest::default(); rows];
    for (j, r) in rr.iter().enumerate() {
        leaves[leaf_index(j, rows, parts)] = H::hash_elements(r);
    }
    (MerkleTree::<H>::new(leaves).expect("layer tree"), rr)
}

/// commit phase: run the strategy's folding, commit to every layer and the remainder
pub fn commit<E: Elt, H: ElementHasher<BaseField = E::BaseField>>(cfg: &Cfg, f: &[El], strategy: &Strategy) -> Committed<E, H>
where
    E::BaseField: Fld,
{
    let ctx = E::ctx();
    let mut coin = DefaultRandomCoin::<H>::new(&[]);
    let mut layers = vec![];
    let mut alphas = vec![];
    let mut commitments = vec![];
    let mut cur = f.to_vec();
    for depth in 0..cfg.num_layers() {
        if let Strategy::TamperCommitted(l) = strategy {
            if *l == depth {
                let i = cur.len() / 3;
                cur[i] = ctx.add(&cur[i], &Ctx::ONE);
            }
        }
        let parts = if let Strategy::Partitioned(e) = strategy { 1usize << *e } else { 1 };
        let (tree, rows) = commit_layer::<E, H>(&cur, cfg.k, parts);
        coin.reseed(*tree.root());
        commitments.push(*tree.root());
        let alpha: E = coin.draw().expect("alpha");
        let a = alpha.to_ref();
        alphas.push(a);
        let fold_alpha = if *strategy == Strategy::WrongAlpha(depth) { ctx.add(&a, &Ctx::ONE) } else { a };
        let (off, w, _) = layer_domain::<E::BaseField>(cfg, depth);
        let next = ref_fold(&ctx, &cur, cfg.k, off, w, &fold_alpha);
        layers.push(Layer { evals: cur, tree, rows });
        cur = if let Strategy::ConstantTail(c) = strategy { vec![[*c as u128, 0, 0]; next.len()] } else { next };
    }
    // convention of the implementation (prover and verifier alike): the remainder is expressed in the
    // variable of the coset generator * <w_L>, i.e. the domain offset is NOT raised to k^L for the last
    // layer; this rescales the variable and leaves the degree unchanged
    let (_, w, _) = layer_domain::<E::BaseField>(cfg, cfg.num_layers());
    let off = <E::BaseField as math::StarkField>::GENERATOR.int();
    let poly = ref_interpolate_domain(&ctx, &cur, off, w);
    let rem_size = cur.len() / cfg.blowup;
    let committed_remainder = if *strategy == Strategy::RemainderFull { poly.clone() } else { poly[..rem_size].to_vec() };
    let rem_e: Vec<E> = glue::from_refs(&committed_remainder);
    let c = H::hash_elements(&rem_e);
    coin.reseed(c);
    commitments.push(c);
    Committed { cfg: *cfg, strategy: strategy.clone(), layers, alphas, commitments, committed_remainder, last_evals: cur }
}

/// what the proof says for one layer
pub struct SaidLayer<E: FieldElement> {
    /// which committed layer the openings were taken from
    pub from_layer: usize,
    /// positions (in that layer's folded domain) that were opened
    pub opened_positions: Vec<usize>,
    pub rows: Vec<Vec<E>>,
    pub paths: Vec<u8>,
}

pub struct Said<E: FieldElement> {
    pub layers: Vec<SaidLayer<E>>,
    pub remainder: Vec<El>,
    /// log2 of the number of partitions the proof declares
    pub partitions_exp: u8,
}

/// query phase: the proof for a given position list (the adversary sees the positions)
pub fn respond<E: Elt, H: ElementHasher<BaseField = E::BaseField>>(c: &Committed<E, H>, positions: &[usize]) -> Option<Said<E>>
where
    E::BaseField: Fld,
{
    let ctx = E::ctx();
    let cfg = &c.cfg;
    let mut said = vec![];
    let mut pos = positions.to_vec();
    let mut dom = cfg.n;
    let mut folded_per_layer = vec![];
    for depth in 0..cfg.num_layers() {
        pos = fold_positions_ref(&pos, dom, cfg.k);
        folded_per_layer.push(pos.clone());
        dom /= cfg.k;
    }
    for depth in 0..cfg.num_layers() {
        // which committed layer answers for proof slot `depth`
        let from = match c.strategy {
            Strategy::DuplicateLayer if depth == 1 => 0,
            Strategy::SwapLayers if depth == 0 => 1,
            Strategy::SwapLayers if depth == 1 => 0,
            _ => depth,
        };
        if from >= c.layers.len() {
            return None;
        }
        // the positions the verifier will ask this slot for
        let want = &folded_per_layer[depth];
        let lay = &c.layers[from];
        // an adversary can only open positions that exist in the tree it opens from
        let opened: Vec<usize> = want.iter().map(|p| p % lay.rows.len()).collect();
        let mut dedup = opened.clone();
        dedup.sort();
        dedup.dedup();
        if dedup.len() != opened.len() {
            return None;
        }
        let parts = if let Strategy::Partitioned(e) = c.strategy { 1usize << e } else { 1 };
        let opened_leaves: Vec<usize> = opened.iter().map(|p| leaf_index(*p, lay.rows.len(), parts)).collect();
        let proof = lay.tree.prove_batch(&opened_leaves).ok()?;
        let mut rows: Vec<Vec<E>> = opened.iter().map(|p| lay.rows[*p].clone()).collect();
        if c.strategy == Strategy::TamperOpened(depth) {
            rows[0][0] = rows[0][0] + E::ONE;
        }
        if let (Strategy::ForgedFirstLayer(_), 0) = (&c.strategy, depth) {
            let row_len = cfg.n / cfg.k;
            let (off, w, _) = layer_domain::<E::BaseField>(cfg, 0);
            let p = ctx.p;
            for (j, row) in opened.iter().zip(rows.iter_mut()) {
                let queried: Vec<usize> = (0..cfg.k).filter(|m| positions.contains(&(j + m * row_len))).collect();
                let free = (0..cfg.k).find(|m| !queried.contains(m))?;
                // the fold of a row is linear in its members: coefficient of member m = fold of the m-th unit row
                let xs: Vec<El> = (0..cfg.k).map(|m| [mulm(off, powm(w, (j + m * row_len) as u128, p), p), 0, 0]).collect();
                let coef = |m: usize| -> El {
                    let ys: Vec<El> = (0..cfg.k).map(|i| if i == m { Ctx::ONE } else { Ctx::ZERO }).collect();
                    ctx.poly_eval(&ctx.poly_interpolate(&xs, &ys), &c.alphas[0])
                };
                let mut delta = Ctx::ZERO;
                for m in queried.iter() {
                    row[*m] = row[*m] + E::ONE;
                    delta = ctx.add(&delta, &coef(*m));
                }
                let cf = coef(free);
                if ctx.is_zero(&cf) {
                    return None;
                }
                let adj = ctx.div(&delta, &cf);
                row[free] = E::from_ref(&ctx.sub(&row[free].to_ref(), &adj));
            }
        }
        said.push(SaidLayer { from_layer: from, opened_positions: opened, rows, paths: proof.serialize_nodes() });
    }
    if c.strategy == Strategy::OmitLastLayer {
        if said.is_empty() {
            return None;
        }
        said.pop();
    }
    let remainder = match c.strategy {
        Strategy::RemainderAdaptive => {
            // interpolate a fresh remainder through the last-layer values at the folded query points
            let last_pos = folded_per_layer.last().cloned().unwrap_or_else(|| {
                let mut v = vec![];
                for p in positions {
                    if !v.contains(p) {
                        v.push(*p)
                    }
                }
                v
            });
            let rem_size = c.last_evals.len() / cfg.blowup;
            if last_pos.len() > rem_size {
                return None; // not enough freedom within the degree bound
            }
            let (_, w, _) = layer_domain::<E::BaseField>(cfg, cfg.num_layers());
            let off = <E::BaseField as math::StarkField>::GENERATOR.int();
            let p = ctx.p;
            let xs: Vec<El> = last_pos.iter().map(|i| [mulm(off, powm(w, *i as u128, p), p), 0, 0]).collect();
            let ys: Vec<El> = last_pos.iter().map(|i| c.last_evals[*i]).collect();
            let mut r = ctx.poly_interpolate(&xs, &ys);
            r.resize(rem_size, Ctx::ZERO);
            // a power of two number of coefficients is required by the format
            r
        },
        _ => c.committed_remainder.clone(),
    };
    let partitions_exp = match c.strategy {
        Strategy::ForgedFirstLayer(e) | Strategy::Partitioned(e) => e,
        _ => 0,
    };
    Some(Said { layers: said, remainder, partitions_exp })
}

/// FriProof wire format (see fri/src/proof.rs): layers (u8 count; per layer u32-prefixed value bytes and
/// u32-prefixed path bytes), u16-prefixed remainder bytes, partition-count exponent
pub fn encode<E: Elt>(said: &Said<E>) -> Vec<u8>
where
    E::BaseField: Fld,
{
    let mut out = vec![said.layers.len() as u8];
    for l in said.layers.iter() {
        let mut vals = vec![];
        for r in l.rows.iter() {
            for e in r {
                vals.extend(e.to_bytes());
            }
        }
        out.extend((vals.len() as u32).to_le_bytes());
        out.extend(vals);
        out.extend((l.paths.len() as u32).to_le_bytes());
        out.extend(&l.paths);
    }
    let mut rem = vec![];
    for e in said.remainder.iter() {
        rem.extend(E::from_ref(e).to_bytes());
    }
    out.extend((rem.len() as u16).to_le_bytes());
    out.extend(rem);
    out.push(said.partitions_exp);
    out
}

#[derive(Debug, PartialEq, Eq)]
pub enum RefVerdict {
    Accept,
    Reject(&'static str),
}

/// Reference verifier, from the protocol description. It sees the adversary's commitments and the
/// proof content; "authentic" means: the opened rows are the rows of the tree committed under the
/// commitment of that layer, at exactly the positions the verifier derives.
pub fn ref_verify<E: Elt, H: ElementHasher<BaseField = E::BaseField>>(c: &Committed<E, H>, said: &Said<E>, positions: &[usize], claimed: &[El]) -> RefVerdict
where
    E::BaseField: Fld,
{
    let ctx = E::ctx();
    let cfg = &c.cfg;
    let k = cfg.k;
    if claimed.len() != positions.len() {
        return RefVerdict::Reject("number of evaluations differs from number of positions");
    }
    // degree bookkeeping at construction: the bound must be reducible at every layer but the last
    let mut mdp1 = cfg.max_poly_degree() + 1;
    let ncommit = c.commitments.len();
    for depth in 0..ncommit {
        if depth != ncommit - 1 && mdp1 % k != 0 {
            return RefVerdict::Reject("degree truncation");
        }
        mdp1 /= k;
    }
    let mut mdp1 = cfg.max_poly_degree() + 1;
    let mut pos = positions.to_vec();
    let mut evals = claimed.to_vec();
    let mut dom = cfg.n;
    for depth in 0..cfg.num_layers() {
        let folded = fold_positions_ref(&pos, dom, k);
        let Some(sl) = said.layers.get(depth) else { return RefVerdict::Reject("missing layer") };
        // authenticity against the commitment of this layer
        let lay = &c.layers[sl.from_layer];
        if *lay.tree.root() != c.commitments[depth] || sl.opened_positions != folded || sl.rows.len() != folded.len() {
            return RefVerdict::Reject("layer opening is not authentic for the committed layer");
        }
        for (r, p) in sl.rows.iter().zip(folded.iter()) {
            if *r != lay.rows[*p] {
                return RefVerdict::Reject("layer opening is not authentic for the committed layer");
            }
        }
        // previous evaluations must be the opened values
        let row_len = dom / k;
        for (p, e) in pos.iter().zip(evals.iter()) {
            let idx = folded.iter().position(|v| *v == p % row_len).unwrap();
            if sl.rows[idx][p / row_len].to_ref() != *e {
                return RefVerdict::Reject("folding inconsistent with the next layer");
            }
        }
        // fold every opened row with the verifier's alpha
        let (off, w, _) = layer_domain::<E::BaseField>(cfg, depth);
        let p = ctx.p;
        evals = folded
            .iter()
            .zip(sl.rows.iter())
            .map(|(j, row)| {
                let xs: Vec<El> = (0..k).map(|m| [mulm(off, powm(w, (j + m * row_len) as u128, p), p), 0, 0]).collect();
                let ys: Vec<El> = row.iter().map(|e| e.to_ref()).collect();
                ctx.poly_eval(&ctx.poly_interpolate(&xs, &ys), &c.alphas[depth])
            })
            .collect();
        if mdp1 % k != 0 {
            return RefVerdict::Reject("degree truncation");
        }
        mdp1 /= k;
        dom /= k;
        pos = folded;
    }
    if said.layers.len() != cfg.num_layers() {
        return RefVerdict::Reject("wrong number of layers");
    }
    if said.remainder.len() > mdp1 {
        return RefVerdict::Reject("remainder exceeds the degree bound");
    }
    // the remainder must be the committed one
    let rem_e: Vec<E> = glue::from_refs(&said.remainder);
    if H::hash_elements(&rem_e) != *c.commitments.last().unwrap() {
        return RefVerdict::Reject("remainder is not the committed one");
    }
    let (_, w, _) = layer_domain::<E::BaseField>(cfg, cfg.num_layers());
    let off = <E::BaseField as math::StarkField>::GENERATOR.int();
    for (p, e) in pos.iter().zip(evals.iter()) {
        let x = [mulm(off, powm(w, *p as u128, ctx.p), ctx.p), 0, 0];
        if ctx.poly_eval(&said.remainder, &x) != *e {
            return RefVerdict::Reject("remainder inconsistent with the last folded layer");
        }
    }
    RefVerdict::Accept
}
