//! C05 (FRI soundness: adversary enumeration against a reference verifier) and
//! C15 (FRI completeness and the folding identity).
mod c15;
#[path = "../../stark/src/c04_fri.rs"]
mod fri_binding;
mod model;

use std::sync::Arc;

use crypto::{hashers, DefaultRandomCoin, ElementHasher, RandomCoin};
use fri::{DefaultProverChannel, DefaultVerifierChannel, FriOptions, FriProof, FriProver, FriVerifier};
use glue::{from_refs, rand_el, Elt, Fld, B128, B62, B64};
use kit::engine::sub_t;
use kit::refmath::{mulm, powm, Ctx, El};
use kit::rng::Rng;
use kit::{json, pan, Args, Run, Sub, Value};
use math::fields::{CubeExtension, QuadExtension};
use math::FieldElement;
use model::*;
use utils::{Deserializable, Serializable, SliceReader};

#[derive(Clone, Debug)]
enum Func {
    /// c * x^j
    Monomial(usize),
    /// polynomial of degree exactly d (the bound) with seeded coefficients
    LowDegree,
    /// low-degree polynomial changed at one domain point
    CorruptOne(usize),
    /// low-degree polynomial changed at two domain points
    CorruptTwo(usize, usize),
    /// low-degree polynomial changed on half of the domain
    CorruptHalf,
    /// seed-derived values
    Random,
    /// seed-derived values, but zero (0) / one (1) on the first 1/k of the domain - the first member of every
    /// first-layer row
    FirstColumn(u8),
}

fn eval_func<E: Elt>(cfg: &Cfg, f: &Func, seed: u64) -> Vec<El>
where
    E::BaseField: Fld,
{
    let ctx = E::ctx();
    let p = ctx.p;
    let (off, w, n) = layer_domain::<E::BaseField>(cfg, 0);
    let xs: Vec<u128> = (0..n).map(|i| mulm(off, powm(w, i as u128, p), p)).collect();
    let mut rng = Rng::labelled(seed, "fri-func");
    let low: Vec<El> = (0..=cfg.max_poly_degree()).map(|_| rand_el(&mut rng, &ctx)).collect();
    let low_eval = |x: u128| ctx.poly_eval(&low, &[x, 0, 0]);
    match f {
        Func::Monomial(j) => {
            let c = rand_el(&mut rng, &ctx);
            xs.iter().map(|x| ctx.mul_base(&c, powm(*x, *j as u128, p))).collect()
        },
        Func::LowDegree => xs.iter().map(|x| low_eval(*x)).collect(),
        Func::CorruptOne(i) => {
            let mut v: Vec<El> = xs.iter().map(|x| low_eval(*x)).collect();
            v[*i] = ctx.add(&v[*i], &Ctx::ONE);
            v
        },
        Func::CorruptTwo(i, j) => {
            let mut v: Vec<El> = xs.iter().map(|x| low_eval(*x)).collect();
            v[*i] = ctx.add(&v[*i], &Ctx::ONE);
            v[*j] = ctx.add(&v[*j], &[2, 0, 0]);
            v
        },
        Func::CorruptHalf => xs.iter().enumerate().map(|(i, x)| if i % 2 == 0 { low_eval(*x) } else { ctx.add(&low_eval(*x), &[i as u128 + 1, 0, 0]) }).collect(),
        Func::Random => (0..n).map(|_| rand_el(&mut rng, &ctx)).collect(),
        Func::FirstColumn(c) => (0..n).map(|i| if i < n / cfg.k { [*c as u128, 0, 0] } else { rand_el(&mut rng, &ctx) }).collect(),
    }
}

fn is_low_degree(f: &Func, cfg: &Cfg) -> bool {
    match f {
        Func::LowDegree => true,
        Func::Monomial(j) => *j <= cfg.max_poly_degree(),
        _ => false,
    }
}

fn funcs(cfg: &Cfg, thorough: bool) -> Vec<Func> {
    let n = cfg.n;
    let d = cfg.max_poly_degree();
    let mut v = vec![Func::LowDegree, Func::Random, Func::CorruptHalf, Func::Monomial(0), Func::Monomial(d), Func::FirstColumn(0), Func::FirstColumn(1)];
    // every degree above the bound
    for j in d + 1..n {
        if (thorough && n <= 64) || n <= 32 || j <= d + 4 || j >= n - 2 || j % 7 == 0 {
            v.push(Func::Monomial(j));
        }
    }
    // every single corrupted point; pairs on a lattice
    for i in 0..n {
        if (thorough && n <= 64) || n <= 16 || i % 5 == 0 || i == n - 1 {
            v.push(Func::CorruptOne(i));
        }
    }
    let step = if thorough && n <= 32 { 3 } else { 11 };
    for i in (0..n).step_by(step) {
        for j in ((i + 1)..n).step_by(step + 2) {
            v.push(Func::CorruptTwo(i, j));
        }
    }
    v
}

fn strategies(cfg: &Cfg) -> Vec<Strategy> {
    let l = cfg.num_layers();
    let mut v = vec![Strategy::Honest, Strategy::RemainderFull, Strategy::RemainderAdaptive];
    for i in 0..l {
        v.push(Strategy::TamperOpened(i));
        v.push(Strategy::WrongAlpha(i));
        if i >= 1 {
            v.push(Strategy::TamperCommitted(i));
        }
    }
    if l >= 1 {
        // layers after the first are not folded at all: constant 0 / constant 1, with the matching remainder
        v.push(Strategy::ConstantTail(0));
        v.push(Strategy::ConstantTail(1));
        v.push(Strategy::OmitLastLayer);
        for e in [0u8, 1, 62, 63] {
            v.push(Strategy::ForgedFirstLayer(e));
        }
    }
    // an honest prover working in 2 / 4 partitions: every layer tree must have at least that many rows
    let mut min_rows = usize::MAX;
    let mut d = cfg.n;
    for _ in 0..l {
        d /= cfg.k;
        min_rows = min_rows.min(d);
    }
    for e in [1u8, 2] {
        if l >= 1 && min_rows >= (1 << e) {
            v.push(Strategy::Partitioned(e));
        }
    }
    if l >= 2 {
        v.push(Strategy::DuplicateLayer);
        v.push(Strategy::SwapLayers);
    }
    v
}

/// all position lists of size 1 and 2 (all subsets), plus a few with repeats and with more positions
fn position_sets(n: usize, thorough: bool) -> Vec<Vec<usize>> {
    let mut v: Vec<Vec<usize>> = (0..n).map(|i| vec![i]).collect();
    for i in 0..n {
        for j in i + 1..n {
            if (thorough && n <= 64) || n <= 32 || (i + j) % 3 == 0 {
                v.push(vec![i, j]);
            }
        }
    }
    v.push(vec![1, 1]);
    v.push(vec![n - 1, 0, n / 2]);
    v.push((0..n.min(12)).map(|i| (i * 5 + 1) % n).collect::<std::collections::BTreeSet<_>>().into_iter().collect());
    v
}

fn configs(thorough: bool) -> Vec<Cfg> {
    let mut v = vec![];
    let ns: Vec<usize> = if thorough { vec![16, 32, 64, 128] } else { vec![16, 32] };
    for &n in ns.iter() {
        for k in [2usize, 4, 8, 16] {
            for blowup in [2usize, 4, 8] {
                for rem_deg in [0usize, 1, 3, 7] {
                    let c = Cfg { n, blowup, k, rem_deg };
                    if c.well_formed() && n / blowup >= 2 && (rem_deg + 1) * blowup <= n {
                        // thin the product: every k with every blowup, remainder degrees rotated
                        if thorough || (k + blowup + rem_deg) % 2 == 1 || n == 16 {
                            v.push(c);
                        }
                    }
                }
            }
        }
    }
    v
}

fn real_verify<E: Elt, H: ElementHasher<BaseField = E::BaseField>>(cfg: &Cfg, commitments: &[H::Digest], proof_bytes: &[u8], positions: &[usize], claimed: &[El]) -> Result<Result<(), String>, pan::PanicRec>
where
    E::BaseField: Fld,
{
    pan::catch(|| {
        let proof = FriProof::read_from(&mut SliceReader::new(proof_bytes)).map_err(|e| format!("proof does not parse: {e}"))?;
        let opts = FriOptions::new(cfg.blowup, cfg.k, cfg.rem_deg);
        let mut channel = DefaultVerifierChannel::<E, H>::new(proof, commitments.to_vec(), cfg.n, cfg.k).map_err(|e| format!("channel: {e}"))?;
        let mut coin = DefaultRandomCoin::<H>::new(&[]);
        let verifier = FriVerifier::<E, _, H, DefaultRandomCoin<H>>::new(&mut channel, &mut coin, opts, cfg.max_poly_degree()).map_err(|e| format!("{:?}", e))?;
        let evals: Vec<E> = from_refs(claimed);
        verifier.verify(&mut channel, &evals, positions).map_err(|e| format!("{:?}", e))
    })
}

fn c05_subs<E: Elt, H: ElementHasher<BaseField = E::BaseField> + 'static>(run: &Arc<Run>, hname: &'static str, max_n: usize) -> Vec<Arc<dyn Sub>>
where
    E::BaseField: Fld,
    H::Digest: 'static,
{
    let thorough = run.tier().is_thorough();
    let seed = run.seed();
    let mut cases: Vec<(Cfg, Func, Strategy)> = vec![];
    for cfg in configs(thorough) {
        if cfg.n > max_n {
            continue;
        }
        for f in funcs(&cfg, thorough) {
            for s in strategies(&cfg) {
                cases.push((cfg, f.clone(), s));
            }
        }
    }
    let cases = Arc::new(cases);
    let c2 = cases.clone();
    let name = format!("{}/{}", E::tname(), hname);
    let nm = name.clone();
    vec![sub_t(
        &format!("{name}.adversaries"),
        cases.len() as u64,
        300,
        true,
        move |idx, out| {
            let (cfg, func, strat) = cases[idx as usize].clone();
            let f = eval_func::<E>(&cfg, &func, seed);
            let committed = commit::<E, H>(&cfg, &f, &strat);
            let info = |pos: &[usize]| json!({"field/hasher": nm, "config": format!("{:?}", cfg), "function": format!("{:?}", func), "strategy": format!("{:?}", strat), "positions": pos});
            // bind the prover model to the implementation: the honest proof equals the real prover's, byte for byte
            if strat == Strategy::Honest {
                let positions = vec![1usize, cfg.n / 2 + 1];
                let mut channel = DefaultProverChannel::<E, H, DefaultRandomCoin<H>>::new(cfg.n, 2);
                let mut prover = FriProver::<E::BaseField, E, _, H>::new(FriOptions::new(cfg.blowup, cfg.k, cfg.rem_deg));
                prover.build_layers(&mut channel, from_refs::<E>(&f));
                let real = prover.build_proof(&positions).to_bytes();
                let mine = respond(&committed, &positions).map(|s| encode(&s));
                out.traces(1);
                if std::env::var("FRI_DEBUG").is_ok() {
                    eprintln!("cfg {:?} commitments equal: {:?}", cfg, channel.layer_commitments().iter().zip(committed.commitments.iter()).map(|(a, b)| a == b).collect::<Vec<_>>());
                    eprintln!("real {}\nmine {}", kit::hex(&real), mine.as_ref().map(|m| kit::hex(m)).unwrap_or_default());
                }
                if channel.layer_commitments() != committed.commitments.as_slice() || mine.as_deref() != Some(real.as_slice()) {
                    out.violation(format!("{nm}: the real prover's commitments / proof differ from the protocol model's honest proof"), info(&positions));
                    return;
                }
            }
            let mut accepted = 0u64;
            let mut n_pos = 0u64;
            for positions in position_sets(cfg.n, thorough) {
                // the layer-0 values the prover claims at the queried positions
                let mut claimed: Vec<El> = positions.iter().map(|p| committed.layers.first().map(|l| l.evals[*p]).unwrap_or(f[*p])).collect();
                if let Strategy::ForgedFirstLayer(_) = strat {
                    // the forger claims other values at the queried positions than the function it committed to
                    let ctx = E::ctx();
                    for c in claimed.iter_mut() {
                        *c = ctx.add(c, &kit::refmath::Ctx::ONE);
                    }
                }
                let Some(said) = respond(&committed, &positions) else { continue };
                n_pos += 1;
                let want = ref_verify(&committed, &said, &positions, &claimed);
                let bytes = encode(&said);
                let got = real_verify::<E, H>(&cfg, &committed.commitments, &bytes, &positions, &claimed);
                match (&want, &got) {
                    (RefVerdict::Accept, Ok(Ok(()))) => accepted += 1,
                    (RefVerdict::Reject(_), Ok(Err(_))) => {},
                    (RefVerdict::Reject(why), Ok(Ok(()))) => out.violation(
                        format!("{nm}: FRI verifier accepts a proof the reference verifier rejects ({why}); strategy {}", strat_class(&strat)),
                        info(&positions),
                    ),
                    (RefVerdict::Accept, Ok(Err(e))) => out.violation(format!("{nm}: FRI verifier rejects a proof the reference verifier accepts; strategy {}", strat_class(&strat)), json!({"case": info(&positions), "error": e})),
                    (_, Err(p)) => out.violation(format!("{nm}: FRI verifier panics instead of rejecting ({}); strategy {}", p.class(), strat_class(&strat)), info(&positions)),
                }
                // functions of too high degree are rejected at every position whatever the strategy;
                // honestly folded low-degree functions are accepted at every position
                if let Ok(Ok(())) = got {
                    if let Func::Monomial(j) = func {
                        if j > cfg.max_poly_degree() {
                            out.violation(format!("{nm}: evaluations of a polynomial above the degree bound are accepted"), info(&positions));
                        }
                    }
                } else if strat == Strategy::Honest && is_low_degree(&func, &cfg) {
                    out.violation(format!("{nm}: an honest proof for a low-degree function is rejected"), info(&positions));
                }
            }
            out.evals(n_pos);
            out.nontrivial_n(n_pos.max(1));
            out.class(if accepted > 0 { "case with at least one accepted position set" } else { "case rejected at every position set" });
        },
        move |idx| json!({"config": format!("{:?}", c2[idx as usize].0), "function": format!("{:?}", c2[idx as usize].1), "strategy": format!("{:?}", c2[idx as usize].2), "positions": "all singletons and pairs, plus repeats"}),
    )]
}

fn strat_class(s: &Strategy) -> &'static str {
    match s {
        Strategy::Honest => "honest",
        Strategy::RemainderFull => "full remainder",
        Strategy::RemainderAdaptive => "remainder interpolated after seeing the queries",
        Strategy::TamperOpened(_) => "tampered opened value",
        Strategy::TamperCommitted(_) => "tampered committed value",
        Strategy::WrongAlpha(_) => "wrong folding challenge",
        Strategy::OmitLastLayer => "omitted layer",
        Strategy::DuplicateLayer => "duplicated layer",
        Strategy::SwapLayers => "swapped layers",
        Strategy::ConstantTail(_) => "constant later layers instead of folded ones",
        Strategy::Partitioned(_) => "honest prover working in 2 / 4 partitions (partitioned leaf layout, declared in the proof)",
        Strategy::ForgedFirstLayer(_) => "first-layer rows forged after seeing the queries (declared partition counts 1, 2, 2^62, 2^63)",
    }
}

fn main() {
    let args = Args::parse();
    match args.prop.clone().as_str() {
        "C05" => {
            let run = Run::new(args, "exploration");
            run.rule("stand-alone FRI: configurations (domain 16,32 quick / 16..128 thorough) x folding {2,4,8,16} x blowup {2,4,8} x remainder degree {0,1,3,7} with a well-formed schedule; functions: every monomial above the degree bound, the bound itself, a low-degree polynomial corrupted at every single point / on a lattice of pairs / on half the domain, a seeded random function, seeded functions that are 0 / 1 on the first 1/k of the domain; adversary strategies: constant (0 / 1) later layers with the matching remainder instead of folded ones, honest, full remainder, remainder interpolated after seeing the queries, tampered opened value per layer, first-layer rows forged after seeing the queries (other values at the queried positions, an un-queried member of each row adjusted to keep the fold) under declared partition counts {1,2,2^62,2^63}, tampered committed value per layer, wrong folding challenge per layer, omitted / duplicated / swapped layers; positions: ALL position lists of size 1 and 2 (all subsets; a third of the pairs for n = 128) plus lists with repeats; functions and pairs are complete up to n = 32 (quick) / n = 64 (thorough, pair lattice of corruptions coarser above 32) and thinned as stated for the largest domain; largest domain per (field, hasher) instance: 32/16/16 quick, 128/32/64/16/16 thorough; for every (function, strategy, positions) the real FriVerifier must answer Ok exactly when the reference verifier written from the protocol description accepts; a case = (configuration, function, strategy), non-trivial position sets counted individually; binding of the transcript: for every well-formed schedule the real prover's proof is verified with each commitment replaced (must refuse) and the coin after FriVerifier::new must depend on every commitment the verifier accepted, also when the proof carries one layer and one commitment more than the options define; the honest strategy's proof is compared byte for byte with the real FriProver's (trace conformance of the prover model)");
            run.assume("the public coin and the hashers are correct (C19, C11); Merkle openings are sound (C10); the reference verifier sees the adversary's committed layers, so 'authentic opening' is decided by equality with the committed rows");
            let mut subs = vec![];
            let quick = !run.tier().is_thorough();
            // largest domain per instance (quick: 32 / 16 / 16; thorough: 128 / 32 / 64 / 16 / 16)
            subs.extend(c05_subs::<B64, hashers::Blake3_256<B64>>(&run, "blake3_256", if quick { 32 } else { 128 }));
            subs.extend(c05_subs::<QuadExtension<B64>, hashers::Blake3_256<B64>>(&run, "blake3_256", if quick { 16 } else { 32 }));
            subs.extend(c05_subs::<B128, hashers::Sha3_256<B128>>(&run, "sha3_256", if quick { 16 } else { 64 }));
            // the remainder (and every layer) is the one committed to before the positions are drawn: commitments handed to
            // the real verifier replaced one at a time, and the coin a caller draws the positions from must have absorbed
            // every commitment the verifier accepted - also a surplus one (shared with C04's FRI-level step)
            subs.extend(fri_binding::subs::<B128, hashers::Sha3_256<B128>>(&run, "sha3_256"));
            subs.extend(fri_binding::subs::<QuadExtension<B64>, hashers::Blake3_256<B64>>(&run, "blake3_256"));
            if !quick {
                subs.extend(fri_binding::subs::<CubeExtension<B62>, hashers::Blake3_192<B62>>(&run, "blake3_192"));
                subs.extend(c05_subs::<CubeExtension<B62>, hashers::Blake3_192<B62>>(&run, "blake3_192", 16));
                subs.extend(c05_subs::<B62, hashers::Rp62_248>(&run, "rp62_248", 16));
            }
            run.go(subs)
        },
        "C15" => {
            let run = Run::new(args, "exploration");
            c15::describe(&run);
            let mut subs = vec![];
            subs.extend(c15::subs::<B64, hashers::Blake3_256<B64>>(&run, "blake3_256"));
            subs.extend(c15::subs::<QuadExtension<B64>, hashers::Rp64_256>(&run, "rp64_256"));
            subs.extend(c15::subs::<B62, hashers::Blake3_192<B62>>(&run, "blake3_192"));
            subs.extend(c15::subs::<QuadExtension<B128>, hashers::Sha3_256<B128>>(&run, "sha3_256"));
            subs.extend(c15::subs::<CubeExtension<B64>, hashers::RpJive64_256>(&run, "rpjive64_256"));
            subs.extend(c15::large_layer_subs::<QuadExtension<B128>, hashers::Sha3_256<B128>>(&run, "sha3_256"));
            subs.extend(c15::large_layer_subs::<CubeExtension<B64>, hashers::Blake3_256<B64>>(&run, "blake3_256"));
            subs.extend(c15::position_subs());
            run.go(subs)
        },
        other => kit::engine::die(&format!("frichk binary does not serve {other}")),
    }
}

#[allow(dead_code)]
fn unused(_: Value) {}
