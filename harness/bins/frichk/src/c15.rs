//! C15 — FRI completeness and the folding identity.
use std::sync::Arc;

use crypto::{DefaultRandomCoin, ElementHasher};
use fri::folding::{apply_drp, fold_positions};
use fri::utils::map_positions_to_indexes;
use fri::{DefaultProverChannel, DefaultVerifierChannel, FriOptions, FriProof, FriProver, FriVerifier};
use glue::{from_refs, rand_el, to_refs, Elt, Fld};
use kit::engine::sub_t;
use kit::refmath::{mulm, powm, Ctx, El};
use kit::rng::Rng;
use kit::{json, pan, Run, Sub};
use math::FieldElement;
use utils::{transpose_slice, Deserializable, Serializable, SliceReader};

use crate::model::{fold_positions_ref, Cfg};

pub fn describe(run: &Arc<Run>) {
    run.rule("folding identity: for folding factors {2,4,8,16}, domains 2N..512, offset = generator, alpha in {0,1,p-1,seeded,extension values}: apply_drp on the transposed evaluations of EVERY monomial x^j (j < domain size) equals alpha^(j mod N) * y^(j div N) over the folded coset - by linearity this settles every function; position folding / index mapping for ALL position lists of size <= 3 on domains <= 64 against set arithmetic; completeness: every well-formed (folding, blowup 2..128, remainder degree 0..255, domain <= 2^10) schedule x polynomials {zero, constant, exact bound, boundary, seeded} x query lists {one position, all positions, duplicates, colliding after folding, descending, interleaved}: the real prover's proof is accepted, also after to_bytes/read_from, the prover instance is reused for a second proof, layer count equals the reference count; distinct by enumeration index");
    run.assume("reference arithmetic; domain generator = library root of unity (C07); linearity of apply_drp over the field");
}

fn drp<E: Elt, const N: usize>(evals: &[E], alpha: E) -> Vec<E>
where
    E::BaseField: Fld,
{
    let t: Vec<[E; N]> = transpose_slice(evals);
    apply_drp(&t, <E::BaseField as math::StarkField>::GENERATOR, alpha)
}

fn run_proof<E: Elt, H: ElementHasher<BaseField = E::BaseField>>(
    prover: &mut FriProver<E::BaseField, E, DefaultProverChannel<E, H, DefaultRandomCoin<H>>, H>,
    cfg: &Cfg,
    evals: &[E],
    positions: &[usize],
    through_bytes: bool,
) -> Result<(), String>
where
    E::BaseField: Fld,
{
    let mut channel = DefaultProverChannel::<E, H, DefaultRandomCoin<H>>::new(cfg.n, positions.len().max(1));
    prover.build_layers(&mut channel, evals.to_vec());
    let nlayers = prover.num_layers();
    if nlayers != cfg.num_layers() {
        return Err(format!("prover built {} layers, the schedule has {}", nlayers, cfg.num_layers()));
    }
    let proof = prover.build_proof(positions);
    let proof = if through_bytes {
        let bytes = proof.to_bytes();
        let p2 = FriProof::read_from(&mut SliceReader::new(&bytes)).map_err(|e| format!("serialized proof does not parse: {e}"))?;
        if p2 != proof {
            return Err("proof changes in a serialization round trip".into());
        }
        p2
    } else {
        proof
    };
    if proof.num_layers() != cfg.num_layers() {
        return Err("proof carries a wrong number of layers".into());
    }
    let commitments = channel.layer_commitments().to_vec();
    let opts = FriOptions::new(cfg.blowup, cfg.k, cfg.rem_deg);
    if opts.num_fri_layers(cfg.n) != cfg.num_layers() {
        return Err("num_fri_layers differs from the reference layer count".into());
    }
    let mut vch = DefaultVerifierChannel::<E, H>::new(proof, commitments, cfg.n, cfg.k).map_err(|e| format!("verifier channel: {e}"))?;
    let mut coin = <DefaultRandomCoin<H> as crypto::RandomCoin>::new(&[]);
    let verifier = FriVerifier::<E, _, H, DefaultRandomCoin<H>>::new(&mut vch, &mut coin, opts, cfg.max_poly_degree()).map_err(|e| format!("{:?}", e))?;
    let claimed: Vec<E> = positions.iter().map(|p| evals[*p]).collect();
    verifier.verify(&mut vch, &claimed, positions).map_err(|e| format!("{:?}", e))
}

pub fn subs<E: Elt, H: ElementHasher<BaseField = E::BaseField> + 'static>(run: &Arc<Run>, hname: &'static str) -> Vec<Arc<dyn Sub>>
where
    E::BaseField: Fld,
    H::Digest: 'static,
{
    let thorough = run.tier().is_thorough();
    let seed = run.seed();
    let ctx = E::ctx();
    let p = ctx.p;
    let name = format!("{}/{}", E::tname(), hname);
    let mut subs: Vec<Arc<dyn Sub>> = vec![];

    // ---- folding identity on the monomial basis
    let mut fcases: Vec<(usize, usize, usize)> = vec![]; // (k, domain, j)
    for k in [2usize, 4, 8, 16] {
        let mut n = 2 * k;
        while n <= if thorough { 512 } else { 128 } {
            for j in 0..n {
                fcases.push((k, n, j));
            }
            n *= 2;
        }
    }
    let fcases = Arc::new(fcases);
    let f2 = fcases.clone();
    let nm = name.clone();
    subs.push(sub_t(
        &format!("{name}.folding_identity"),
        fcases.len() as u64,
        120,
        true,
        move |idx, out| {
            let (k, n, j) = fcases[idx as usize];
            let w = glue::root_of_unity::<E::BaseField>(n.ilog2());
            let off = <E::BaseField as math::StarkField>::GENERATOR.int();
            let mut rng = Rng::labelled(seed, &format!("drp-{k}-{n}-{j}"));
            let c = rand_el(&mut rng, &ctx);
            let evals_ref: Vec<El> = (0..n).map(|i| ctx.mul_base(&c, powm(mulm(off, powm(w, i as u128, p), p), j as u128, p))).collect();
            let evals: Vec<E> = from_refs(&evals_ref);
            let mut alphas: Vec<El> = vec![Ctx::ZERO, Ctx::ONE, [p - 1, 0, 0], rand_el(&mut rng, &ctx)];
            if E::DEG > 1 {
                alphas.push([0, 1, 0]);
            }
            out.nontrivial();
            for a in alphas {
                let got = match k {
                    2 => drp::<E, 2>(&evals, E::from_ref(&a)),
                    4 => drp::<E, 4>(&evals, E::from_ref(&a)),
                    8 => drp::<E, 8>(&evals, E::from_ref(&a)),
                    _ => drp::<E, 16>(&evals, E::from_ref(&a)),
                };
                // c * x^j = c * x^(k*q + r) folds to c * alpha^r * y^q over the coset offset^k * <w^k>
                let (q, r) = (j / k, j % k);
                let ar = ctx.mul(&c, &ctx.pow(&a, r as u128));
                let offk = powm(off, k as u128, p);
                let wk = powm(w, k as u128, p);
                let want: Vec<El> = (0..n / k).map(|i| ctx.mul_base(&ar, powm(mulm(offk, powm(wk, i as u128, p), p), q as u128, p))).collect();
                out.evals(1);
                if to_refs(&got) != want {
                    out.violation(format!("{nm}: apply_drp differs from the coefficient-domain folding identity"), json!({"folding": k, "domain": n, "monomial_degree": j, "alpha": glue::elj(&a, E::DEG)}));
                    break;
                }
            }
        },
        move |idx| json!({"folding": f2[idx as usize].0, "domain": f2[idx as usize].1, "monomial_degree": f2[idx as usize].2}),
    ));

    // ---- completeness over all well-formed schedules
    let mut ccases: Vec<Cfg> = vec![];
    for k in [2usize, 4, 8, 16] {
        for blowup in [2usize, 4, 8, 16, 32, 64, 128] {
            for rem_deg in [0usize, 1, 3, 7, 15, 31, 63, 127, 255] {
                for log_n in 3..=if thorough { 10 } else { 8 } {
                    let c = Cfg { n: 1 << log_n, blowup, k, rem_deg };
                    if c.well_formed() && c.n / blowup >= 1 && c.n > blowup {
                        ccases.push(c);
                    }
                }
            }
        }
    }
    let ccases = Arc::new(ccases);
    let cc2 = ccases.clone();
    let nm = name.clone();
    subs.push(sub_t(
        &format!("{name}.completeness"),
        ccases.len() as u64,
        300,
        true,
        move |idx, out| {
            let cfg = ccases[idx as usize];
            let d = cfg.max_poly_degree();
            let w = glue::root_of_unity::<E::BaseField>(cfg.n.ilog2());
            let off = <E::BaseField as math::StarkField>::GENERATOR.int();
            let xs: Vec<El> = (0..cfg.n).map(|i| [mulm(off, powm(w, i as u128, p), p), 0, 0]).collect();
            let mut rng = Rng::labelled(seed, &format!("compl-{idx}"));
            let polys: Vec<(&str, Vec<El>)> = vec![
                ("zero", vec![Ctx::ZERO; d + 1]),
                ("constant", {
                    let mut v = vec![Ctx::ZERO; d + 1];
                    v[0] = rand_el(&mut rng, &ctx);
                    v
                }),
                ("exactly the bound", {
                    let mut v = vec![Ctx::ZERO; d + 1];
                    v[d] = Ctx::ONE;
                    v
                }),
                ("boundary coefficients", (0..=d).map(|i| [[0u128, 1, p - 1][i % 3], 0, 0]).collect()),
                ("seeded", (0..=d).map(|_| rand_el(&mut rng, &ctx)).collect()),
            ];
            let n = cfg.n;
            let queries: Vec<(&str, Vec<usize>)> = vec![
                ("one position", vec![n - 1]),
                ("all positions", (0..n).collect()),
                ("duplicates", vec![3 % n, 3 % n, 0, 0]),
                ("colliding after folding", vec![1, 1 + n / cfg.k, (1 + 2 * (n / cfg.k)) % n, 0]),
                ("descending order", { let mut v: Vec<usize> = (0..n).step_by(3).collect(); v.reverse(); v }),
                ("interleaved order", vec![n - 2, 0, n / 2, 1, n / 2 + 1, n - 1]),
            ];
            let mut prover = FriProver::<E::BaseField, E, _, H>::new(FriOptions::new(cfg.blowup, cfg.k, cfg.rem_deg));
            for (pi, (pname, poly)) in polys.iter().enumerate() {
                // thin: boundary/seeded polynomials with every query list; the others with two lists
                let evals_ref: Vec<El> = xs.iter().map(|x| ctx.poly_eval(poly, x)).collect();
                let evals: Vec<E> = from_refs(&evals_ref);
                for (qi, (qname, pos)) in queries.iter().enumerate() {
                    if pos.len() > 255 || (pi < 3 && qi % 2 == 1 && n > 64) {
                        continue;
                    }
                    for through_bytes in [false, true] {
                        out.evals(1);
                        let info = || json!({"field/hasher": nm, "config": format!("{:?}", cfg), "polynomial": pname, "queries": qname, "after_serialization": through_bytes});
                        // the same prover instance is reused for every proof of this case
                        match pan::catch(|| run_proof::<E, H>(&mut prover, &cfg, &evals, pos, through_bytes)) {
                            Ok(Ok(())) => out.nontrivial(),
                            Ok(Err(e)) => out.violation(format!("{nm}: an honest FRI proof is not accepted ({})", squeeze(&e)), info()),
                            Err(pr) => {
                                out.violation(format!("{nm}: honest FRI proving/verification panics ({})", pr.class()), info());
                                prover.reset();
                            },
                        }
                    }
                }
            }
            // ---- the same instance goes on to prove polynomials of OTHER sizes (the options fix the schedule rule, not the
            // domain: remainder and layer sizes differ from proof to proof): half, double, a quarter, and back
            let mut walk: Vec<usize> = vec![cfg.n / 2, cfg.n * 2, cfg.n / 4, cfg.n * 4, cfg.n];
            walk.retain(|m| *m >= 8 && *m <= 2048);
            for m in walk {
                let c2 = Cfg { n: m, ..cfg };
                if !(c2.well_formed() && c2.n > c2.blowup) {
                    continue;
                }
                let d2 = c2.max_poly_degree();
                let w2 = glue::root_of_unity::<E::BaseField>(m.ilog2());
                let poly: Vec<El> = (0..=d2).map(|_| rand_el(&mut rng, &ctx)).collect();
                let evals_ref: Vec<El> = (0..m).map(|i| ctx.poly_eval(&poly, &[mulm(off, powm(w2, i as u128, p), p), 0, 0])).collect();
                let evals: Vec<E> = from_refs(&evals_ref);
                let pos = vec![m - 2, 0, m / 2, 1, m / 2 + 1, m - 1];
                out.evals(1);
                let info = || json!({"field/hasher": nm, "first_config": format!("{:?}", cfg), "then_config": format!("{:?}", c2), "what": "one prover instance reused for a polynomial of another size"});
                match pan::catch(|| run_proof::<E, H>(&mut prover, &c2, &evals, &pos, true)) {
                    Ok(Ok(())) => {
                        out.nontrivial();
                        out.class("prover instance reused for another domain size");
                    },
                    Ok(Err(e)) => out.violation(format!("{nm}: a reused prover instance produces a proof that is not accepted ({})", squeeze(&e)), info()),
                    Err(pr) => {
                        out.violation(format!("{nm}: a reused prover instance panics on a polynomial of another size ({})", pr.class()), info());
                        prover.reset();
                    },
                }
            }
        },
        move |idx| json!({"config": format!("{:?}", cc2[idx as usize]), "inner": "5 polynomials x 4 query lists x {direct, after serialization}, one prover instance reused"}),
    ));
    subs
}

/// Layers whose serialized query values exceed every small length prefix: folding factor 16 over wide extension
/// elements with 127..255 distinct queried rows (up to 255 x 16 x 32 bytes = 130 560 bytes of values in one layer).
pub fn large_layer_subs<E: Elt, H: ElementHasher<BaseField = E::BaseField> + 'static>(run: &Arc<Run>, hname: &'static str) -> Vec<Arc<dyn Sub>>
where
    E::BaseField: Fld,
    H::Digest: 'static,
{
    let seed = run.seed();
    let name = format!("{}/{}", E::tname(), hname);
    let counts: Vec<usize> = vec![127, 128, 129, 171, 200, 255];
    let c2 = counts.clone();
    vec![sub_t(
        &format!("{name}.large_layers"),
        counts.len() as u64,
        300,
        true,
        move |idx, out| {
            let q = counts[idx as usize];
            let cfg = Cfg { n: 4096, blowup: 8, k: 16, rem_deg: 15 };
            let ctx = E::ctx();
            let mut rng = kit::rng::Rng::labelled(seed, &format!("c15-large-{q}"));
            let d = cfg.max_poly_degree();
            let poly: Vec<El> = (0..=d).map(|_| rand_el(&mut rng, &ctx)).collect();
            // evaluations over the coset through the library's own transform (C09 decides its correctness)
            let coeffs: Vec<E> = from_refs(&poly);
            let tw = math::fft::get_twiddles::<E::BaseField>(coeffs.len());
            let evals: Vec<E> = math::fft::evaluate_poly_with_offset(&coeffs, &tw, <E::BaseField as math::StarkField>::GENERATOR, cfg.blowup);
            // q positions that stay distinct after folding (the folded domain has 256 rows)
            let pos: Vec<usize> = (0..q).map(|i| (i * 7) % 256 + 256 * (i % 16)).collect();
            let mut prover = FriProver::<E::BaseField, E, _, H>::new(FriOptions::new(cfg.blowup, cfg.k, cfg.rem_deg));
            for through_bytes in [false, true] {
                out.evals(1);
                let info = || json!({"field/hasher": name, "config": format!("{:?}", cfg), "queried_rows": q, "after_serialization": through_bytes});
                match pan::catch(|| run_proof::<E, H>(&mut prover, &cfg, &evals, &pos, through_bytes)) {
                    Ok(Ok(())) => out.nontrivial(),
                    Ok(Err(e)) => out.violation(format!("{name}: an honest FRI proof with large layers is not accepted ({})", squeeze(&e)), info()),
                    Err(pr) => {
                        out.violation(format!("{name}: honest FRI proving/verification panics on large layers ({})", pr.class()), info());
                        prover.reset();
                    },
                }
            }
        },
        move |idx| json!({"queried_rows": c2[idx as usize], "config": "domain 4096, blowup 8, folding 16, remainder degree 15"}),
    )]
}

fn squeeze(s: &str) -> String {
    let mut o = String::new();
    for c in s.chars() {
        if c.is_ascii_digit() {
            if !o.ends_with('#') {
                o.push('#');
            }
        } else {
            o.push(c);
        }
    }
    o
}

/// position folding and index mapping for all position multisets of size <= 3 on domains <= 64
pub fn position_subs() -> Vec<Arc<dyn Sub>> {
    let mut cases: Vec<(usize, usize)> = vec![];
    for n in [8usize, 16, 32, 64] {
        for k in [2usize, 4, 8, 16] {
            if n / k >= 1 {
                cases.push((n, k));
            }
        }
    }
    let cases = Arc::new(cases);
    let c2 = cases.clone();
    vec![sub_t(
        "positions",
        cases.len() as u64,
        120,
        true,
        move |idx, out| {
            let (n, k) = cases[idx as usize];
            let t = n / k;
            let mut cnt = 0u64;
            let mut check = |pos: &[usize], out: &mut kit::CaseOut| {
                cnt += 1;
                let got = fold_positions(pos, n, k);
                let want = fold_positions_ref(pos, n, k);
                let set_g: std::collections::BTreeSet<usize> = got.iter().cloned().collect();
                let set_w: std::collections::BTreeSet<usize> = pos.iter().map(|p| p % t).collect();
                if got != want || set_g != set_w || got.len() != set_g.len() {
                    out.violation("fold_positions differs from p mod (n/k) with duplicates removed", json!({"domain": n, "folding": k, "positions": pos}));
                }
                // with one partition the tree index is the position itself; with more partitions the map is a bijection
                if map_positions_to_indexes(&got, n, k, 1) != got {
                    out.violation("map_positions_to_indexes is not the identity for a single partition", json!({"domain": n, "folding": k}));
                }
                for parts in [2usize, 4] {
                    if t % parts == 0 && t / parts >= 1 {
                        let m = map_positions_to_indexes(&got, n, k, parts);
                        let uniq: std::collections::BTreeSet<usize> = m.iter().cloned().collect();
                        if m.len() != got.len() || uniq.len() != m.len() || m.iter().any(|i| *i >= t) {
                            out.violation("map_positions_to_indexes is not injective into the folded domain", json!({"domain": n, "folding": k, "partitions": parts, "positions": got}));
                        }
                        for (pz, ix) in got.iter().zip(m.iter()) {
                            if *ix != (pz % parts) * (t / parts) + pz / parts {
                                out.violation("map_positions_to_indexes differs from partition * partition_size + local index", json!({"domain": n, "folding": k, "partitions": parts}));
                            }
                        }
                    }
                }
            };
            for a in 0..n {
                check(&[a], out);
                for b in 0..n {
                    check(&[a, b], out);
                    if n <= 32 {
                        for c in 0..n {
                            check(&[a, b, c], out);
                        }
                    }
                }
            }
            out.evals(cnt);
            out.nontrivial_n(cnt);
        },
        move |idx| json!({"domain": c2[idx as usize].0, "folding": c2[idx as usize].1, "positions": "all ordered lists of length 1, 2 (and 3 for domains <= 32), repeats included"}),
    )]
}

#[allow(dead_code)]
fn unused<E: FieldElement>() {}
