//! C11 (hash functions implement their specification) and C19 (public coin contract).
mod c19;
mod refhash;

use std::sync::Arc;

use crypto::{hashers, Digest, ElementHasher, Hasher};
use kit::engine::{sub, sub_t};
use kit::refmath::{self as rm, P62, P64};
use kit::{json, pan, Args, CaseOut, Run, Sub, Value};
use math::fields::{f128, f62, f64 as g64, CubeExtension, QuadExtension};
use math::{FieldElement, StarkField};
use refhash::{RescueSpec, RP62, RP64, RPJ};
use utils::Serializable;

type B64 = g64::BaseElement;
type B62 = f62::BaseElement;
type B128 = f128::BaseElement;

/// Everything the harness needs to know about one hasher, with its reference definition.
pub trait HSpec: ElementHasher + Sized + 'static
where
    Self::Digest: 'static,
{
    const NAME: &'static str;
    const P: u128;
    const RATE: usize;
    fn ref_hash(bytes: &[u8]) -> Vec<u8>;
    /// hash of a list of base-field residues
    fn ref_hash_elements(res: &[u128]) -> Vec<u8>;
    fn ref_merge(a: &Self::Digest, b: &Self::Digest) -> Vec<u8>;
    fn ref_merge_with_int(seed: &Self::Digest, v: u64) -> Vec<u8>;
    fn base(r: u128) -> Self::BaseField;
    /// an element with the same residue but a different legal internal representation, if any
    fn alt_image(_r: u128) -> Option<Self::BaseField> {
        None
    }
}

fn le_bytes(res: &[u128], width: usize) -> Vec<u8> {
    let mut v = vec![];
    for r in res {
        v.extend_from_slice(&r.to_le_bytes()[..width]);
    }
    v
}

fn b3(data: &[u8], n: usize) -> Vec<u8> {
    blake3::hash(data).as_bytes()[..n].to_vec()
}
fn s3(data: &[u8]) -> Vec<u8> {
    use sha3::Digest as _;
    sha3::Sha3_256::digest(data).to_vec()
}

macro_rules! byte_hasher {
    ($ty:ty, $name:expr, $field:ty, $p:expr, $w:expr, $f:expr, $mk:expr, $alt:expr) => {
        impl HSpec for $ty {
            const NAME: &'static str = $name;
            const P: u128 = $p;
            const RATE: usize = 8;
            fn ref_hash(bytes: &[u8]) -> Vec<u8> {
                $f(bytes)
            }
            fn ref_hash_elements(res: &[u128]) -> Vec<u8> {
                $f(&le_bytes(res, $w))
            }
            fn ref_merge(a: &Self::Digest, b: &Self::Digest) -> Vec<u8> {
                let mut d = a.to_bytes();
                d.extend(b.to_bytes());
                $f(&d)
            }
            fn ref_merge_with_int(seed: &Self::Digest, v: u64) -> Vec<u8> {
                let mut d = seed.to_bytes();
                d.extend(v.to_le_bytes());
                $f(&d)
            }
            fn base(r: u128) -> $field {
                $mk(r)
            }
            fn alt_image(r: u128) -> Option<$field> {
                $alt(r)
            }
        }
    };
}

/// the documented internal range of the 62-bit field is [0, 2M): the image of r plus M denotes the same residue
fn alt62(r: u128) -> Option<B62> {
    let img = rm::mulm(r, (1u128 << 64) % P62, P62) + P62;
    let raw = [img as u64];
    let bytes = unsafe { std::slice::from_raw_parts(raw.as_ptr() as *const u8, 8) };
    Some(unsafe { B62::bytes_as_elements(bytes) }.unwrap()[0])
}

byte_hasher!(hashers::Blake3_256<B64>, "blake3_256/f64", B64, P64, 8, |d: &[u8]| b3(d, 32), |r: u128| B64::new(r as u64), |_r: u128| -> Option<B64> { None });
byte_hasher!(hashers::Blake3_192<B62>, "blake3_192/f62", B62, P62, 8, |d: &[u8]| b3(d, 24), |r: u128| B62::new(r as u64), alt62);
byte_hasher!(hashers::Sha3_256<B128>, "sha3_256/f128", B128, rm::P128, 16, |d: &[u8]| s3(d), |r: u128| B128::new(r), |_r: u128| -> Option<B128> { None });
byte_hasher!(hashers::Blake3_256<B128>, "blake3_256/f128", B128, rm::P128, 16, |d: &[u8]| b3(d, 32), |r: u128| B128::new(r), |_r: u128| -> Option<B128> { None });
byte_hasher!(hashers::Sha3_256<B64>, "sha3_256/f64", B64, P64, 8, |d: &[u8]| s3(d), |r: u128| B64::new(r as u64), |_r: u128| -> Option<B64> { None });
byte_hasher!(hashers::Sha3_256<B62>, "sha3_256/f62", B62, P62, 8, |d: &[u8]| s3(d), |r: u128| B62::new(r as u64), alt62);
byte_hasher!(hashers::Blake3_256<B62>, "blake3_256/f62", B62, P62, 8, |d: &[u8]| b3(d, 32), |r: u128| B62::new(r as u64), alt62);

fn digest_res<D: Digest>(d: &D, spec: &RescueSpec) -> Vec<u128> {
    // digest elements as residues, recovered from the canonical 32-byte form
    let b = d.as_bytes();
    if spec.p == P64 {
        (0..4).map(|i| u64::from_le_bytes(b[8 * i..8 * i + 8].try_into().unwrap()) as u128).collect()
    } else {
        // 4 x 62 bits packed little-endian
        let lo = u128::from_le_bytes(b[..16].try_into().unwrap());
        let hi = u128::from_le_bytes(b[16..].try_into().unwrap());
        let m = (1u128 << 62) - 1;
        vec![lo & m, (lo >> 62) & m, ((lo >> 124) | (hi << 4)) & m, (hi >> 58) & m]
    }
}

fn pack(res: &[u128], spec: &RescueSpec) -> Vec<u8> {
    // serialized digest bytes from 4 residues
    if spec.p == P64 {
        le_bytes(res, 8)
    } else {
        let v = res[0] | (res[1] << 62) | (res[2] << 124);
        let w = (res[2] >> 4) | (res[3] << 58);
        let mut out = v.to_le_bytes().to_vec();
        out.extend(w.to_le_bytes());
        out.truncate(31);
        out
    }
}

impl HSpec for hashers::Rp64_256 {
    const NAME: &'static str = "rp64_256";
    const P: u128 = P64;
    const RATE: usize = 8;
    fn ref_hash(bytes: &[u8]) -> Vec<u8> {
        pack(&RP64.hash_bytes(bytes), &RP64)
    }
    fn ref_hash_elements(res: &[u128]) -> Vec<u8> {
        pack(&RP64.hash_elements(res), &RP64)
    }
    fn ref_merge(a: &Self::Digest, b: &Self::Digest) -> Vec<u8> {
        let mut v = digest_res(a, &RP64);
        v.extend(digest_res(b, &RP64));
        pack(&RP64.hash_elements(&v), &RP64)
    }
    fn ref_merge_with_int(seed: &Self::Digest, v: u64) -> Vec<u8> {
        pack(&RP64.merge_with_int(&digest_res(seed, &RP64), v), &RP64)
    }
    fn base(r: u128) -> B64 {
        B64::new(r as u64)
    }
}

impl HSpec for hashers::Rp62_248 {
    const NAME: &'static str = "rp62_248";
    const P: u128 = P62;
    const RATE: usize = 8;
    fn ref_hash(bytes: &[u8]) -> Vec<u8> {
        pack(&RP62.hash_bytes(bytes), &RP62)
    }
    fn ref_hash_elements(res: &[u128]) -> Vec<u8> {
        pack(&RP62.hash_elements(res), &RP62)
    }
    fn ref_merge(a: &Self::Digest, b: &Self::Digest) -> Vec<u8> {
        let mut v = digest_res(a, &RP62);
        v.extend(digest_res(b, &RP62));
        pack(&RP62.hash_elements(&v), &RP62)
    }
    fn ref_merge_with_int(seed: &Self::Digest, v: u64) -> Vec<u8> {
        pack(&RP62.merge_with_int(&digest_res(seed, &RP62), v), &RP62)
    }
    fn base(r: u128) -> B62 {
        B62::new(r as u64)
    }
    fn alt_image(r: u128) -> Option<B62> {
        // the documented internal range is [0, 2M): the image of r plus M denotes the same residue
        let img = rm::mulm(r, (1u128 << 64) % P62, P62) + P62;
        let raw = [img as u64];
        let bytes = unsafe { std::slice::from_raw_parts(raw.as_ptr() as *const u8, 8) };
        Some(unsafe { B62::bytes_as_elements(bytes) }.unwrap()[0])
    }
}

impl HSpec for hashers::RpJive64_256 {
    const NAME: &'static str = "rpjive64_256";
    const P: u128 = P64;
    const RATE: usize = 4;
    fn ref_hash(bytes: &[u8]) -> Vec<u8> {
        pack(&RPJ.hash_bytes(bytes), &RPJ)
    }
    fn ref_hash_elements(res: &[u128]) -> Vec<u8> {
        pack(&RPJ.hash_elements(res), &RPJ)
    }
    fn ref_merge(a: &Self::Digest, b: &Self::Digest) -> Vec<u8> {
        let mut v = digest_res(a, &RPJ);
        v.extend(digest_res(b, &RPJ));
        pack(&RPJ.jive(&v), &RPJ)
    }
    fn ref_merge_with_int(seed: &Self::Digest, v: u64) -> Vec<u8> {
        pack(&RPJ.jive_with_int(&digest_res(seed, &RPJ), v), &RPJ)
    }
    fn base(r: u128) -> B64 {
        B64::new(r as u64)
    }
}

// ================================================================================================
// C11 sub-spaces, generic over the hasher
// ================================================================================================

fn content(kind: u64, len: usize) -> Vec<u8> {
    match kind {
        0 => vec![0u8; len],
        1 => vec![0xFFu8; len],
        _ => (0..len).map(|i| (i * 3 + 1) as u8).collect(),
    }
}

fn elem_alphabet(p: u128) -> Vec<u128> {
    vec![0, 1, p - 1, (1u128 << 32) - 1, 1u128 << 32, (p - 1) / 2, 2, 0x0123_4567_89AB_CDEF % p]
}

fn c11_subs<H: HSpec>(run: &Arc<Run>) -> Vec<Arc<dyn Sub>>
where
    H::Digest: 'static,
{
    let tier = run.tier();
    let max_len = tier.pick(200u64, 330u64);
    let mut subs: Vec<Arc<dyn Sub>> = vec![];

    // ---- byte strings of every length x three contents, against the reference
    subs.push(sub_t(
        &format!("{}.hash_bytes", H::NAME),
        (max_len + 1) * 3,
        30,
        true,
        move |idx, out| {
            let (len, kind) = ((idx / 3) as usize, idx % 3);
            let data = content(kind, len);
            let d = || json!({"hasher": H::NAME, "len": len, "content": (["zeros", "0xff", "counter"][kind as usize])});
            match pan::catch(|| H::hash(&data)) {
                Err(p) => out.violation(format!("{}.hash: panics on a byte string ({})", H::NAME, p.class()), d()),
                Ok(got) => {
                    out.nontrivial();
                    if got.to_bytes() != H::ref_hash(&data) {
                        out.violation(format!("{}.hash: differs from the reference definition", H::NAME), d());
                    }
                    // a trailing zero byte changes the digest
                    let mut longer = data.clone();
                    longer.push(0);
                    if let Ok(g2) = pan::catch(|| H::hash(&longer)) {
                        if g2 == got {
                            out.violation(format!("{}.hash: appending a zero byte does not change the digest", H::NAME), d());
                        }
                    }
                },
            }
        },
        |idx| json!({"len": idx / 3, "content": idx % 3}),
    ));
    // ---- all pairs of all-zero strings of different length hash differently
    subs.push(sub_t(
        &format!("{}.length_separation", H::NAME),
        1,
        60,
        true,
        move |_idx, out| {
            let mut seen: std::collections::HashMap<Vec<u8>, usize> = std::collections::HashMap::new();
            for len in 0..=max_len as usize {
                if let Ok(dg) = pan::catch(|| H::hash(&vec![0u8; len])) {
                    if let Some(prev) = seen.insert(dg.to_bytes(), len) {
                        out.violation(format!("{}.hash: two all-zero strings of different length collide", H::NAME), json!({"len1": prev, "len2": len}));
                    }
                }
            }
            out.evals(max_len * (max_len + 1) / 2);
            out.nontrivial_n(max_len * (max_len + 1) / 2);
        },
        move |_| json!({"all pairs of zero strings up to length": max_len}),
    ));
    // ---- element lists of every length around the rate boundaries
    let max_elems = (3 * H::RATE + 1) as u64;
    let alpha = Arc::new(elem_alphabet(H::P));
    let na = alpha.len() as u64;
    let a2 = alpha.clone();
    subs.push(sub_t(
        &format!("{}.hash_elements", H::NAME),
        (max_elems + 1) * na,
        30,
        true,
        move |idx, out| {
            let (len, ai) = ((idx / na) as usize, (idx % na) as usize);
            // list: position i holds alphabet[(ai + i*i) % na]; boundary member `ai` in front
            let res: Vec<u128> = (0..len).map(|i| alpha[(ai + i * i) % alpha.len()]).collect();
            let els: Vec<H::BaseField> = res.iter().map(|r| H::base(*r)).collect();
            let d = || json!({"hasher": H::NAME, "len": len, "first": format!("{:#x}", res.first().cloned().unwrap_or(0))});
            let got = match pan::catch(|| H::hash_elements(&els)) {
                Ok(g) => g,
                Err(p) => return out.violation(format!("{}.hash_elements: panics ({})", H::NAME, p.class()), d()),
            };
            out.nontrivial();
            if got.to_bytes() != H::ref_hash_elements(&res) {
                out.violation(format!("{}.hash_elements: differs from the reference definition", H::NAME), d());
            }
            // a different legal internal representation of the same residues gives the same digest
            if let Some(_) = H::alt_image(0) {
                let alt: Vec<H::BaseField> = res.iter().map(|r| H::alt_image(*r).unwrap()).collect();
                if H::hash_elements(&alt) != got {
                    out.violation(format!("{}.hash_elements: depends on the internal representation of the elements", H::NAME), d());
                }
            }
            // trailing zero element changes the digest
            let mut longer = els.clone();
            longer.push(H::base(0));
            if H::hash_elements(&longer) == got {
                out.violation(format!("{}.hash_elements: appending a zero element does not change the digest", H::NAME), d());
            }
        },
        move |idx| json!({"len": idx / na, "leading boundary member": format!("{:#x}", a2[(idx % na) as usize])}),
    ));
    // ---- merge and merge_with_int
    let ints: Vec<u64> = {
        let p = H::P.min(u64::MAX as u128) as u64;
        let mut v = vec![0u64, 1, 2, (1 << 32) - 1, 1 << 32, (1 << 32) + 1, p.wrapping_sub(1), p, p.wrapping_add(1), u64::MAX, u64::MAX - 1, 1 << 63, 1 << 62];
        if H::P < (1u128 << 63) {
            let q = H::P as u64;
            v.extend([2 * q - 1, 2 * q, 2 * q + 1, 3 * q, 3 * q + 1, 4 * q - 1]);
        }
        v.sort();
        v.dedup();
        v
    };
    let ni = ints.len() as u64;
    let i2 = ints.clone();
    subs.push(sub_t(
        &format!("{}.merge", H::NAME),
        6,
        30,
        true,
        move |idx, out| {
            let seeds: Vec<H::Digest> = (0..4usize).map(|i| H::hash(&content(2, 10 * i + idx as usize))).collect();
            let dflt = H::Digest::default();
            let d = || json!({"hasher": H::NAME, "case": idx});
            // merge == reference, for every ordered pair incl. the default digest
            let all: Vec<H::Digest> = seeds.iter().cloned().chain([dflt]).collect();
            for a in all.iter() {
                for b in all.iter() {
                    out.evals(1);
                    match pan::catch(|| H::merge(&[*a, *b])) {
                        Ok(m) => {
                            if m.to_bytes() != H::ref_merge(a, b) {
                                out.violation(format!("{}.merge: differs from the documented definition", H::NAME), d());
                            }
                        },
                        Err(p) => out.violation(format!("{}.merge: panics ({})", H::NAME, p.class()), d()),
                    }
                }
            }
            // merge_with_int: reference layout and injectivity over the integer classes
            for s in all.iter() {
                let mut seen = std::collections::HashMap::new();
                for v in ints.iter() {
                    out.evals(1);
                    match pan::catch(|| H::merge_with_int(*s, *v)) {
                        Ok(m) => {
                            if m.to_bytes() != H::ref_merge_with_int(s, *v) {
                                out.violation(format!("{}.merge_with_int: differs from the documented definition", H::NAME), json!({"value": format!("{:#x}", v)}));
                            }
                            if let Some(prev) = seen.insert(m.to_bytes(), *v) {
                                out.violation(format!("{}.merge_with_int: two different integers give the same digest", H::NAME), json!({"v1": format!("{:#x}", prev), "v2": format!("{:#x}", v)}));
                            }
                        },
                        Err(p) => out.violation(format!("{}.merge_with_int: panics ({})", H::NAME, p.class()), json!({"value": format!("{:#x}", v)})),
                    }
                }
            }
            out.nontrivial_n(25 + 5 * ni);
        },
        move |idx| json!({"seed set": idx, "integers": i2.iter().map(|v| format!("{:#x}", v)).collect::<Vec<_>>()}),
    ));
    subs
}

/// base versus extension typing of the same residues (64- and 62-bit fields, all their hashers)
fn typing_subs() -> Vec<Arc<dyn Sub>> {
    fn one<H: HSpec>(name: &'static str, quad: fn(&[H::BaseField]) -> H::Digest, cube: fn(&[H::BaseField]) -> Option<H::Digest>) -> Arc<dyn Sub>
    where
        H::Digest: 'static,
    {
        sub(
            &format!("{name}.typing"),
            37,
            move |idx, out| {
                let n6 = idx as usize * 6; // multiples of 6 so that both typings exist
                let alpha = elem_alphabet(H::P);
                let res: Vec<u128> = (0..n6).map(|i| alpha[(i * 5 + idx as usize) % alpha.len()]).collect();
                let els: Vec<H::BaseField> = res.iter().map(|r| H::base(*r)).collect();
                let base = H::hash_elements(&els);
                out.nontrivial();
                if quad(&els) != base {
                    out.violation(format!("{name}.hash_elements: quadratic-extension typing of the same residues hashes differently"), json!({"base_elements": n6}));
                }
                if let Some(c) = cube(&els) {
                    if c != base {
                        out.violation(format!("{name}.hash_elements: cubic-extension typing of the same residues hashes differently"), json!({"base_elements": n6}));
                    }
                }
            },
            |idx| json!({"base elements": idx * 6}),
        )
    }
    fn q<H: ElementHasher>(e: &[H::BaseField]) -> H::Digest
    where
        H::BaseField: math::ExtensibleField<2>,
    {
        let v: Vec<QuadExtension<H::BaseField>> = e.chunks(2).map(|c| QuadExtension::new(c[0], c[1])).collect();
        H::hash_elements(&v)
    }
    fn c<H: ElementHasher>(e: &[H::BaseField]) -> Option<H::Digest>
    where
        H::BaseField: math::ExtensibleField<3>,
    {
        let v: Vec<CubeExtension<H::BaseField>> = e.chunks(3).map(|c| CubeExtension::new(c[0], c[1], c[2])).collect();
        Some(H::hash_elements(&v))
    }
    fn none<H: ElementHasher>(_e: &[H::BaseField]) -> Option<H::Digest> {
        None
    }
    vec![
        one::<hashers::Blake3_256<B64>>("blake3_256/f64", q::<hashers::Blake3_256<B64>>, c::<hashers::Blake3_256<B64>>),
        one::<hashers::Blake3_192<B62>>("blake3_192/f62", q::<hashers::Blake3_192<B62>>, c::<hashers::Blake3_192<B62>>),
        one::<hashers::Sha3_256<B128>>("sha3_256/f128", q::<hashers::Sha3_256<B128>>, none::<hashers::Sha3_256<B128>>),
        one::<hashers::Blake3_256<B128>>("blake3_256/f128", q::<hashers::Blake3_256<B128>>, none::<hashers::Blake3_256<B128>>),
        one::<hashers::Sha3_256<B64>>("sha3_256/f64", q::<hashers::Sha3_256<B64>>, c::<hashers::Sha3_256<B64>>),
        one::<hashers::Rp64_256>("rp64_256", q::<hashers::Rp64_256>, c::<hashers::Rp64_256>),
        one::<hashers::Rp62_248>("rp62_248", q::<hashers::Rp62_248>, c::<hashers::Rp62_248>),
        one::<hashers::RpJive64_256>("rpjive64_256", q::<hashers::RpJive64_256>, c::<hashers::RpJive64_256>),
    ]
}

// ================================================================================================
// permutations and the frequency-domain MDS fast path
// ================================================================================================

const LIMBS64: [u128; 4] = [0, (1 << 32) - 1, 1 << 32, P64 - 1];
const LIMBS62: [u128; 4] = [0, (1 << 32) - 1, 1 << 32, P62 - 1];

fn state_from_index(idx: u64, width: usize, limbs: &[u128], nlimbs: u64) -> Vec<u128> {
    let mut v = Vec::with_capacity(width);
    let mut i = idx;
    for _ in 0..width {
        v.push(limbs[(i % nlimbs) as usize]);
        i /= nlimbs;
    }
    v
}

fn perm_subs(run: &Arc<Run>) -> Vec<Arc<dyn Sub>> {
    let thorough = run.tier().is_thorough();
    let mut subs: Vec<Arc<dyn Sub>> = vec![];
    // constants: defining properties and pinned fingerprints
    subs.push(sub(
        "rescue.constants",
        3,
        |idx, out| {
            let spec = [&*RP64, &*RPJ, &*RP62][idx as usize];
            out.nontrivial();
            for why in spec.check_constants() {
                out.violation(format!("{}: published constants: {}", spec.name, why), json!({}));
            }
        },
        |idx| json!({"hasher": (["rp64_256", "rpjive64_256", "rp62_248"][idx as usize]), "checks": "MDS circulant with the published first row, MDS*INV_MDS = I, alpha*inv_alpha = 1 mod p-1, pinned fingerprint of MDS/ARK1/ARK2"}),
    ));
    // ---- MDS fast path (through the verif hook): every boundary state
    let n12: u64 = if thorough { 4u64.pow(12) } else { 3u64.pow(12) / 9 * 9 };
    let nl12: u64 = if thorough { 4 } else { 3 };
    let limbs12: Vec<u128> = if thorough { LIMBS64.to_vec() } else { vec![0, (1 << 32) - 1, P64 - 1] };
    let chunk = 4096u64;
    {
        let limbs = limbs12.clone();
        subs.push(sub_t(
            "mds12x12.fast_path",
            (n12 + chunk - 1) / chunk,
            60,
            true,
            move |cidx, out| {
                let mds = RP64.mds.clone();
                for idx in cidx * chunk..((cidx + 1) * chunk).min(n12) {
                    let st = state_from_index(idx, 12, &limbs, nl12);
                    let mut real: [B64; 12] = core::array::from_fn(|i| B64::new(st[i] as u64));
                    crypto::verif_hooks::mds_multiply_12x12(&mut real);
                    let want = refhash::matvec(&mds, &st, P64);
                    for i in 0..12 {
                        if real[i].as_int() as u128 != want[i] || real[i] != B64::new(want[i] as u64) {
                            out.violation("mds 12x12: frequency-domain product differs from the plain matrix product (value or canonical form)", json!({"state": st.iter().map(|x| format!("{:#x}", x)).collect::<Vec<_>>(), "row": i, "got_image": format!("{:#x}", real[i].inner())}));
                            break;
                        }
                    }
                }
                let n = ((cidx + 1) * chunk).min(n12) - cidx * chunk;
                out.evals(n - 1);
                out.nontrivial_n(n);
            },
            move |cidx| json!({"states": format!("{}..{} of {{boundary limbs}}^12", cidx * chunk, (cidx + 1) * chunk)}),
        ));
    }
    {
        let n8 = 4u64.pow(8);
        subs.push(sub_t(
            "mds8x8.fast_path",
            n8 / 256,
            60,
            true,
            move |cidx, out| {
                let mds = RPJ.mds.clone();
                for idx in cidx * 256..(cidx + 1) * 256 {
                    let st = state_from_index(idx, 8, &LIMBS64, 4);
                    let mut real: [B64; 8] = core::array::from_fn(|i| B64::new(st[i] as u64));
                    crypto::verif_hooks::mds_multiply_8x8(&mut real);
                    let want = refhash::matvec(&mds, &st, P64);
                    for i in 0..8 {
                        if real[i].as_int() as u128 != want[i] || real[i] != B64::new(want[i] as u64) {
                            out.violation("mds 8x8: frequency-domain product differs from the plain matrix product (value or canonical form)", json!({"state": st.iter().map(|x| format!("{:#x}", x)).collect::<Vec<_>>(), "row": i, "got_image": format!("{:#x}", real[i].inner())}));
                            break;
                        }
                    }
                }
                out.evals(255);
                out.nontrivial_n(256);
            },
            |cidx| json!({"states": format!("{}..{} of {{0,2^32-1,2^32,p-1}}^8 (exhaustive)", cidx * 256, (cidx + 1) * 256)}),
        ));
    }
    // ---- the same products on states given by their INTERNAL words (the fast path works on the Montgomery
    // words, so its carry cases are boundary words, not boundary residues): every state over boundary words
    {
        let words: Vec<u64> = if thorough { vec![0, (1 << 32) - 1, 1 << 32, (P64 - 1) as u64, u64::MAX] } else { vec![0, 1 << 32, (P64 - 1) as u64, u64::MAX] };
        let nw = words.len() as u64;
        for (width, name) in [(12usize, "mds12x12.fast_path.internal_words"), (8, "mds8x8.fast_path.internal_words")] {
            let total = nw.pow(width as u32);
            let chunk = 16384u64;
            let words = words.clone();
            let w2 = words.clone();
            subs.push(sub_t(
                name,
                (total + chunk - 1) / chunk,
                120,
                true,
                move |cidx, out| {
                    let mds = if width == 12 { RP64.mds.clone() } else { RPJ.mds.clone() };
                    let hi = ((cidx + 1) * chunk).min(total);
                    for idx in cidx * chunk..hi {
                        let mut i = idx;
                        let mut st_words = vec![0u64; width];
                        for w in st_words.iter_mut() {
                            *w = words[(i % nw) as usize];
                            i /= nw;
                        }
                        let els: Vec<B64> = st_words.iter().map(|w| B64::from_mont(*w)).collect();
                        let st: Vec<u128> = els.iter().map(|e| e.as_int() as u128).collect();
                        let want = refhash::matvec(&mds, &st, P64);
                        let got: Vec<B64> = if width == 12 {
                            let mut real: [B64; 12] = core::array::from_fn(|i| els[i]);
                            crypto::verif_hooks::mds_multiply_12x12(&mut real);
                            real.to_vec()
                        } else {
                            let mut real: [B64; 8] = core::array::from_fn(|i| els[i]);
                            crypto::verif_hooks::mds_multiply_8x8(&mut real);
                            real.to_vec()
                        };
                        for i in 0..width {
                            if got[i].as_int() as u128 != want[i] || got[i] != B64::new(want[i] as u64) {
                                out.violation(format!("mds {width}x{width}: frequency-domain product differs from the plain matrix product on a state of boundary internal words"), json!({"internal_words": st_words.iter().map(|x| format!("{:#x}", x)).collect::<Vec<_>>(), "row": i, "got_image": format!("{:#x}", got[i].inner())}));
                                break;
                            }
                        }
                    }
                    out.evals(hi - cidx * chunk - 1);
                    out.nontrivial_n(hi - cidx * chunk);
                },
                move |cidx| json!({"states": format!("{}..{} of {:x?}^{}", cidx * chunk, (cidx + 1) * chunk, w2, width)}),
            ));
        }
    }
    // ---- states with ONE non-zero canonical word chosen so that a single matrix coefficient times the word lands
    // just above the modulus or just below 2^64 (where the final reduction of the fast path must still produce a
    // canonical word): w in {ceil(p/c) + d, floor((2^64 - 1)/c) + d : c = 1..=64, d = -1, 0, 1}, every position
    {
        let mut words: Vec<u64> = vec![];
        for c in 1..=64u128 {
            for base in [(P64 + c - 1) / c, ((1u128 << 64) - 1) / c] {
                for d in [-1i128, 0, 1] {
                    let w = base as i128 + d;
                    if w > 0 && (w as u128) < P64 {
                        words.push(w as u64);
                    }
                }
            }
        }
        words.sort();
        words.dedup();
        let nw = words.len() as u64;
        for (width, name) in [(12usize, "mds12x12.fast_path.single_word"), (8, "mds8x8.fast_path.single_word")] {
            let words = words.clone();
            subs.push(sub_t(
                name,
                width as u64,
                60,
                true,
                move |pos, out| {
                    let mds = if width == 12 { RP64.mds.clone() } else { RPJ.mds.clone() };
                    for w in words.iter() {
                        let mut els = vec![B64::ZERO; width];
                        els[pos as usize] = B64::from_mont(*w);
                        let st: Vec<u128> = els.iter().map(|e| e.as_int() as u128).collect();
                        let want = refhash::matvec(&mds, &st, P64);
                        let got: Vec<B64> = if width == 12 {
                            let mut real: [B64; 12] = core::array::from_fn(|i| els[i]);
                            crypto::verif_hooks::mds_multiply_12x12(&mut real);
                            real.to_vec()
                        } else {
                            let mut real: [B64; 8] = core::array::from_fn(|i| els[i]);
                            crypto::verif_hooks::mds_multiply_8x8(&mut real);
                            real.to_vec()
                        };
                        for i in 0..width {
                            if got[i].as_int() as u128 != want[i] {
                                out.violation(format!("mds {width}x{width}: frequency-domain product differs from the plain matrix product (single-word state)"), json!({"position": pos, "internal_word": format!("{:#x}", w), "row": i}));
                                break;
                            }
                            if got[i].inner() as u128 >= P64 || got[i] != B64::new(want[i] as u64) {
                                out.violation(format!("mds {width}x{width}: the fast path returns an element that is not in canonical form (its word is >= p, so == with the canonical element of the same value fails)"), json!({"position": pos, "internal_word": format!("{:#x}", w), "row": i, "got_word": format!("{:#x}", got[i].inner())}));
                                break;
                            }
                        }
                    }
                    out.evals(nw - 1);
                    out.nontrivial_n(nw);
                },
                move |pos| json!({"position": pos, "words": "ceil(p/c)+d, floor((2^64-1)/c)+d for c = 1..=64, d = -1,0,1"}),
            ));
        }
    }
    // ---- permutations on CRAFTED inputs: for every MDS product of the permutation (14), every position and every
    // word of the single-word alphabet, the input state is computed backwards (reference arithmetic) so that this
    // product sees a state with that one non-zero word - the states on which its final reduction matters. The
    // whole permutation must equal the reference in value, and its outputs must be in canonical form.
    {
        let cmax: u128 = if thorough { 64 } else { 12 };
        let mut words: Vec<u64> = vec![];
        for c in 1..=cmax {
            for base in [(P64 + c - 1) / c, ((1u128 << 64) - 1) / c] {
                for d in [-1i128, 0, 1] {
                    let w = base as i128 + d;
                    if w > 0 && (w as u128) < P64 {
                        words.push(w as u64);
                    }
                }
            }
        }
        words.sort();
        words.dedup();
        let nw = words.len() as u64;
        for which in 0..2usize {
            let name = ["rp64_256", "rpjive64_256"][which];
            let words = words.clone();
            let width = if which == 0 { 12usize } else { 8 };
            subs.push(sub_t(
                &format!("{name}.permutation.crafted_mds_inputs"),
                14 * width as u64,
                120,
                true,
                move |idx, out| {
                    let spec: &RescueSpec = [&*RP64, &*RPJ][which];
                    let (target, pos) = ((idx / width as u64) as usize, (idx % width as u64) as usize);
                    for w in words.iter() {
                        let mut u = vec![0u128; width];
                        u[pos] = B64::from_mont(*w).as_int() as u128;
                        let Some(input) = spec.preimage_for_mds_input(target, &u) else {
                            out.violation(format!("HARNESS: {name}: no inverse MDS matrix"), json!({}));
                            return;
                        };
                        let want = spec.permutation(&input);
                        let got: Vec<B64> = if which == 0 {
                            let mut s: [B64; 12] = core::array::from_fn(|i| B64::new(input[i] as u64));
                            match pan::catch(|| {
                                hashers::Rp64_256::apply_permutation(&mut s);
                                s
                            }) {
                                Ok(s) => s.to_vec(),
                                Err(p) => {
                                    out.violation(format!("{name}: permutation panics ({})", p.class()), json!({"mds_product": target, "position": pos, "word": format!("{:#x}", w)}));
                                    continue;
                                },
                            }
                        } else {
                            let mut s: [B64; 8] = core::array::from_fn(|i| B64::new(input[i] as u64));
                            match pan::catch(|| {
                                hashers::RpJive64_256::apply_permutation(&mut s);
                                s
                            }) {
                                Ok(s) => s.to_vec(),
                                Err(p) => {
                                    out.violation(format!("{name}: permutation panics ({})", p.class()), json!({"mds_product": target, "position": pos, "word": format!("{:#x}", w)}));
                                    continue;
                                },
                            }
                        };
                        let vals: Vec<u128> = got.iter().map(|x| x.as_int() as u128).collect();
                        if vals != want {
                            out.violation(format!("{name}: permutation differs from the reference round function on a crafted input"), json!({"mds_product": target, "position": pos, "word": format!("{:#x}", w)}));
                        } else if got.iter().zip(want.iter()).any(|(g, v)| g.inner() as u128 >= P64 || *g != B64::new(*v as u64)) {
                            out.violation(format!("{name}: permutation returns an element that is not in canonical form (== with the canonical element of the same value fails)"), json!({"mds_product": target, "position": pos, "word": format!("{:#x}", w)}));
                        }
                    }
                    out.evals(nw - 1);
                    out.nontrivial_n(nw);
                },
                move |idx| json!({"hasher": name, "mds_product": idx / width as u64, "position": idx % width as u64}),
            ));
        }
    }
    // ---- full permutation against the reference round function
    let nperm: u64 = if thorough { 200_000 } else { 12_000 };
    for which in 0..3u64 {
        let name = ["rp64_256", "rpjive64_256", "rp62_248"][which as usize];
        let seed = run.seed();
        subs.push(sub_t(
            &format!("{name}.permutation"),
            nperm / 50,
            60,
            true,
            move |cidx, out| {
                let spec: &RescueSpec = [&*RP64, &*RPJ, &*RP62][which as usize];
                let limbs: &[u128] = if spec.p == P64 { &LIMBS64 } else { &LIMBS62 };
                let mut rng = kit::rng::Rng::labelled(seed, &format!("perm-{name}-{cidx}"));
                for k in 0..50u64 {
                    let idx = cidx * 50 + k;
                    // first half of the space: boundary-limb states by index; second half: seeded random states
                    let st: Vec<u128> = if idx < nperm / 2 {
                        state_from_index(idx.wrapping_mul(2654435761) % 4u64.pow(spec.width as u32), spec.width, limbs, 4)
                    } else {
                        (0..spec.width).map(|_| rng.next_u128() % spec.p).collect()
                    };
                    let want = spec.permutation(&st);
                    let got: Vec<u128> = match which {
                        0 => {
                            let mut s: [B64; 12] = core::array::from_fn(|i| B64::new(st[i] as u64));
                            hashers::Rp64_256::apply_permutation(&mut s);
                            s.iter().map(|x| x.as_int() as u128).collect()
                        },
                        1 => {
                            let mut s: [B64; 8] = core::array::from_fn(|i| B64::new(st[i] as u64));
                            hashers::RpJive64_256::apply_permutation(&mut s);
                            s.iter().map(|x| x.as_int() as u128).collect()
                        },
                        _ => {
                            let mut s: [B62; 12] = core::array::from_fn(|i| B62::new(st[i] as u64));
                            crypto::verif_hooks::rp62_248_permutation(&mut s);
                            s.iter().map(|x| x.as_int() as u128).collect()
                        },
                    };
                    if got != want {
                        out.violation(format!("{name}: permutation differs from the reference round function (S-box, MDS, constants, inverse S-box)"), json!({"state": st.iter().map(|x| format!("{:#x}", x)).collect::<Vec<_>>()}));
                    }
                }
                out.evals(49);
                out.nontrivial_n(50);
            },
            move |cidx| json!({"hasher": name, "states": format!("{}..{}", cidx * 50, cidx * 50 + 50)}),
        ));
    }
    subs
}

fn main() {
    let args = Args::parse();
    match args.prop.clone().as_str() {
        "C11" => {
            let run = Run::new(args, "exploration");
            run.rule("for all six hashers (byte hashers on two or three fields each, all of them over the 62-bit field with its second legal internal images): byte strings of every length 0..=200 (330 thorough) x {zeros, 0xff, counter} against the reference definition, all pairs of zero strings must differ, appended zero byte/element must change the digest; element lists of every length 0..=3*rate+1 x 8 boundary leading members, with base/quadratic/cubic typing and alternative legal internal images; merge vs documented definition for all ordered pairs of 5 digests; merge_with_int vs documented layout and pairwise injectivity over integer classes below/at/above the modulus; Rescue permutations vs a reference round function on boundary-limb and seeded states; frequency-domain MDS products vs plain matrix products on every state of {0,2^32-1,2^32,p-1}^8 and {..}^12 (3 limbs in quick); published constants vs defining equations and a pinned fingerprint; distinct by enumeration index");
            run.assume("reference: blake3 / sha3 crates over canonical little-endian bytes; textbook sponge from the doc comments with the crate's published MDS/ARK constants (checked against defining equations and a pinned fingerprint)");
            let mut subs = vec![];
            subs.extend(c11_subs::<hashers::Blake3_256<B64>>(&run));
            subs.extend(c11_subs::<hashers::Blake3_192<B62>>(&run));
            subs.extend(c11_subs::<hashers::Sha3_256<B128>>(&run));
            subs.extend(c11_subs::<hashers::Blake3_256<B128>>(&run));
            subs.extend(c11_subs::<hashers::Sha3_256<B64>>(&run));
            subs.extend(c11_subs::<hashers::Sha3_256<B62>>(&run));
            subs.extend(c11_subs::<hashers::Blake3_256<B62>>(&run));
            subs.extend(c11_subs::<hashers::Rp64_256>(&run));
            subs.extend(c11_subs::<hashers::Rp62_248>(&run));
            subs.extend(c11_subs::<hashers::RpJive64_256>(&run));
            subs.extend(typing_subs());
            subs.extend(perm_subs(&run));
            run.go(subs)
        },
        "C19" => {
            let run = Run::new(args, "model_checking");
            c19::run(&run);
            run.finish()
        },
        other => kit::engine::die(&format!("hashes binary does not serve {other}")),
    }
}

#[allow(dead_code)]
fn unused(_: &mut CaseOut, _: Value) {}
