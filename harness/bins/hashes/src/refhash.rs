//! Reference Rescue-Prime sponge / Jive compression written from the doc comments, over plain
//! residues with `kit::refmath`. The numeric constants (MDS, ARK1, ARK2) are read from the crate's
//! published tables and bound by (a) their defining equations and (b) a fingerprint pinned here.
use std::sync::LazyLock;

use crypto::hashers;
use kit::refmath::{addm, mulm, powm, P62, P64, subm};
use math::StarkField;

pub struct RescueSpec {
    pub name: &'static str,
    pub p: u128,
    pub width: usize,
    pub rate_start: usize,
    pub rate_width: usize,
    /// state position that receives the element count (sponge modes)
    pub count_pos: usize,
    pub digest_start: usize,
    pub alpha: u128,
    pub inv_alpha: u128,
    pub mds: Vec<Vec<u128>>,
    pub inv_mds: Option<Vec<Vec<u128>>>,
    pub ark1: Vec<Vec<u128>>,
    pub ark2: Vec<Vec<u128>>,
    /// Hirose-style padding with overwrite (the Jive instantiation) instead of count injection
    pub jive: bool,
    pub mds_first_row: Option<Vec<u128>>,
    pub fingerprint: u64,
}

fn tab<B: StarkField, const W: usize, const N: usize>(t: &[[B; W]; N], f: impl Fn(&B) -> u128) -> Vec<Vec<u128>> {
    t.iter().map(|r| r.iter().map(&f).collect()).collect()
}

pub static RP64: LazyLock<RescueSpec> = LazyLock::new(|| {
    let f = |x: &math::fields::f64::BaseElement| x.as_int() as u128;
    RescueSpec {
        name: "rp64_256",
        p: P64,
        width: 12,
        rate_start: 4,
        rate_width: 8,
        count_pos: 0,
        digest_start: 4,
        alpha: 7,
        inv_alpha: 10540996611094048183,
        mds: tab(&hashers::Rp64_256::MDS, f),
        inv_mds: Some(tab(&hashers::Rp64_256::INV_MDS, f)),
        ark1: tab(&hashers::Rp64_256::ARK1, f),
        ark2: tab(&hashers::Rp64_256::ARK2, f),
        jive: false,
        mds_first_row: Some(vec![7, 23, 8, 26, 13, 10, 9, 7, 6, 22, 21, 8]),
        fingerprint: 0x88a9_842f_e40c_fb6c,
    }
});

pub static RPJ: LazyLock<RescueSpec> = LazyLock::new(|| {
    let f = |x: &math::fields::f64::BaseElement| x.as_int() as u128;
    RescueSpec {
        name: "rpjive64_256",
        p: P64,
        width: 8,
        rate_start: 4,
        rate_width: 4,
        count_pos: 0,
        digest_start: 4,
        alpha: 7,
        inv_alpha: 10540996611094048183,
        mds: tab(&hashers::RpJive64_256::MDS, f),
        inv_mds: Some(tab(&hashers::RpJive64_256::INV_MDS, f)),
        ark1: tab(&hashers::RpJive64_256::ARK1, f),
        ark2: tab(&hashers::RpJive64_256::ARK2, f),
        jive: true,
        mds_first_row: Some(vec![23, 8, 13, 10, 7, 6, 21, 8]),
        fingerprint: 0x266b_06a6_297e_feb5,
    }
});

pub static RP62: LazyLock<RescueSpec> = LazyLock::new(|| {
    let f = |x: &math::fields::f62::BaseElement| x.as_int() as u128;
    let (a1, a2) = crypto::verif_hooks::rp62_248_ark();
    RescueSpec {
        name: "rp62_248",
        p: P62,
        width: 12,
        rate_start: 0,
        rate_width: 8,
        count_pos: 11,
        digest_start: 0,
        alpha: 3,
        inv_alpha: 3074416663688030891,
        mds: tab(&crypto::verif_hooks::rp62_248_mds(), f),
        inv_mds: None,
        ark1: tab(&a1, f),
        ark2: tab(&a2, f),
        jive: false,
        mds_first_row: None,
        fingerprint: 0xf213_ee62_e33a_e11e,
    }
});

pub fn matvec(m: &[Vec<u128>], v: &[u128], p: u128) -> Vec<u128> {
    m.iter()
        .map(|row| row.iter().zip(v).fold(0u128, |acc, (a, b)| addm(acc, mulm(*a, *b, p), p)))
        .collect()
}

impl RescueSpec {
    pub fn compute_fingerprint(&self) -> u64 {
        let mut bytes = vec![];
        for t in [&self.mds, &self.ark1, &self.ark2] {
            for r in t.iter() {
                for x in r {
                    bytes.extend_from_slice(&x.to_le_bytes());
                }
            }
        }
        kit::fnv(&bytes)
    }

    pub fn check_constants(&self) -> Vec<String> {
        let mut bad = vec![];
        let p = self.p;
        let w = self.width;
        if mulm(self.alpha, self.inv_alpha, p - 1) != 1 {
            bad.push("alpha * inv_alpha != 1 mod p-1".to_string());
        }
        if let Some(first) = &self.mds_first_row {
            for i in 0..w {
                for j in 0..w {
                    if self.mds[i][j] != first[(j + w - i) % w] {
                        bad.push("MDS is not the circulant matrix of the published first row".to_string());
                    }
                }
            }
        }
        if let Some(inv) = &self.inv_mds {
            for i in 0..w {
                let col: Vec<u128> = (0..w).map(|r| inv[r][i]).collect();
                let prod = matvec(&self.mds, &col, p);
                for (r, x) in prod.iter().enumerate() {
                    if *x != (r == i) as u128 {
                        bad.push("MDS * INV_MDS is not the identity".to_string());
                    }
                }
            }
        }
        if self.ark1.len() != 7 || self.ark2.len() != 7 {
            bad.push("number of rounds is not 7".to_string());
        }
        let fp = self.compute_fingerprint();
        if fp != self.fingerprint {
            bad.push(format!("fingerprint of MDS/ARK1/ARK2 is {:#018x}, pinned {:#018x}", fp, self.fingerprint));
        }
        bad.dedup();
        bad
    }

    /// The input state for which the state entering the MDS product number `target` (0..14: two per round) of
    /// the permutation equals `u` - the permutation run backwards from there (needs the inverse MDS matrix).
    pub fn preimage_for_mds_input(&self, target: usize, u: &[u128]) -> Option<Vec<u128>> {
        let p = self.p;
        let inv = self.inv_mds.as_ref()?;
        let (round, second_half) = (target / 2, target % 2 == 1);
        let mut s = u.to_vec();
        if second_half {
            // u is the state after the inverse S-box of this round: undo inverse S-box, constants, MDS
            s = s.iter().map(|x| powm(*x, self.alpha, p)).collect();
            s = s.iter().zip(&self.ark1[round]).map(|(a, b)| subm(*a, *b, p)).collect();
            s = matvec(inv, &s, p);
        }
        // s is now the state after the S-box of `round`: undo it
        s = s.iter().map(|x| powm(*x, self.inv_alpha, p)).collect();
        for r in (0..round).rev() {
            s = s.iter().zip(&self.ark2[r]).map(|(a, b)| subm(*a, *b, p)).collect();
            s = matvec(inv, &s, p);
            s = s.iter().map(|x| powm(*x, self.alpha, p)).collect();
            s = s.iter().zip(&self.ark1[r]).map(|(a, b)| subm(*a, *b, p)).collect();
            s = matvec(inv, &s, p);
            s = s.iter().map(|x| powm(*x, self.inv_alpha, p)).collect();
        }
        Some(s)
    }

    pub fn permutation(&self, st: &[u128]) -> Vec<u128> {
        let p = self.p;
        let mut s = st.to_vec();
        for r in 0..7 {
            s = s.iter().map(|x| powm(*x, self.alpha, p)).collect();
            s = matvec(&self.mds, &s, p);
            s = s.iter().zip(&self.ark1[r]).map(|(a, b)| addm(*a, *b, p)).collect();
            s = s.iter().map(|x| powm(*x, self.inv_alpha, p)).collect();
            s = matvec(&self.mds, &s, p);
            s = s.iter().zip(&self.ark2[r]).map(|(a, b)| addm(*a, *b, p)).collect();
        }
        s
    }

    fn digest(&self, st: &[u128]) -> Vec<u128> {
        st[self.digest_start..self.digest_start + 4].to_vec()
    }

    /// sponge over a list of residues
    pub fn hash_elements(&self, els: &[u128]) -> Vec<u128> {
        let p = self.p;
        let mut st = vec![0u128; self.width];
        if self.jive {
            if els.len() % self.rate_width != 0 {
                st[0] = 1;
            }
        } else {
            st[self.count_pos] = els.len() as u128 % p;
        }
        let mut i = 0;
        for e in els {
            st[self.rate_start + i] = addm(st[self.rate_start + i], *e % p, p);
            i += 1;
            if i == self.rate_width {
                st = self.permutation(&st);
                i = 0;
            }
        }
        if i > 0 {
            if self.jive {
                st[self.rate_start + i] = 1;
                for k in i + 1..self.rate_width {
                    st[self.rate_start + k] = 0;
                }
            }
            st = self.permutation(&st);
        }
        self.digest(&st)
    }

    /// bytes -> 7-byte little-endian chunks, the last one padded with a 0x01 byte -> sponge
    pub fn hash_bytes(&self, bytes: &[u8]) -> Vec<u128> {
        let chunks: Vec<&[u8]> = bytes.chunks(7).collect();
        let n = chunks.len();
        let els: Vec<u128> = chunks
            .iter()
            .enumerate()
            .map(|(k, c)| {
                let mut b = [0u8; 8];
                b[..c.len()].copy_from_slice(c);
                if k == n - 1 {
                    b[c.len()] = 1;
                }
                u64::from_le_bytes(b) as u128
            })
            .collect();
        self.hash_elements(&els)
    }

    /// sponge-mode merge_with_int: [seed, value mod p (, value div p)] with the count injected
    pub fn merge_with_int(&self, seed: &[u128], v: u64) -> Vec<u128> {
        let p = self.p;
        let mut els = seed.to_vec();
        els.push(v as u128 % p);
        if v as u128 >= p {
            els.push(v as u128 / p);
        }
        self.hash_elements(&els)
    }

    /// Jive compression of a full-width input: x + perm(x), halves added
    pub fn jive(&self, input: &[u128]) -> Vec<u128> {
        let p = self.p;
        let out = self.permutation(input);
        (0..4).map(|i| addm(addm(input[i], input[4 + i], p), addm(out[i], out[4 + i], p), p)).collect()
    }

    pub fn jive_with_int(&self, seed: &[u128], v: u64) -> Vec<u128> {
        let p = self.p;
        let mut st = vec![0u128; 8];
        st[..4].copy_from_slice(seed);
        st[4] = v as u128 % p;
        if (v as u128) < p {
            st[7] = 5;
        } else {
            st[5] = v as u128 / p;
            st[7] = 6;
        }
        self.jive(&st)
    }
}
