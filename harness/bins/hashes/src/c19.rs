//! C19 — public coin contract: explicit-state search over coin histories against a reference coin.
//!
//! State  = history of operations on a fresh DefaultRandomCoin<H> (rebuilt by re-execution).
//! Key    = (hasher, reference seed digest, reference counter): the coin is a function of exactly
//!          these two values, so histories with equal keys have equal futures.
//! Oracle 1: every output equals the reference coin written from the doc comments on top of the
//!          hasher's own hash_elements / merge / merge_with_int (those are C11's business).
//! Oracle 2: states with different keys give different next outputs, equal keys equal outputs.
//! Oracle 3: drawn elements are canonical, exactly k integers each < 2^m, proof-of-work measure.
use std::collections::HashMap;
use std::sync::{Arc, Mutex};

use crypto::{hashers, DefaultRandomCoin, Digest, ElementHasher, RandomCoin};
use kit::engine::bfs;
use kit::{json, pan, CaseOut, Run};
use math::fields::{f128, f62, f64 as g64, CubeExtension, QuadExtension};
use math::{FieldElement, StarkField};
use utils::Serializable;

#[derive(Clone, Copy, Debug, PartialEq, Eq, Hash)]
pub enum COp {
    New(u8),
    Reseed(u8),
    Draw(u8), // extension degree 1,2,3
    Ints(u16, u8, u8),
    Lz(u8),
}

const LZ_VALUES: [u64; 3] = [0, 1, u64::MAX];
const INTS: [(u16, u8, u8); 7] = [(1, 1, 0), (1, 8, 0), (1, 32, 1), (2, 8, 1), (2, 32, 0), (255, 8, 0), (255, 32, 1)];

pub trait CoinSpec: ElementHasher + Sized + 'static
where
    Self::Digest: 'static,
{
    const NAME: &'static str;
    const P: u128;
    const CUBIC: bool;
    fn seed(i: u8) -> Vec<Self::BaseField>;
    fn draw_real(coin: &mut DefaultRandomCoin<Self>, deg: u8) -> Result<Vec<u8>, String>;
    fn elem_bytes(deg: u8) -> usize {
        Self::BaseField::ELEMENT_BYTES * deg as usize
    }
}

macro_rules! coin_spec {
    ($ty:ty, $name:expr, $b:ty, $p:expr, $cubic:expr, $mk:expr) => {
        impl CoinSpec for $ty {
            const NAME: &'static str = $name;
            const P: u128 = $p;
            const CUBIC: bool = $cubic;
            fn seed(i: u8) -> Vec<$b> {
                let mk = $mk;
                match i {
                    0 => vec![],
                    1 => vec![mk(0)],
                    2 => vec![mk(1), mk(2), mk(3)],
                    _ => (0..9u128).map(|k| mk($p - 1 - k)).collect(),
                }
            }
            fn draw_real(coin: &mut DefaultRandomCoin<Self>, deg: u8) -> Result<Vec<u8>, String> {
                match deg {
                    1 => coin.draw::<$b>().map(|e| e.to_bytes()).map_err(|e| format!("{:?}", e)),
                    2 => coin.draw::<QuadExtension<$b>>().map(|e| e.to_bytes()).map_err(|e| format!("{:?}", e)),
                    _ => draw_cubic::<Self, $b>(coin, $cubic),
                }
            }
        }
    };
}

fn draw_cubic<H, B>(coin: &mut DefaultRandomCoin<H>, supported: bool) -> Result<Vec<u8>, String>
where
    H: ElementHasher<BaseField = B>,
    B: StarkField + math::ExtensibleField<3>,
{
    if !supported {
        return Err("unsupported".into());
    }
    coin.draw::<CubeExtension<B>>().map(|e| e.to_bytes()).map_err(|e| format!("{:?}", e))
}

type B64 = g64::BaseElement;
type B62 = f62::BaseElement;
type B128 = f128::BaseElement;
coin_spec!(hashers::Blake3_256<B64>, "blake3_256/f64", B64, kit::refmath::P64, true, |x: u128| B64::new(x as u64));
coin_spec!(hashers::Blake3_192<B62>, "blake3_192/f62", B62, kit::refmath::P62, true, |x: u128| B62::new(x as u64));
coin_spec!(hashers::Sha3_256<B128>, "sha3_256/f128", B128, kit::refmath::P128, false, |x: u128| B128::new(x));
coin_spec!(hashers::Rp64_256, "rp64_256", B64, kit::refmath::P64, true, |x: u128| B64::new(x as u64));
coin_spec!(hashers::Rp62_248, "rp62_248", B62, kit::refmath::P62, true, |x: u128| B62::new(x as u64));
coin_spec!(hashers::RpJive64_256, "rpjive64_256", B64, kit::refmath::P64, true, |x: u128| B64::new(x as u64));

#[derive(Clone, Debug, PartialEq, Eq)]
enum Out {
    None,
    Elem(Result<Vec<u8>, String>),
    Ints(Result<Vec<usize>, String>),
    Lz(u32),
}

struct RefCoin<H: ElementHasher> {
    seed: H::Digest,
    counter: u64,
}

impl<H: CoinSpec> RefCoin<H>
where
    H::Digest: 'static,
{
    fn next(&mut self) -> H::Digest {
        self.counter += 1;
        H::merge_with_int(self.seed, self.counter)
    }
    fn apply(&mut self, op: COp, reseed_data: &[H::Digest; 2]) -> Out {
        match op {
            COp::New(i) => {
                self.seed = H::hash_elements(&H::seed(i));
                self.counter = 0;
                Out::None
            },
            COp::Reseed(i) => {
                self.seed = H::merge(&[self.seed, reseed_data[i as usize]]);
                self.counter = 0;
                Out::None
            },
            COp::Draw(deg) => {
                let n = H::elem_bytes(deg);
                let w = H::BaseField::ELEMENT_BYTES;
                for _ in 0..1000 {
                    let d = self.next();
                    let bytes = d.as_bytes()[..n].to_vec();
                    // valid iff every coefficient is a canonical residue
                    let ok = bytes.chunks(w).all(|c| {
                        let mut a = [0u8; 16];
                        a[..w].copy_from_slice(c);
                        u128::from_le_bytes(a) < H::P
                    });
                    if ok {
                        return Out::Elem(Ok(bytes));
                    }
                }
                Out::Elem(Err("FailedToDrawFieldElement(1000)".into()))
            },
            COp::Ints(k, m, nonce) => {
                self.seed = H::merge_with_int(self.seed, nonce as u64);
                self.counter = 0;
                let mask = (1u64 << m) - 1;
                let mut v = vec![];
                for _ in 0..k {
                    let d = self.next();
                    let x = u64::from_le_bytes(d.as_bytes()[..8].try_into().unwrap());
                    v.push((x & mask) as usize);
                }
                Out::Ints(Ok(v))
            },
            COp::Lz(i) => {
                let d = H::merge_with_int(self.seed, LZ_VALUES[i as usize]);
                let x = u64::from_le_bytes(d.as_bytes()[..8].try_into().unwrap());
                Out::Lz(x.trailing_zeros())
            },
        }
    }
}

fn apply_real<H: CoinSpec>(coin: &mut DefaultRandomCoin<H>, op: COp, reseed_data: &[H::Digest; 2]) -> Out
where
    H::Digest: 'static,
{
    match op {
        COp::New(_) => Out::None,
        COp::Reseed(i) => {
            coin.reseed(reseed_data[i as usize]);
            Out::None
        },
        COp::Draw(deg) => Out::Elem(H::draw_real(coin, deg)),
        COp::Ints(k, m, nonce) => Out::Ints(coin.draw_integers(k as usize, 1usize << m, nonce as u64).map_err(|e| format!("{:?}", e))),
        COp::Lz(i) => Out::Lz(coin.check_leading_zeros(LZ_VALUES[i as usize])),
    }
}

#[derive(Clone, Debug)]
struct St {
    hist: Vec<COp>,
    key: (Vec<u8>, u64),
}

struct Exec {
    key: (Vec<u8>, u64),
    /// canonical observable state: (seed, position of the next candidate that is a valid base element).
    /// Counter values that differ only by skipped (invalid) candidates are observationally equal,
    /// because every draw skips them anyway and every other operation resets or ignores the counter.
    canon: (Vec<u8>, u64),
    mismatch: Option<(String, kit::Value)>,
    probe: Option<Vec<u8>>,
}

fn execute<H: CoinSpec>(hist: &[COp], want_probe: bool) -> Exec
where
    H::Digest: 'static,
{
    let reseed_data: [H::Digest; 2] = [H::hash(b"reseed-0"), H::Digest::default()];
    let seed_idx = match hist[0] {
        COp::New(i) => i,
        _ => 0,
    };
    let mut real = DefaultRandomCoin::<H>::new(&H::seed(seed_idx));
    let mut rf = RefCoin::<H> { seed: H::Digest::default(), counter: 0 };
    rf.apply(hist[0], &reseed_data);
    let mut mismatch = None;
    for (i, op) in hist.iter().enumerate().skip(1) {
        let want = rf.apply(*op, &reseed_data);
        let got = pan::catch(|| apply_real(&mut real, *op, &reseed_data));
        match got {
            Err(p) => {
                mismatch = Some((format!("{}: coin panics in {:?}: {}", H::NAME, opkind(op), p.class()), json!({"step": i})));
                break;
            },
            Ok(got) => {
                if got != want {
                    mismatch = Some((
                        format!("{}: {} differs from the reference coin", H::NAME, opkind(op)),
                        json!({"step": i, "op": format!("{:?}", op), "reference": format!("{:?}", want).chars().take(200).collect::<String>(), "coin": format!("{:?}", got).chars().take(200).collect::<String>()}),
                    ));
                    break;
                }
                // oracle 3 on the real outputs themselves
                if let (COp::Ints(k, m, _), Out::Ints(Ok(v))) = (op, &got) {
                    if v.len() != *k as usize || v.iter().any(|x| (*x as u64) >> *m != 0) {
                        mismatch = Some((format!("{}: draw_integers returns a wrong count or an out-of-range value", H::NAME), json!({"step": i})));
                        break;
                    }
                }
            },
        }
    }
    let probe = if want_probe && mismatch.is_none() {
        // next output of the real coin in this state (a base-field draw and one 32-bit integer)
        pan::catch(|| {
            let mut v = H::draw_real(&mut real, 1).unwrap_or_default();
            if let Ok(ints) = real.draw_integers(1, 1usize << 32, 7) {
                v.extend((ints[0] as u64).to_le_bytes());
            }
            v
        })
        .ok()
    } else {
        None
    };
    let canon = {
        let mut peek = RefCoin::<H> { seed: rf.seed, counter: rf.counter };
        peek.apply(COp::Draw(1), &reseed_data);
        (rf.seed.to_bytes(), peek.counter)
    };
    Exec { key: (rf.seed.to_bytes(), rf.counter), canon, mismatch, probe }
}

fn opkind(op: &COp) -> &'static str {
    match op {
        COp::New(_) => "new",
        COp::Reseed(_) => "reseed",
        COp::Draw(1) => "draw (base field)",
        COp::Draw(2) => "draw (quadratic extension)",
        COp::Draw(_) => "draw (cubic extension)",
        COp::Ints(..) => "draw_integers",
        COp::Lz(_) => "check_leading_zeros",
    }
}

fn ops<H: CoinSpec>() -> Vec<COp>
where
    H::Digest: 'static,
{
    let mut v = vec![COp::Reseed(0), COp::Reseed(1), COp::Draw(1), COp::Draw(2)];
    if H::CUBIC {
        v.push(COp::Draw(3));
    }
    for (k, m, n) in INTS {
        // documented precondition: fewer values than the domain has points
        if (k as u64) < (1u64 << m) {
            v.push(COp::Ints(k, m, n));
        }
    }
    for i in 0..LZ_VALUES.len() as u8 {
        v.push(COp::Lz(i));
    }
    v
}

fn explore<H: CoinSpec>(run: &Arc<Run>, depth: usize)
where
    H::Digest: 'static,
{
    let probes: Arc<Mutex<HashMap<(Vec<u8>, u64), Vec<u8>>>> = Arc::new(Mutex::new(HashMap::new()));
    let init: Vec<St> = (0..4u8)
        .map(|i| {
            let h = vec![COp::New(i)];
            let e = execute::<H>(&h, false);
            St { hist: h, key: e.key }
        })
        .collect();
    let pr = probes.clone();
    let stats = kit::engine::bfs_r(
        run,
        &format!("coin.{}", H::NAME),
        init,
        depth,
        5_000_000,
        60,
        move |s: &St, expand: bool, out: &mut CaseOut| {
            // probe of this state (oracle 2)
            let e = execute::<H>(&s.hist, true);
            out.nontrivial();
            if let Some(p) = e.probe {
                let mut m = pr.lock().unwrap();
                if let Some(prev) = m.get(&e.canon) {
                    if *prev != p {
                        out.violation(format!("{}: two histories with the same coin state produce different outputs", H::NAME), json!({"history": format!("{:?}", s.hist)}));
                    }
                } else {
                    m.insert(e.canon.clone(), p);
                }
            }
            if !expand {
                return vec![];
            }
            let mut succ = vec![];
            for op in ops::<H>() {
                let mut h = s.hist.clone();
                h.push(op);
                let e = execute::<H>(&h, false);
                out.evals(1);
                out.traces(1);
                if let Some((sig, mut d)) = e.mismatch {
                    d["history"] = json!(format!("{:?}", h));
                    out.violation(sig, d);
                    continue;
                }
                succ.push(St { hist: h, key: e.key });
            }
            succ
        },
        |s: &St| s.key.clone(),
        |s: &St| {
            let codes: Vec<[u64; 4]> = s
                .hist
                .iter()
                .map(|o| match *o {
                    COp::New(a) => [0, a as u64, 0, 0],
                    COp::Reseed(a) => [1, a as u64, 0, 0],
                    COp::Draw(a) => [2, a as u64, 0, 0],
                    COp::Ints(a, b, c) => [3, a as u64, b as u64, c as u64],
                    COp::Lz(a) => [4, a as u64, 0, 0],
                })
                .collect();
            json!({"hasher": H::NAME, "history": format!("{:?}", s.hist), "replay": codes})
        },
        |v: &kit::Value| {
            let mut hist = vec![];
            for c in v["replay"].as_array()? {
                let g = |i: usize| c[i].as_u64();
                hist.push(match g(0)? {
                    0 => COp::New(g(1)? as u8),
                    1 => COp::Reseed(g(1)? as u8),
                    2 => COp::Draw(g(1)? as u8),
                    3 => COp::Ints(g(1)? as u16, g(2)? as u8, g(3)? as u8),
                    4 => COp::Lz(g(1)? as u8),
                    _ => return None,
                });
            }
            let e = execute::<H>(&hist, false);
            Some(St { hist, key: e.key })
        },
    );
    // oracle 2, other direction: different states => different next outputs
    let m = probes.lock().unwrap();
    let mut rev: HashMap<&Vec<u8>, &(Vec<u8>, u64)> = HashMap::new();
    for (k, p) in m.iter() {
        if let Some(other) = rev.insert(p, k) {
            run.add_violation(
                &format!("coin.{}", H::NAME),
                0,
                &format!("{}: two different coin states produce the same next outputs", H::NAME),
                json!({"state1": {"seed": kit::hex(&k.0), "counter": k.1}, "state2": {"seed": kit::hex(&other.0), "counter": other.1}}),
            );
        }
    }
    run.add_counts(m.len() as u64, 0, 0, 0, 0);
    run.require(stats.states > 50, "C19: state space suspiciously small");
    run.require(m.len() as u64 >= stats.states / 8, "C19: distinctness oracle saw too few states");
}

/// "any difference in the nonce changes the subsequent outputs": from a set of coin states, every nonce of a
/// boundary alphabet (around the field modulus and its multiples, single bits, the extremes) must lead to
/// pairwise different integers (27 x 8 bits) and to different subsequent draws.
fn nonce_sensitivity<H: CoinSpec>(run: &Arc<Run>)
where
    H::Digest: 'static,
{
    let mut alphabet: Vec<u64> = vec![0, 1, 2, 3, (1 << 32) - 1, 1 << 32, (1 << 32) + 1, 1 << 63, u64::MAX - 1, u64::MAX];
    for b in 0..64 {
        alphabet.push(1u64 << b);
        alphabet.push((1u64 << b).wrapping_sub(1));
    }
    if H::P < (1u128 << 64) {
        for k in 1..=4u128 {
            for r in [-2i128, -1, 0, 1, 2] {
                let v = (k * H::P) as i128 + r;
                if v >= 0 && (v as u128) < (1u128 << 64) {
                    alphabet.push(v as u64);
                }
            }
        }
    }
    alphabet.sort();
    alphabet.dedup();
    let reseed_data: [H::Digest; 2] = [H::hash_elements(&H::seed(2)), H::hash_elements(&H::seed(3))];
    let mut cases = 0u64;
    for seed in 0..4u8 {
        for reseeds in 0..3usize {
            let mut seen: HashMap<Vec<u8>, u64> = HashMap::new();
            for &nonce in alphabet.iter() {
                let r = pan::catch(|| {
                    let mut coin = DefaultRandomCoin::<H>::new(&H::seed(seed));
                    for k in 0..reseeds {
                        coin.reseed(reseed_data[k % 2]);
                    }
                    let ints = coin.draw_integers(27, 256, nonce).map_err(|e| format!("{:?}", e));
                    let lz = coin.check_leading_zeros(nonce);
                    let next = H::draw_real(&mut coin, 1);
                    (ints, lz, next)
                });
                cases += 1;
                match r {
                    Ok((Ok(ints), _lz, Ok(next))) => {
                        let mut obs: Vec<u8> = ints.iter().map(|x| *x as u8).collect();
                        obs.extend(next);
                        if let Some(other) = seen.insert(obs, nonce) {
                            run.add_violation(&format!("coin.{}.nonce_sensitivity", H::NAME), cases, &format!("{}: two different nonces lead to the same integers and subsequent outputs", H::NAME), json!({"seed": seed, "reseeds": reseeds, "nonce_1": other, "nonce_2": nonce}));
                        }
                    },
                    Ok((ints, _, next)) => run.add_violation(&format!("coin.{}.nonce_sensitivity", H::NAME), cases, &format!("{}: drawing 27 integers below 256 fails", H::NAME), json!({"seed": seed, "reseeds": reseeds, "nonce": nonce, "ints": format!("{:?}", ints), "next": format!("{:?}", next)})),
                    Err(p) => run.add_violation(&format!("coin.{}.nonce_sensitivity", H::NAME), cases, &format!("{}: coin panics ({})", H::NAME, p.class()), json!({"seed": seed, "reseeds": reseeds, "nonce": nonce})),
                }
            }
        }
    }
    run.add_counts(cases, cases, 0, 0, 0);
    run.add_class("nonce alphabet members x coin states checked for pairwise different outputs", cases);
}

/// "equal histories give equal outputs" with histories that are equal as values but were computed differently:
/// seed elements re-derived through field arithmetic (-(0 - x), (x + 1) - 1, x * 1, x + (y + -y)) are == to the
/// originals but may have another internal representation (the 62-bit field keeps lazily reduced values); the
/// coin must not see the difference.
fn representation_independence<H: CoinSpec>(run: &Arc<Run>)
where
    H::Digest: 'static,
{
    type F<H> = <H as crypto::Hasher>::Digest;
    let _ = std::marker::PhantomData::<F<H>>;
    let one = H::BaseField::ONE;
    let zero = H::BaseField::ZERO;
    let alts: Vec<(&str, Box<dyn Fn(H::BaseField) -> H::BaseField>)> = vec![
        ("-(0 - x)", Box::new(move |x| -(zero - x))),
        ("(x + 1) - 1", Box::new(move |x| (x + one) - one)),
        ("x * 1", Box::new(move |x| x * one)),
        ("x + (1 + -1)", Box::new(move |x| x + (one + (-one)))),
        ("-(-x)", Box::new(|x| -(-x))),
        ("0 - (0 - x)", Box::new(move |x| zero - (zero - x))),
        ("(x - 1) + 1", Box::new(move |x| (x - one) + one)),
        ("x - (1 + -1)", Box::new(move |x| x - (one + (-one)))),
        ("(x + -1) + 1", Box::new(move |x| (x + (-one)) + one)),
        ("(-x) * (-1)", Box::new(move |x| (-x) * (-one))),
        ("x + (x + -x)", Box::new(|x| x + (x + (-x)))),
    ];
    let (mut cases, mut other_images) = (0u64, 0u64);
    for seed in 1..4u8 {
        let orig = H::seed(seed);
        let observe = |s: &[H::BaseField]| -> Result<(Vec<u8>, u32, Vec<usize>), String> {
            let mut coin = DefaultRandomCoin::<H>::new(s);
            let lz = coin.check_leading_zeros(5);
            let d = H::draw_real(&mut coin, 1)?;
            let ints = coin.draw_integers(27, 256, 9).map_err(|e| format!("{:?}", e))?;
            Ok((d, lz, ints))
        };
        let base = pan::catch(|| observe(&orig));
        for (name, f) in alts.iter() {
            let alt: Vec<H::BaseField> = orig.iter().map(|x| f(*x)).collect();
            cases += 1;
            if alt != orig {
                run.add_violation(&format!("coin.{}.representation", H::NAME), cases, &format!("{}: field arithmetic does not return an equal element ({name})", H::NAME), json!({"seed": seed}));
                continue;
            }
            if H::BaseField::elements_as_bytes(&alt) != H::BaseField::elements_as_bytes(&orig) {
                other_images += 1;
            }
            let got = pan::catch(|| observe(&alt));
            let same = match (&base, &got) {
                (Ok(a), Ok(b)) => a == b,
                _ => false,
            };
            if !same {
                run.add_violation(&format!("coin.{}.representation", H::NAME), cases, &format!("{}: coins seeded with equal elements produce different outputs (the seed was re-derived as {name})", H::NAME), json!({"seed": seed, "derivation": name}));
            }
        }
    }
    run.add_counts(cases, cases, 0, 0, 0);
    run.add_class(&format!("{}: seeds re-derived through field arithmetic (equal values)", H::NAME), cases);
    run.add_class(&format!("{}: ... of which with a different internal representation", H::NAME), other_images);
}

/// "any difference in the seed changes the subsequent outputs": seeds of every length 0..=17 over three element
/// streams, each also extended by ZERO and by ONE (the values a padding rule could confuse with "nothing") - all
/// coins must start differently.
fn seed_sensitivity<H: CoinSpec>(run: &Arc<Run>)
where
    H::Digest: 'static,
{
    let mk = |v: u128| -> H::BaseField { H::BaseField::from(((v % H::P) as u64 & 0xffff_ffff) as u32) };
    let mut seeds: Vec<Vec<H::BaseField>> = vec![];
    for stream in 0..3u128 {
        for len in 0..=17usize {
            let base: Vec<H::BaseField> = (0..len).map(|i| match stream {
                0 => mk(i as u128 + 1),
                1 => H::BaseField::ZERO,
                _ => H::BaseField::ONE,
            }).collect();
            for ext in [None, Some(H::BaseField::ZERO), Some(H::BaseField::ONE)] {
                let mut s = base.clone();
                if let Some(e) = ext {
                    s.push(e);
                }
                if !seeds.contains(&s) {
                    seeds.push(s);
                }
            }
        }
    }
    let mut seen: HashMap<Vec<u8>, usize> = HashMap::new();
    let mut cases = 0u64;
    for (i, s) in seeds.iter().enumerate() {
        cases += 1;
        let obs = pan::catch(|| {
            let mut coin = DefaultRandomCoin::<H>::new(s);
            let lz = coin.check_leading_zeros(3);
            let d = H::draw_real(&mut coin, 1).unwrap_or_default();
            let ints = coin.draw_integers(16, 256, 1).unwrap_or_default();
            let mut o = d;
            o.push(lz as u8);
            o.extend(ints.iter().map(|x| *x as u8));
            o
        });
        match obs {
            Ok(o) => {
                if let Some(j) = seen.insert(o, i) {
                    run.add_violation(&format!("coin.{}.seed_sensitivity", H::NAME), cases, &format!("{}: two different seeds lead to the same outputs", H::NAME), json!({"seed_1": format!("{:?}", seeds[j].iter().map(|e| e.to_string()).collect::<Vec<_>>()), "seed_2": format!("{:?}", s.iter().map(|e| e.to_string()).collect::<Vec<_>>())}));
                }
            },
            Err(p) => run.add_violation(&format!("coin.{}.seed_sensitivity", H::NAME), cases, &format!("{}: coin panics ({})", H::NAME, p.class()), json!({"seed_len": s.len()})),
        }
    }
    run.add_counts(cases, cases, 0, 0, 0);
    run.add_class("seeds of every length 0..=18 (three streams, extended by ZERO / ONE) checked for pairwise different outputs", cases);
}

/// A long stream of base-element draws over the 62-bit field, compared value by value with the reference coin. The
/// 62-bit modulus leaves a narrow window [p, 2^62) of 8-byte candidates that look like field elements but are not
/// (about 2^-18 of all candidates): short histories never meet it. The stream runs until the reference coin has rejected
/// `want_window` candidates from that window (vacuity guard: it must meet at least one).
fn long_stream<H: CoinSpec>(run: &Arc<Run>, want_window: u32, max_draws: u64)
where
    H::Digest: 'static,
{
    let seed = H::seed(2);
    let mut coin = DefaultRandomCoin::<H>::new(&seed);
    let mut rc = RefCoin::<H> { seed: H::hash_elements(&seed), counter: 0 };
    let (mut window, mut draws) = (0u32, 0u64);
    let name = format!("coin.{}.long_stream", H::NAME);
    while window < want_window && draws < max_draws {
        draws += 1;
        let mut want = None;
        for _ in 0..1000 {
            let d = rc.next();
            let x = u64::from_le_bytes(d.as_bytes()[..8].try_into().unwrap()) as u128;
            if x < H::P {
                want = Some(x);
                break;
            }
            if x < (1u128 << 62) {
                window += 1;
            }
        }
        let got = pan::catch(|| H::draw_real(&mut coin, 1));
        let want_bytes = want.map(|x| (x as u64).to_le_bytes().to_vec());
        match (got, want_bytes) {
            (Ok(Ok(g)), Some(w)) if g == w => {},
            (Ok(g), w) => {
                run.add_violation(&name, draws, &format!("{}: a draw differs from the reference coin", H::NAME), json!({"draw_number": draws, "reference_counter": rc.counter, "candidates_rejected_from_the_window_below_2^62": window, "got": format!("{:?}", g), "want": format!("{:?}", w)}));
                break;
            },
            (Err(p), _) => {
                run.add_violation(&name, draws, &format!("{}: coin panics ({})", H::NAME, p.class()), json!({"draw_number": draws}));
                break;
            },
        }
    }
    run.require(window >= 1, &format!("C19: the long draw stream of {} never met a candidate in [p, 2^62)", H::NAME));
    run.add_counts(draws, draws, 0, 0, 0);
    run.add_class(&format!("{}: consecutive base-element draws compared with the reference coin ({} candidate(s) rejected from the window [p, 2^62))", H::NAME, window), draws);
}

pub fn run(run: &Arc<Run>) {
    run.rule("explicit-state BFS over coin histories {new(4 seeds), reseed(2 digests), draw base/quadratic/cubic, draw_integers(k,2^m,nonce) for 7 (k,m,nonce) triples with k in {1,2,255} and m in {1,8,32}, check_leading_zeros(3 values)} for all six hashers; states keyed by the reference coin's (seed, counter); every transition executed on the real coin and on the reference coin and compared (a trace validated against the implementation); each state additionally probed for its next outputs, which must be a function of, and injective in, the key; long streams: consecutive base-element draws over the 62-bit field (Blake3_192; the digests of the algebraic hashers are field elements already and are never rejected) compared with the reference coin until it has rejected candidates from the narrow window [p, 2^62) (about 2^-18 of all candidates); seed sensitivity: seeds of every length 0..=18 over three element streams, extended by ZERO / ONE, give pairwise different outputs; representation independence: seeds re-derived through field arithmetic (equal as values, other internal images for the 62-bit field) give identical outputs; nonce sensitivity: from 12 coin states per hasher every nonce of a boundary alphabet (multiples of the field modulus +-2, 2^b and 2^b-1 for every b, the extremes; about 150 values) must lead to pairwise different (27 integers, next draw)");
    run.assume("hash_elements / merge / merge_with_int / Digest::as_bytes of each hasher are correct (C11)");
    run.assume("draw_integers precondition k < 2^m is respected (documented assertion)");
    let t = run.tier();
    explore::<hashers::Blake3_256<B64>>(run, t.pick(4, 6));
    explore::<hashers::Blake3_192<B62>>(run, t.pick(4, 6));
    explore::<hashers::Sha3_256<B128>>(run, t.pick(4, 6));
    explore::<hashers::Rp64_256>(run, t.pick(3, 4));
    explore::<hashers::Rp62_248>(run, t.pick(3, 4));
    explore::<hashers::RpJive64_256>(run, t.pick(3, 4));
    long_stream::<hashers::Blake3_192<B62>>(run, if run.tier().is_thorough() { 8 } else { 2 }, 3_000_000);
    seed_sensitivity::<hashers::Blake3_256<B64>>(run);
    seed_sensitivity::<hashers::Blake3_192<B62>>(run);
    seed_sensitivity::<hashers::Sha3_256<B128>>(run);
    seed_sensitivity::<hashers::Rp64_256>(run);
    seed_sensitivity::<hashers::Rp62_248>(run);
    seed_sensitivity::<hashers::RpJive64_256>(run);
    representation_independence::<hashers::Blake3_256<B64>>(run);
    representation_independence::<hashers::Blake3_192<B62>>(run);
    representation_independence::<hashers::Sha3_256<B128>>(run);
    representation_independence::<hashers::Rp64_256>(run);
    representation_independence::<hashers::Rp62_248>(run);
    representation_independence::<hashers::RpJive64_256>(run);
    nonce_sensitivity::<hashers::Blake3_256<B64>>(run);
    nonce_sensitivity::<hashers::Blake3_192<B62>>(run);
    nonce_sensitivity::<hashers::Sha3_256<B128>>(run);
    nonce_sensitivity::<hashers::Rp64_256>(run);
    nonce_sensitivity::<hashers::Rp62_248>(run);
    nonce_sensitivity::<hashers::RpJive64_256>(run);
}
