//! Indexable space of mutants of a serialized proof, built on the layout codec.
use starkit::codec::{read_le, write_le, FKind, Layout};

#[derive(Clone, Copy, Debug, PartialEq, Eq)]
pub enum Fam {
    BitFlip,
    ByteValue,
    Truncate,
    Trailing,
    FieldValue,
    Resize,
    ElemValue,
    Swap,
    CountPair,
    Gkr,
}

pub struct MutSpace {
    pub base: Vec<u8>,
    pub layout: Layout,
    /// canonical bytes of p-1 for one base element
    pub pm1: Vec<u8>,
    pub ext: usize,
    fams: Vec<(Fam, u64)>,
    ctrl: Vec<usize>,   // indexes of Count/Len/Enum fields
    elems: Vec<usize>,  // indexes of Elem/Digest fields
    counts: Vec<usize>, // indexes of Count fields
    swaps: Vec<(usize, usize, usize)>, // (offset a, offset b, len) ranges to exchange
}

const BYTE_VALUES: [u8; 5] = [0x00, 0x01, 0x7f, 0x80, 0xff];

impl MutSpace {
    pub fn new(base: Vec<u8>, layout: Layout, pm1: Vec<u8>, ext: usize, fams: &[Fam]) -> Self {
        let ctrl: Vec<usize> = layout.fields.iter().enumerate().filter(|(_, f)| matches!(f.kind, FKind::Count | FKind::Len | FKind::Enum)).map(|(i, _)| i).collect();
        let elems: Vec<usize> = layout.fields.iter().enumerate().filter(|(_, f)| matches!(f.kind, FKind::Elem | FKind::Digest)).map(|(i, _)| i).collect();
        let counts: Vec<usize> = layout.fields.iter().enumerate().filter(|(_, f)| matches!(f.kind, FKind::Count)).map(|(i, _)| i).collect();
        // exchanges of equally sized neighbouring items and of whole components
        let mut swaps = vec![];
        for w in elems.windows(2) {
            let (a, b) = (&layout.fields[w[0]], &layout.fields[w[1]]);
            if a.len == b.len && a.comp == b.comp && a.kind == b.kind && a.off + a.len == b.off {
                swaps.push((a.off, b.off, a.len));
            }
        }
        // first and last element of every component's payload (moves a value to a far position)
        for (_, _, _, ps, pe) in layout.components.iter() {
            let inside: Vec<&starkit::codec::Field> = layout.fields.iter().filter(|f| f.off >= *ps && f.off + f.len <= *pe && matches!(f.kind, FKind::Elem | FKind::Digest)).collect();
            if inside.len() >= 3 {
                let (a, b) = (inside[0], inside[inside.len() - 1]);
                if a.len == b.len {
                    swaps.push((a.off, b.off, a.len));
                }
            }
        }
        let l = base.len() as u64;
        let mut f = vec![];
        for fam in fams {
            let n = match fam {
                Fam::BitFlip => 8 * l,
                Fam::ByteValue => 7 * l,
                Fam::Truncate => l,
                Fam::Trailing => 3,
                Fam::FieldValue => 6 * ctrl.len() as u64,
                Fam::Resize => 8 * layout.components.len() as u64,
                Fam::ElemValue => 4 * elems.len() as u64,
                Fam::Swap => swaps.len() as u64 + 4,
                Fam::CountPair => {
                    let c = counts.len() as u64;
                    c * c.saturating_sub(1) / 2 * 4
                },
                Fam::Gkr => 6,
            };
            f.push((*fam, n));
        }
        MutSpace { base, layout, pm1, ext, fams: f, ctrl, elems, counts, swaps }
    }

    pub fn len(&self) -> u64 {
        self.fams.iter().map(|f| f.1).sum()
    }

    fn max_of(len: usize) -> u64 {
        if len >= 8 {
            u64::MAX
        } else {
            (1u64 << (8 * len)) - 1
        }
    }

    /// (family, human-readable label, mutated bytes); None when the mutant equals the original
    pub fn get(&self, mut idx: u64) -> Option<(Fam, String, Vec<u8>)> {
        let mut fam = Fam::BitFlip;
        for (f, n) in self.fams.iter() {
            if idx < *n {
                fam = *f;
                break;
            }
            idx -= n;
        }
        let mut b = self.base.clone();
        let label;
        match fam {
            Fam::BitFlip => {
                let (off, bit) = ((idx / 8) as usize, idx % 8);
                b[off] ^= 1 << bit;
                label = format!("bit {bit} of byte {off} flipped ({})", self.field_at(off));
            },
            Fam::ByteValue => {
                let (off, k) = ((idx / 7) as usize, (idx % 7) as usize);
                let v = match k {
                    0..=4 => BYTE_VALUES[k],
                    5 => b[off].wrapping_add(1),
                    _ => b[off].wrapping_sub(1),
                };
                if v == b[off] {
                    return None;
                }
                b[off] = v;
                label = format!("byte {off} set to {v:#04x} ({})", self.field_at(off));
            },
            Fam::Truncate => {
                b.truncate(idx as usize);
                label = format!("truncated to {idx} bytes");
            },
            Fam::Trailing => {
                let n = [1usize, 2, 8][idx as usize];
                b.extend(std::iter::repeat(0xA5).take(n));
                label = format!("{n} trailing garbage bytes");
            },
            Fam::FieldValue => {
                let f = &self.layout.fields[self.ctrl[(idx / 6) as usize]];
                if f.len > 8 {
                    return None;
                }
                let orig = read_le(&b, f.off, f.len);
                let mx = Self::max_of(f.len);
                let v = [0, 1, orig.wrapping_add(1) & mx, orig.wrapping_sub(1) & mx, mx - 1, mx][(idx % 6) as usize];
                if v == orig {
                    return None;
                }
                write_le(&mut b, f.off, f.len, v);
                label = format!("field {} set to {}", f.name, classify(v, orig, mx));
            },
            Fam::Resize => {
                let (name, lo, ll, ps, pe) = &self.layout.components[(idx / 8) as usize];
                let k = idx % 8;
                let item = self.item_size(*ps, *pe);
                let amount = if k & 1 == 0 { 1 } else { item };
                let extend = k & 2 != 0;
                let fix = k & 4 != 0;
                let cur = read_le(&b, *lo, *ll);
                if extend {
                    let ins: Vec<u8> = vec![0u8; amount];
                    b.splice(*pe..*pe, ins);
                    if fix {
                        write_le(&mut b, *lo, *ll, cur + amount as u64);
                    }
                } else {
                    if pe - ps < amount {
                        return None;
                    }
                    b.drain(pe - amount..*pe);
                    if fix {
                        write_le(&mut b, *lo, *ll, cur - amount as u64);
                    }
                }
                label = format!("component {name} {} by {} ({}) {} its length field", if extend { "extended" } else { "truncated" }, if amount == 1 { "one byte".to_string() } else { "one item".to_string() }, amount, if fix { "fixing" } else { "without fixing" });
            },
            Fam::ElemValue => {
                let fi = self.elems[(idx / 4) as usize];
                let f = &self.layout.fields[fi];
                let k = idx % 4;
                let newv: Vec<u8> = match k {
                    0 => vec![0u8; f.len],
                    1 => {
                        let mut v = vec![0u8; f.len];
                        v[0] = 1;
                        v
                    },
                    2 => {
                        if f.kind == FKind::Digest {
                            vec![0xFFu8; f.len]
                        } else {
                            let mut v = vec![];
                            while v.len() < f.len {
                                v.extend(&self.pm1);
                            }
                            v.truncate(f.len);
                            v
                        }
                    },
                    _ => {
                        // value of the neighbouring item of the same kind
                        let nb = if fi + 1 < self.layout.fields.len() && self.layout.fields[fi + 1].len == f.len && self.layout.fields[fi + 1].kind == f.kind { fi + 1 } else if fi > 0 && self.layout.fields[fi - 1].len == f.len && self.layout.fields[fi - 1].kind == f.kind { fi - 1 } else { return None };
                        let g = &self.layout.fields[nb];
                        b[g.off..g.off + g.len].to_vec()
                    },
                };
                if b[f.off..f.off + f.len] == newv[..] {
                    return None;
                }
                b[f.off..f.off + f.len].copy_from_slice(&newv);
                label = format!("{} replaced by {}", f.name, ["zero", "one", "p-1 / all ones", "its neighbour"][k as usize]);
            },
            Fam::Swap => {
                if (idx as usize) < self.swaps.len() {
                    let (a, c, len) = self.swaps[idx as usize];
                    let (x, y) = (b[a..a + len].to_vec(), b[c..c + len].to_vec());
                    if x == y {
                        return None;
                    }
                    b[a..a + len].copy_from_slice(&y);
                    b[c..c + len].copy_from_slice(&x);
                    label = format!("items at byte {a} and {c} exchanged ({})", self.field_at(a));
                } else {
                    // whole-component exchanges: (trace queries <-> constraint queries), (FRI layer 0 <-> 1)
                    let k = idx as usize - self.swaps.len();
                    let find = |n: &str| self.layout.components.iter().find(|c| c.0 == n).cloned();
                    let pair = match k {
                        0 => (find("trace_queries[main].values"), find("constraint_queries.values")),
                        1 => (find("trace_queries[main].paths"), find("constraint_queries.paths")),
                        2 => (find("fri.layer[0].values"), find("fri.layer[1].values")),
                        _ => (find("fri.layer[0].paths"), find("fri.layer[1].paths")),
                    };
                    let (Some(x), Some(y)) = pair else { return None };
                    // exchange (length field + payload) of both components; x precedes y
                    let xa = x.1..x.4;
                    let ya = y.1..y.4;
                    if xa.end > ya.start {
                        return None;
                    }
                    let xs = b[xa.clone()].to_vec();
                    let ys = b[ya.clone()].to_vec();
                    if xs == ys {
                        return None;
                    }
                    let mut nb = b[..xa.start].to_vec();
                    nb.extend(&ys);
                    nb.extend(&b[xa.end..ya.start]);
                    nb.extend(&xs);
                    nb.extend(&b[ya.end..]);
                    b = nb;
                    label = format!("components {} and {} exchanged", x.0, y.0);
                }
            },
            Fam::CountPair => {
                let c = self.counts.len();
                let combo = (idx % 4) as usize;
                let mut pi = (idx / 4) as usize;
                let (mut i, mut j) = (0, 1);
                'o: for a in 0..c {
                    for bb in a + 1..c {
                        if pi == 0 {
                            i = a;
                            j = bb;
                            break 'o;
                        }
                        pi -= 1;
                    }
                }
                let (f, g) = (&self.layout.fields[self.counts[i]], &self.layout.fields[self.counts[j]]);
                let vf = if combo & 1 == 0 { 0 } else { Self::max_of(f.len) };
                let vg = if combo & 2 == 0 { 0 } else { Self::max_of(g.len) };
                write_le(&mut b, f.off, f.len, vf);
                write_le(&mut b, g.off, g.len, vg);
                label = format!("count fields {} and {} set to {} / {}", f.name, g.name, if vf == 0 { "0" } else { "max" }, if vg == 0 { "0" } else { "max" });
            },
            Fam::Gkr => {
                let f = self.layout.fields.iter().find(|f| f.name == "gkr.flag")?;
                let had = b[f.off] == 1;
                b.truncate(f.off);
                match idx {
                    0 => {
                        if !had {
                            return None;
                        }
                        b.push(0);
                        label = "gkr proof removed".to_string();
                    },
                    1..=3 => {
                        let n = [0usize, 1, 8][idx as usize - 1];
                        b.push(1);
                        b.push(((n as u8) << 1) | 1);
                        b.extend(std::iter::repeat(0x42).take(n));
                        label = format!("gkr proof set to Some({n} junk bytes)");
                    },
                    4 => {
                        // a length that promises far more than the input holds
                        b.push(1);
                        b.push(0);
                        b.extend(u64::MAX.to_le_bytes());
                        label = "gkr proof with length 2^64-1".to_string();
                    },
                    _ => {
                        b.push(1);
                        b.push(0);
                        b.extend((1u64 << 40).to_le_bytes());
                        label = "gkr proof with length 2^40".to_string();
                    },
                }
            },
        }
        if b == self.base {
            return None;
        }
        Some((fam, label, b))
    }

    fn item_size(&self, ps: usize, pe: usize) -> usize {
        self.layout.fields.iter().filter(|f| f.off >= ps && f.off + f.len <= pe && matches!(f.kind, FKind::Elem | FKind::Digest)).map(|f| f.len).max().unwrap_or(1)
    }

    pub fn field_at(&self, off: usize) -> String {
        for f in self.layout.fields.iter() {
            if off >= f.off && off < f.off + f.len {
                // squeeze indexes so that labels can serve as classes
                return squeeze_idx(&f.name);
            }
        }
        "?".into()
    }

    pub fn field_kind_at(&self, off: usize) -> Option<(FKind, usize, usize)> {
        self.layout.fields.iter().find(|f| off >= f.off && off < f.off + f.len).map(|f| (f.kind, f.off, f.len))
    }
}

pub fn squeeze_idx(s: &str) -> String {
    let mut o = String::new();
    let mut in_br = false;
    for c in s.chars() {
        if c == '[' {
            in_br = true;
            o.push_str("[");
            continue;
        }
        if c == ']' {
            in_br = false;
            o.push_str("]");
            continue;
        }
        if in_br && c.is_ascii_digit() {
            if !o.ends_with('#') {
                o.push('#');
            }
            continue;
        }
        o.push(c);
    }
    o
}

fn classify(v: u64, orig: u64, mx: u64) -> &'static str {
    if v == 0 {
        "0"
    } else if v == 1 {
        "1"
    } else if v == mx {
        "max"
    } else if v == mx - 1 {
        "max-1"
    } else if v == orig.wrapping_add(1) & mx {
        "orig+1"
    } else {
        "orig-1"
    }
}
