//! Indexable space of mutants of a serialized proof, built on the layout codec.
use starkit::codec::{read_le, write_le, FKind, Layout};

#[derive(Clone, Copy, Debug, PartialEq, Eq)]
pub enum Fam {
    BitFlip,
    ByteValue,
    Truncate,
    Trailing,
    FieldValue,
    Resize,
    ElemValue,
    Swap,
    CountPair,
    Gkr,
    /// items added / removed / duplicated with every dependent count and length kept consistent
    Consistent,
    /// every pair of one-byte header fields (trace shape, options, query count) over a boundary alphabet squared
    HeaderPair,
}

/// boundary byte values for header fields: small counts, powers of two and their neighbours, the exponents at
/// which 2^a * 2^b leaves 32 / 64 bits, the extremes
pub const HEADER_VALUES: [u8; 30] = [0, 1, 2, 3, 4, 5, 7, 8, 9, 15, 16, 17, 24, 29, 30, 31, 32, 33, 40, 41, 56, 57, 61, 62, 63, 64, 65, 128, 254, 255];

/// one edit of a consistent multi-field mutant
#[derive(Clone, Debug)]
pub enum Edit {
    /// replace `remove` bytes at `off` by `insert`
    Splice { off: usize, remove: usize, insert: Vec<u8> },
    /// add `delta` to the little-endian integer field at `off`
    Add { off: usize, len: usize, delta: i64 },
    /// set the little-endian integer field at `off`
    Set { off: usize, len: usize, value: u64 },
    /// the whole byte string is replaced
    Replace(Vec<u8>),
}

pub struct MutSpace {
    pub base: Vec<u8>,
    pub layout: Layout,
    /// canonical bytes of p-1 for one base element
    pub pm1: Vec<u8>,
    pub ext: usize,
    fams: Vec<(Fam, u64)>,
    ctrl: Vec<usize>,   // indexes of Count/Len/Enum fields
    elems: Vec<usize>,  // indexes of Elem/Digest fields
    counts: Vec<usize>, // indexes of Count fields
    swaps: Vec<(usize, usize, usize)>, // (offset a, offset b, len) ranges to exchange
    scripts: Vec<(String, Vec<Edit>)>,
    header: Vec<usize>, // indexes of the one-byte fields of the context, the options and the proof header
}

const BYTE_VALUES: [u8; 5] = [0x00, 0x01, 0x7f, 0x80, 0xff];

impl MutSpace {
    pub fn new(base: Vec<u8>, layout: Layout, pm1: Vec<u8>, ext: usize, fams: &[Fam]) -> Self {
        let ctrl: Vec<usize> = layout.fields.iter().enumerate().filter(|(_, f)| matches!(f.kind, FKind::Count | FKind::Len | FKind::Enum)).map(|(i, _)| i).collect();
        let elems: Vec<usize> = layout.fields.iter().enumerate().filter(|(_, f)| matches!(f.kind, FKind::Elem | FKind::Digest)).map(|(i, _)| i).collect();
        let counts: Vec<usize> = layout.fields.iter().enumerate().filter(|(_, f)| matches!(f.kind, FKind::Count)).map(|(i, _)| i).collect();
        // exchanges of equally sized neighbouring items and of whole components
        let mut swaps = vec![];
        for w in elems.windows(2) {
            let (a, b) = (&layout.fields[w[0]], &layout.fields[w[1]]);
            if a.len == b.len && a.comp == b.comp && a.kind == b.kind && a.off + a.len == b.off {
                swaps.push((a.off, b.off, a.len));
            }
        }
        // first and last element of every component's payload (moves a value to a far position)
        for (_, _, _, ps, pe) in layout.components.iter() {
            let inside: Vec<&starkit::codec::Field> = layout.fields.iter().filter(|f| f.off >= *ps && f.off + f.len <= *pe && matches!(f.kind, FKind::Elem | FKind::Digest)).collect();
            if inside.len() >= 3 {
                let (a, b) = (inside[0], inside[inside.len() - 1]);
                if a.len == b.len {
                    swaps.push((a.off, b.off, a.len));
                }
            }
        }
        let header: Vec<usize> = layout.fields.iter().enumerate().filter(|(_, f)| f.len == 1 && matches!(f.comp, "context" | "options" | "proof") && matches!(f.kind, FKind::Count | FKind::Enum | FKind::Len)).map(|(i, _)| i).collect();
        let scripts = if fams.contains(&Fam::Consistent) {
            let mut sc = consistent_scripts(&base, &layout);
            sc.extend(extension_scripts(&base, &layout, pm1.len(), ext));
            sc.extend(options_grid_scripts(&base, &layout));
            sc
        } else {
            vec![]
        };
        let l = base.len() as u64;
        let mut f = vec![];
        for fam in fams {
            let n = match fam {
                Fam::BitFlip => 8 * l,
                Fam::ByteValue => 7 * l,
                Fam::Truncate => l,
                Fam::Trailing => 3,
                Fam::FieldValue => 6 * ctrl.len() as u64,
                Fam::Resize => 20 * layout.components.len() as u64,
                Fam::ElemValue => 4 * elems.len() as u64,
                Fam::Swap => swaps.len() as u64 + 4,
                Fam::CountPair => {
                    let c = counts.len() as u64;
                    c * c.saturating_sub(1) / 2 * 4
                },
                Fam::Gkr => 6,
                Fam::Consistent => scripts.len() as u64,
                Fam::HeaderPair => {
                    let h = header.len() as u64;
                    h * h.saturating_sub(1) / 2 * (HEADER_VALUES.len() * HEADER_VALUES.len()) as u64
                },
            };
            f.push((*fam, n));
        }
        MutSpace { base, layout, pm1, ext, fams: f, ctrl, elems, counts, swaps, scripts, header }
    }

    pub fn len(&self) -> u64 {
        self.fams.iter().map(|f| f.1).sum()
    }

    fn max_of(len: usize) -> u64 {
        if len >= 8 {
            u64::MAX
        } else {
            (1u64 << (8 * len)) - 1
        }
    }

    /// (family, human-readable label, mutated bytes); None when the mutant equals the original
    pub fn get(&self, mut idx: u64) -> Option<(Fam, String, Vec<u8>)> {
        let mut fam = Fam::BitFlip;
        for (f, n) in self.fams.iter() {
            if idx < *n {
                fam = *f;
                break;
            }
            idx -= n;
        }
        let mut b = self.base.clone();
        let label;
        match fam {
            Fam::BitFlip => {
                let (off, bit) = ((idx / 8) as usize, idx % 8);
                b[off] ^= 1 << bit;
                label = format!("bit {bit} of byte {off} flipped ({})", self.field_at(off));
            },
            Fam::ByteValue => {
                let (off, k) = ((idx / 7) as usize, (idx % 7) as usize);
                let v = match k {
                    0..=4 => BYTE_VALUES[k],
                    5 => b[off].wrapping_add(1),
                    _ => b[off].wrapping_sub(1),
                };
                if v == b[off] {
                    return None;
                }
                b[off] = v;
                label = format!("byte {off} set to {v:#04x} ({})", self.field_at(off));
            },
            Fam::Truncate => {
                b.truncate(idx as usize);
                label = format!("truncated to {idx} bytes");
            },
            Fam::Trailing => {
                let n = [1usize, 2, 8][idx as usize];
                b.extend(std::iter::repeat(0xA5).take(n));
                label = format!("{n} trailing garbage bytes");
            },
            Fam::FieldValue => {
                let f = &self.layout.fields[self.ctrl[(idx / 6) as usize]];
                if f.len > 8 {
                    return None;
                }
                let orig = read_le(&b, f.off, f.len);
                let mx = Self::max_of(f.len);
                let v = [0, 1, orig.wrapping_add(1) & mx, orig.wrapping_sub(1) & mx, mx - 1, mx][(idx % 6) as usize];
                if v == orig {
                    return None;
                }
                write_le(&mut b, f.off, f.len, v);
                label = format!("field {} set to {}", f.name, classify(v, orig, mx));
            },
            Fam::Resize => {
                let (name, lo, ll, ps, pe) = &self.layout.components[(idx / 20) as usize];
                let k = idx % 20;
                let item = self.item_size(*ps, *pe);
                // one byte, one item, one BASE-field element (less than an item for extension elements and digests), two
                // items, half an item
                let amounts = [1, item, self.pm1.len(), 2 * item, (item / 2).max(1)];
                let amount = amounts[(k / 4) as usize];
                // an amount already produced under an earlier label is not repeated
                if amounts[..(k / 4) as usize].contains(&amount) {
                    return None;
                }
                let extend = k & 2 != 0;
                let fix = k & 1 != 0;
                let cur = read_le(&b, *lo, *ll);
                if extend {
                    let ins: Vec<u8> = vec![0u8; amount];
                    b.splice(*pe..*pe, ins);
                    if fix {
                        write_le(&mut b, *lo, *ll, cur + amount as u64);
                    }
                } else {
                    if pe - ps < amount {
                        return None;
                    }
                    b.drain(pe - amount..*pe);
                    if fix {
                        write_le(&mut b, *lo, *ll, cur - amount as u64);
                    }
                }
                label = format!("component {name} {} by {} ({}) {} its length field", if extend { "extended" } else { "truncated" }, ["one byte", "one item", "one base-field element", "two items", "half an item"][(k / 4) as usize].to_string(), amount, if fix { "fixing" } else { "without fixing" });
            },
            Fam::ElemValue => {
                let fi = self.elems[(idx / 4) as usize];
                let f = &self.layout.fields[fi];
                let k = idx % 4;
                let newv: Vec<u8> = match k {
                    0 => vec![0u8; f.len],
                    1 => {
                        let mut v = vec![0u8; f.len];
                        v[0] = 1;
                        v
                    },
                    2 => {
                        if f.kind == FKind::Digest {
                            vec![0xFFu8; f.len]
                        } else {
                            let mut v = vec![];
                            while v.len() < f.len {
                                v.extend(&self.pm1);
                            }
                            v.truncate(f.len);
                            v
                        }
                    },
                    _ => {
                        // value of the neighbouring item of the same kind
                        let nb = if fi + 1 < self.layout.fields.len() && self.layout.fields[fi + 1].len == f.len && self.layout.fields[fi + 1].kind == f.kind { fi + 1 } else if fi > 0 && self.layout.fields[fi - 1].len == f.len && self.layout.fields[fi - 1].kind == f.kind { fi - 1 } else { return None };
                        let g = &self.layout.fields[nb];
                        b[g.off..g.off + g.len].to_vec()
                    },
                };
                if b[f.off..f.off + f.len] == newv[..] {
                    return None;
                }
                b[f.off..f.off + f.len].copy_from_slice(&newv);
                label = format!("{} replaced by {}", f.name, ["zero", "one", "p-1 / all ones", "its neighbour"][k as usize]);
            },
            Fam::Swap => {
                if (idx as usize) < self.swaps.len() {
                    let (a, c, len) = self.swaps[idx as usize];
                    let (x, y) = (b[a..a + len].to_vec(), b[c..c + len].to_vec());
                    if x == y {
                        return None;
                    }
                    b[a..a + len].copy_from_slice(&y);
                    b[c..c + len].copy_from_slice(&x);
                    label = format!("items at byte {a} and {c} exchanged ({})", self.field_at(a));
                } else {
                    // whole-component exchanges: (trace queries <-> constraint queries), (FRI layer 0 <-> 1)
                    let k = idx as usize - self.swaps.len();
                    let find = |n: &str| self.layout.components.iter().find(|c| c.0 == n).cloned();
                    let pair = match k {
                        0 => (find("trace_queries[main].values"), find("constraint_queries.values")),
                        1 => (find("trace_queries[main].paths"), find("constraint_queries.paths")),
                        2 => (find("fri.layer[0].values"), find("fri.layer[1].values")),
                        _ => (find("fri.layer[0].paths"), find("fri.layer[1].paths")),
                    };
                    let (Some(x), Some(y)) = pair else { return None };
                    // exchange (length field + payload) of both components; x precedes y
                    let xa = x.1..x.4;
                    let ya = y.1..y.4;
                    if xa.end > ya.start {
                        return None;
                    }
                    let xs = b[xa.clone()].to_vec();
                    let ys = b[ya.clone()].to_vec();
                    if xs == ys {
                        return None;
                    }
                    let mut nb = b[..xa.start].to_vec();
                    nb.extend(&ys);
                    nb.extend(&b[xa.end..ya.start]);
                    nb.extend(&xs);
                    nb.extend(&b[ya.end..]);
                    b = nb;
                    label = format!("components {} and {} exchanged", x.0, y.0);
                }
            },
            Fam::CountPair => {
                let c = self.counts.len();
                let combo = (idx % 4) as usize;
                let mut pi = (idx / 4) as usize;
                let (mut i, mut j) = (0, 1);
                'o: for a in 0..c {
                    for bb in a + 1..c {
                        if pi == 0 {
                            i = a;
                            j = bb;
                            break 'o;
                        }
                        pi -= 1;
                    }
                }
                let (f, g) = (&self.layout.fields[self.counts[i]], &self.layout.fields[self.counts[j]]);
                let vf = if combo & 1 == 0 { 0 } else { Self::max_of(f.len) };
                let vg = if combo & 2 == 0 { 0 } else { Self::max_of(g.len) };
                write_le(&mut b, f.off, f.len, vf);
                write_le(&mut b, g.off, g.len, vg);
                label = format!("count fields {} and {} set to {} / {}", f.name, g.name, if vf == 0 { "0" } else { "max" }, if vg == 0 { "0" } else { "max" });
            },
            Fam::HeaderPair => {
                let nv = HEADER_VALUES.len() as u64;
                let (vi, vj) = ((idx % nv) as usize, ((idx / nv) % nv) as usize);
                let mut pi = (idx / (nv * nv)) as usize;
                let h = self.header.len();
                let (mut i, mut j) = (0, 1);
                'o: for a in 0..h {
                    for bb in a + 1..h {
                        if pi == 0 {
                            i = a;
                            j = bb;
                            break 'o;
                        }
                        pi -= 1;
                    }
                }
                let (f, g) = (&self.layout.fields[self.header[i]], &self.layout.fields[self.header[j]]);
                b[f.off] = HEADER_VALUES[vi];
                b[g.off] = HEADER_VALUES[vj];
                label = format!("header fields {} and {} set to {} / {}", f.name, g.name, HEADER_VALUES[vi], HEADER_VALUES[vj]);
            },
            Fam::Consistent => {
                let (l, edits) = &self.scripts[idx as usize];
                // apply from the highest offset down so that earlier offsets stay valid
                let mut es = edits.clone();
                es.sort_by_key(|e| std::cmp::Reverse(match e {
                    Edit::Splice { off, .. } | Edit::Add { off, .. } | Edit::Set { off, .. } => *off,
                    Edit::Replace(_) => usize::MAX,
                }));
                for e in es {
                    match e {
                        Edit::Splice { off, remove, insert } => {
                            b.splice(off..off + remove, insert);
                        },
                        Edit::Add { off, len, delta } => {
                            let cur = read_le(&b, off, len) as i64;
                            let nv = cur + delta;
                            if nv < 0 || (len < 8 && nv as u64 > Self::max_of(len)) {
                                return None;
                            }
                            write_le(&mut b, off, len, nv as u64);
                        },
                        Edit::Set { off, len, value } => write_le(&mut b, off, len, value),
                        Edit::Replace(nb) => b = nb,
                    }
                }
                label = l.clone();
            },
            Fam::Gkr => {
                let f = self.layout.fields.iter().find(|f| f.name == "gkr.flag")?;
                let had = b[f.off] == 1;
                b.truncate(f.off);
                match idx {
                    0 => {
                        if !had {
                            return None;
                        }
                        b.push(0);
                        label = "gkr proof removed".to_string();
                    },
                    1..=3 => {
                        let n = [0usize, 1, 8][idx as usize - 1];
                        b.push(1);
                        b.push(((n as u8) << 1) | 1);
                        b.extend(std::iter::repeat(0x42).take(n));
                        label = format!("gkr proof set to Some({n} junk bytes)");
                    },
                    4 => {
                        // a length that promises far more than the input holds
                        b.push(1);
                        b.push(0);
                        b.extend(u64::MAX.to_le_bytes());
                        label = "gkr proof with length 2^64-1".to_string();
                    },
                    _ => {
                        b.push(1);
                        b.push(0);
                        b.extend((1u64 << 40).to_le_bytes());
                        label = "gkr proof with length 2^40".to_string();
                    },
                }
            },
        }
        if b == self.base {
            return None;
        }
        Some((fam, label, b))
    }

    fn item_size(&self, ps: usize, pe: usize) -> usize {
        self.layout.fields.iter().filter(|f| f.off >= ps && f.off + f.len <= pe && matches!(f.kind, FKind::Elem | FKind::Digest)).map(|f| f.len).max().unwrap_or(1)
    }

    pub fn field_at(&self, off: usize) -> String {
        for f in self.layout.fields.iter() {
            if off >= f.off && off < f.off + f.len {
                // squeeze indexes so that labels can serve as classes
                return squeeze_idx(&f.name);
            }
        }
        "?".into()
    }

    pub fn field_kind_at(&self, off: usize) -> Option<(FKind, usize, usize)> {
        self.layout.fields.iter().find(|f| off >= f.off && off < f.off + f.len).map(|f| (f.kind, f.off, f.len))
    }
}

pub fn squeeze_idx(s: &str) -> String {
    let mut o = String::new();
    let mut in_br = false;
    for c in s.chars() {
        if c == '[' {
            in_br = true;
            o.push_str("[");
            continue;
        }
        if c == ']' {
            in_br = false;
            o.push_str("]");
            continue;
        }
        if in_br && c.is_ascii_digit() {
            if !o.ends_with('#') {
                o.push('#');
            }
            continue;
        }
        o.push(c);
    }
    o
}

fn classify(v: u64, orig: u64, mx: u64) -> &'static str {
    if v == 0 {
        "0"
    } else if v == 1 {
        "1"
    } else if v == mx {
        "max"
    } else if v == mx - 1 {
        "max-1"
    } else if v == orig.wrapping_add(1) & mx {
        "orig+1"
    } else {
        "orig-1"
    }
}


/// Structure-consistent mutants: the proof's item counts are changed together with the payloads and
/// lengths that depend on them, so that the byte string still parses (a deviation that single-field
/// edits cannot reach, because the parser rejects the inconsistency first).
pub fn consistent_scripts(b: &[u8], lay: &Layout) -> Vec<(String, Vec<Edit>)> {
    let mut out: Vec<(String, Vec<Edit>)> = vec![];
    let field = |n: &str| lay.fields.iter().find(|f| f.name == n);
    let comp = |n: &str| lay.components.iter().find(|c| c.0 == n);
    // ---- the field modulus the proof claims (it feeds the security estimate before anything else is checked)
    if let Some((_, lo, ll, ps, pe)) = comp("modulus") {
        let n = pe - ps;
        for (what, low) in [("0", vec![0u8]), ("1", vec![1]), ("2", vec![2]), ("255", vec![255]), ("2^16-1", vec![255, 255]), ("2^24", vec![0, 0, 0, 1]), ("2^32-1", vec![255, 255, 255, 255])] {
            if low.len() <= n {
                let mut v = vec![0u8; n];
                v[..low.len()].copy_from_slice(&low);
                out.push((format!("context: field modulus replaced by {what} (same length)"), vec![Edit::Splice { off: *ps, remove: n, insert: v }]));
            }
            out.push((format!("context: field modulus replaced by {what} (shortest encoding, length fixed)"), vec![Edit::Set { off: *lo, len: *ll, value: low.len() as u64 }, Edit::Splice { off: *ps, remove: n, insert: low.clone() }]));
        }
        // the moduli of the three supported fields: a proof that claims another field than the computation's
        for (what, m) in [("the 62-bit field's modulus", 4611624995532046337u128), ("the 64-bit field's modulus", 18446744069414584321u128), ("the 128-bit field's modulus", 340282366920938463463374557953744961537u128)] {
            let full = m.to_le_bytes();
            let len = if m < (1u128 << 64) { 8 } else { 16 };
            let v = full[..len].to_vec();
            if v != b[*ps..*pe] {
                out.push((format!("context: field modulus replaced by {what}"), vec![Edit::Set { off: *lo, len: *ll, value: len as u64 }, Edit::Splice { off: *ps, remove: n, insert: v }]));
            }
        }
        out.push(("context: field modulus of length 0".into(), vec![Edit::Set { off: *lo, len: *ll, value: 0 }, Edit::Splice { off: *ps, remove: n, insert: vec![] }]));
        out.push(("context: field modulus of 255 bytes".into(), vec![Edit::Set { off: *lo, len: *ll, value: 255 }, Edit::Splice { off: *ps, remove: n, insert: vec![0xffu8; 255] }]));
    }
    // ---- the proof-of-work nonce replaced by values that a non-injective absorption would confuse with it
    if let Some(nf) = field("pow_nonce") {
        let n0 = read_le(b, nf.off, 8);
        let (m62, m64) = (4611624995532046337u64, 18446744069414584321u64);
        let mut vals: Vec<u64> = vec![0, 1, n0.wrapping_add(1), m62, m64, 1 << 63, u64::MAX];
        // neighbours of the nonce: a coin that uses the nonce as an offset into one stream instead of absorbing it
        // draws overlapping windows for them
        for d in 1..=4u64 {
            vals.push(n0.wrapping_add(d));
            vals.push(n0.wrapping_sub(d));
        }
        for k in 1..=3u64 {
            vals.push(n0.wrapping_add(m62.wrapping_mul(k)));
        }
        vals.push(n0.wrapping_add(m64));
        vals.push(n0.wrapping_sub(m64));
        vals.sort();
        vals.dedup();
        for v in vals {
            if v != n0 {
                out.push((format!("proof-of-work nonce replaced by {}", if v == m62 { "the 62-bit modulus".to_string() } else if v == m64 { "the 64-bit modulus".to_string() } else if v == n0.wrapping_add(m64) || v == n0.wrapping_sub(m64) { "nonce +- the 64-bit modulus".to_string() } else if v.wrapping_sub(n0) % m62 == 0 { "nonce + a multiple of the 62-bit modulus".to_string() } else { format!("{v:#x}") }), vec![Edit::Splice { off: nf.off, remove: 8, insert: v.to_le_bytes().to_vec() }]));
            }
        }
    }
    // ---- FRI layers
    if let Some(nlf) = field("fri.num_layers") {
        let nl = b[nlf.off] as usize;
        let layer_range = |l: usize| -> Option<(usize, usize)> {
            let s = field(&format!("fri.layer[{l}].values_len"))?.off;
            let e = comp(&format!("fri.layer[{l}].paths"))?.4;
            Some((s, e))
        };
        let end_of_layers = if nl > 0 { layer_range(nl - 1).map(|r| r.1) } else { Some(nlf.off + 1) };
        if let Some(end) = end_of_layers {
            let bump = |d: i64| Edit::Add { off: nlf.off, len: 1, delta: d };
            if nl >= 1 {
                if let Some((s, e)) = layer_range(nl - 1) {
                    out.push(("FRI: copy of the last layer appended (layer count + 1)".into(), vec![bump(1), Edit::Splice { off: end, remove: 0, insert: b[s..e].to_vec() }]));
                    out.push(("FRI: last layer removed (layer count - 1)".into(), vec![bump(-1), Edit::Splice { off: s, remove: e - s, insert: vec![] }]));
                }
                if let Some((s, e)) = layer_range(0) {
                    if nl >= 2 {
                        out.push(("FRI: copy of the first layer appended (layer count + 1)".into(), vec![bump(1), Edit::Splice { off: end, remove: 0, insert: b[s..e].to_vec() }]));
                        out.push(("FRI: first layer removed (layer count - 1)".into(), vec![bump(-1), Edit::Splice { off: s, remove: e - s, insert: vec![] }]));
                    }
                    out.push(("FRI: copy of the first layer prepended (layer count + 1)".into(), vec![bump(1), Edit::Splice { off: s, remove: 0, insert: b[s..e].to_vec() }]));
                }
            }
            out.push(("FRI: an empty layer appended (layer count + 1)".into(), vec![bump(1), Edit::Splice { off: end, remove: 0, insert: vec![0u8; 8] }]));
        }
        if let Some((_, lo, ll, ps, pe)) = comp("fri.remainder") {
            let n = pe - ps;
            out.push(("FRI: remainder padded with zero coefficients to twice its length".into(), vec![Edit::Add { off: *lo, len: *ll, delta: n as i64 }, Edit::Splice { off: *pe, remove: 0, insert: vec![0u8; n] }]));
            out.push(("FRI: remainder repeated twice".into(), vec![Edit::Add { off: *lo, len: *ll, delta: n as i64 }, Edit::Splice { off: *pe, remove: 0, insert: b[*ps..*pe].to_vec() }]));
            if n >= 2 && n % 2 == 0 {
                out.push(("FRI: upper half of the remainder removed".into(), vec![Edit::Add { off: *lo, len: *ll, delta: -((n / 2) as i64) }, Edit::Splice { off: ps + n / 2, remove: n / 2, insert: vec![] }]));
            }
        }
    }
    // ---- OOD frame: frame size against the number of states
    if let (Some(fs), Some((_, lo, ll, ps, pe))) = (field("ood.frame_size"), comp("ood.trace_states")) {
        let (s, e) = (ps + 1, *pe); // states after the frame-size byte
        let n = e - s;
        let set = |v: u64| Edit::Set { off: fs.off, len: 1, value: v };
        if n >= 2 && n % 2 == 0 {
            out.push(("OOD: frame size 1 with the first half of the states".into(), vec![set(1), Edit::Add { off: *lo, len: *ll, delta: -((n / 2) as i64) }, Edit::Splice { off: s + n / 2, remove: n / 2, insert: vec![] }]));
            out.push(("OOD: frame size 3 with half of the states repeated".into(), vec![set(3), Edit::Add { off: *lo, len: *ll, delta: (n / 2) as i64 }, Edit::Splice { off: e, remove: 0, insert: b[s..s + n / 2].to_vec() }]));
        }
        out.push(("OOD: frame size 4 with all states repeated".into(), vec![set(4), Edit::Add { off: *lo, len: *ll, delta: n as i64 }, Edit::Splice { off: e, remove: 0, insert: b[s..e].to_vec() }]));
        out.push(("OOD: frame size 0 with no states".into(), vec![set(0), Edit::Add { off: *lo, len: *ll, delta: -(n as i64) }, Edit::Splice { off: s, remove: n, insert: vec![] }]));
    }
    // ---- Lagrange frame: count against the elements
    if let Some((_, lo, ll, ps, pe)) = comp("ood.lagrange") {
        let elem = lay.fields.iter().find(|f| f.name.starts_with("ood.evaluation[")).map(|f| f.len).unwrap_or(8);
        if pe > ps {
            let cnt = b[*ps] as usize;
            let cf = *ps;
            let last = if cnt > 0 { b[pe - elem..*pe].to_vec() } else { vec![0u8; elem] };
            out.push(("OOD: one more Lagrange-kernel state (count + 1)".into(), vec![Edit::Add { off: cf, len: 1, delta: 1 }, Edit::Add { off: *lo, len: *ll, delta: elem as i64 }, Edit::Splice { off: *pe, remove: 0, insert: last.clone() }]));
            if cnt == 0 {
                let mut two = last.clone();
                two.extend(&last);
                out.push(("OOD: two Lagrange-kernel states where there were none".into(), vec![Edit::Set { off: cf, len: 1, value: 2 }, Edit::Add { off: *lo, len: *ll, delta: 2 * elem as i64 }, Edit::Splice { off: *pe, remove: 0, insert: two }]));
            } else {
                out.push(("OOD: last Lagrange-kernel state removed (count - 1)".into(), vec![Edit::Add { off: cf, len: 1, delta: -1 }, Edit::Add { off: *lo, len: *ll, delta: -(elem as i64) }, Edit::Splice { off: pe - elem, remove: elem, insert: vec![] }]));
                out.push(("OOD: all Lagrange-kernel states removed (count 0)".into(), vec![Edit::Set { off: cf, len: 1, value: 0 }, Edit::Add { off: *lo, len: *ll, delta: -((pe - ps - 1) as i64) }, Edit::Splice { off: ps + 1, remove: pe - ps - 1, insert: vec![] }]));
            }
        }
    }
    // ---- Merkle paths: node counts against the nodes, vector count against the vectors
    for (name, lo, ll, ps, pe) in lay.components.iter().filter(|c| c.0.ends_with(".paths")) {
        if pe == ps {
            continue;
        }
        let nvf = lay.fields.iter().find(|f| f.off == *ps);
        let Some(nvf) = nvf else { continue };
        out.push((format!("{name}: an empty node vector appended (vector count + 1)"), vec![Edit::Add { off: nvf.off, len: 1, delta: 1 }, Edit::Add { off: *lo, len: *ll, delta: 1 }, Edit::Splice { off: *pe, remove: 0, insert: vec![0u8] }]));
        let counts: Vec<&starkit::codec::Field> = lay.fields.iter().filter(|f| f.off > *ps && f.off < *pe && f.kind == FKind::Count && f.name.ends_with(".count")).collect();
        for (vi, cf) in counts.iter().enumerate() {
            let c = b[cf.off] as usize;
            // nodes of this vector follow its count byte
            let dl = lay.fields.iter().find(|f| f.off == cf.off + 1 && f.kind == FKind::Digest).map(|f| f.len);
            if let Some(dl) = dl {
                let end = cf.off + 1 + c * dl;
                if end <= *pe && c >= 1 {
                    out.push((format!("{name}: last node of vector {vi} removed (count - 1)"), vec![Edit::Add { off: cf.off, len: 1, delta: -1 }, Edit::Add { off: *lo, len: *ll, delta: -(dl as i64) }, Edit::Splice { off: end - dl, remove: dl, insert: vec![] }]));
                    out.push((format!("{name}: first node of vector {vi} removed (count - 1)"), vec![Edit::Add { off: cf.off, len: 1, delta: -1 }, Edit::Add { off: *lo, len: *ll, delta: -(dl as i64) }, Edit::Splice { off: cf.off + 1, remove: dl, insert: vec![] }]));
                    out.push((format!("{name}: last node of vector {vi} repeated (count + 1)"), vec![Edit::Add { off: cf.off, len: 1, delta: 1 }, Edit::Add { off: *lo, len: *ll, delta: dl as i64 }, Edit::Splice { off: end, remove: 0, insert: b[end - dl..end].to_vec() }]));
                    out.push((format!("{name}: all nodes of vector {vi} removed (count 0)"), vec![Edit::Set { off: cf.off, len: 1, value: 0 }, Edit::Add { off: *lo, len: *ll, delta: -((c * dl) as i64) }, Edit::Splice { off: cf.off + 1, remove: c * dl, insert: vec![] }]));
                }
            }
        }
    }
    // ---- query tables: a row removed / repeated together with the number of unique queries
    if let Some(nq) = field("num_unique_queries") {
        let q = b[nq.off] as usize;
        let tables: Vec<&(String, usize, usize, usize, usize)> = lay.components.iter().filter(|c| c.0.ends_with(".values") && !c.0.starts_with("fri.")).collect();
        if q >= 2 && tables.iter().all(|t| (t.4 - t.3) % q == 0 && t.4 > t.3) {
            let mut rm = vec![Edit::Add { off: nq.off, len: 1, delta: -1 }];
            let mut dup = vec![Edit::Add { off: nq.off, len: 1, delta: 1 }];
            for (_, lo, ll, ps, pe) in tables.iter().map(|t| (*t).clone()) {
                let row = (pe - ps) / q;
                rm.push(Edit::Add { off: lo, len: ll, delta: -(row as i64) });
                rm.push(Edit::Splice { off: pe - row, remove: row, insert: vec![] });
                dup.push(Edit::Add { off: lo, len: ll, delta: row as i64 });
                dup.push(Edit::Splice { off: pe, remove: 0, insert: b[pe - row..pe].to_vec() });
            }
            out.push(("queries: last row of every query table removed (unique query count - 1)".into(), rm));
            out.push(("queries: last row of every query table repeated (unique query count + 1)".into(), dup));
        }
    }
    out
}


/// The proof re-encoded for another extension degree: the extension byte is changed and EVERY extension-field
/// element of the proof (auxiliary and constraint query values, out-of-domain frames, FRI layer values,
/// remainder) is widened with zero coefficients or narrowed to its leading coefficients, all lengths fixed - a
/// byte string that parses as a proof over the other extension.
pub fn extension_scripts(b: &[u8], lay: &Layout, base: usize, ext: usize) -> Vec<(String, Vec<Edit>)> {
    let mut out = vec![];
    let Some(ef) = lay.fields.iter().find(|f| f.name == "field_extension") else { return out };
    let is_ext_elem = |name: &str| -> bool {
        name.starts_with("trace_queries[aux].value[") || name.starts_with("constraint_queries.value[") || name.starts_with("ood.trace_state[") || name.starts_with("ood.lagrange_state[") || name.starts_with("ood.evaluation[") || (name.starts_with("fri.layer[") && name.contains(".value[")) || name.starts_with("fri.remainder[")
    };
    let ext_len_fields = ["trace_queries[aux].values_len", "constraint_queries.values_len", "ood.trace_states_len", "ood.lagrange_len", "ood.evaluations_len", "fri.remainder_len"];
    for target in [1usize, 2, 3] {
        if target == ext {
            continue;
        }
        let (e_old, e_new) = (ext * base, target * base);
        let mut nb: Vec<u8> = Vec::with_capacity(b.len() * target / ext + 16);
        let mut ok = true;
        for f in lay.fields.iter() {
            let bytes = &b[f.off..f.off + f.len];
            if f.name == ef.name {
                nb.push(target as u8);
            } else if is_ext_elem(&f.name) && f.len == e_old {
                if e_new >= e_old {
                    nb.extend_from_slice(bytes);
                    nb.extend(std::iter::repeat(0u8).take(e_new - e_old));
                } else {
                    nb.extend_from_slice(&bytes[..e_new]);
                }
            } else if ext_len_fields.contains(&f.name.as_str()) || (f.name.starts_with("fri.layer[") && f.name.ends_with(".values_len")) {
                let old = read_le(b, f.off, f.len) as usize;
                // the out-of-domain components carry one count byte in front of their elements
                let head = if f.name == "ood.trace_states_len" || f.name == "ood.lagrange_len" { old.min(1) } else { 0 };
                if (old - head) % e_old != 0 {
                    ok = false;
                    break;
                }
                let new = (old - head) / e_old * e_new + head;
                let mut w = vec![0u8; f.len];
                write_le(&mut w, 0, f.len, new as u64);
                nb.extend(w);
            } else {
                nb.extend_from_slice(bytes);
            }
        }
        if ok {
            out.push((format!("proof re-encoded for extension degree {target} (every extension element {}, all lengths fixed)", if target > ext { "widened with zero coefficients" } else { "narrowed to its leading coefficients" }), vec![Edit::Replace(nb)]));
        }
    }
    out
}


/// The proof re-labelled with other options: (log2 trace length, blowup, folding factor, remainder degree) over a
/// small grid - including schedules the options constructor accepts although they fold a layer down to nothing -
/// with the number of FRI layers and of FRI commitments adjusted to what those options imply (layers repeated or
/// dropped), so that the option-dependent parsing stages are reached instead of an early count mismatch.
pub fn options_grid_scripts(b: &[u8], lay: &Layout) -> Vec<(String, Vec<Edit>)> {
    let mut out = vec![];
    let field = |n: &str| lay.fields.iter().find(|f| f.name == n);
    let comp = |n: &str| lay.components.iter().find(|c| c.0 == n);
    let (Some(fl), Some(fb), Some(ff), Some(fr), Some(fnl), Some(faux)) = (field("log2_trace_length"), field("blowup_factor"), field("fri_folding_factor"), field("fri_remainder_max_degree"), field("fri.num_layers"), field("aux_width")) else { return out };
    let Some((_, clo, cll, cps, cpe)) = comp("commitments") else { return out };
    let Some(rem_len) = field("fri.remainder_len") else { return out };
    let dlen = lay.fields.iter().find(|f| f.name == "commitment[0]").map(|f| f.len).unwrap_or(32);
    let nl = b[fnl.off] as usize;
    let fixed_roots = 1 + (b[faux.off] > 0) as usize + 1; // trace roots + constraint root
    let digests: Vec<&[u8]> = b[*cps..*cpe].chunks(dlen).collect();
    if digests.len() < fixed_roots + 1 {
        return out;
    }
    let layer_range = |l: usize| -> Option<(usize, usize)> {
        let s = lay.fields.iter().find(|f| f.name == format!("fri.layer[{l}].values_len"))?.off;
        let e = lay.components.iter().find(|c| c.0 == format!("fri.layer[{l}].paths"))?.4;
        Some((s, e))
    };
    let layers: Vec<Vec<u8>> = (0..nl).filter_map(|l| layer_range(l).map(|(s, e)| b[s..e].to_vec())).collect();
    if layers.len() != nl {
        return out;
    }
    let layers_start = fnl.off + 1;
    let layers_end = rem_len.off;
    for ll in [3u8, 4, 5, 6] {
        for blowup in [2u8, 4, 8, 16] {
            for folding in [2u8, 4, 8, 16] {
                for rem in [0u8, 1, 3, 7, 15, 255] {
                    // number of layers as FriOptions::num_fri_layers computes it (the domain may be folded to nothing)
                    let mut domain = (1usize << ll) * blowup as usize;
                    let max_rem = (rem as usize + 1) * blowup as usize;
                    let mut want = 0usize;
                    while domain > max_rem && want < 12 {
                        domain /= folding as usize;
                        want += 1;
                    }
                    let mut nb: Vec<u8> = Vec::with_capacity(b.len() + 256);
                    nb.extend_from_slice(&b[..*clo]);
                    // commitments: fixed roots, then want + 1 FRI roots
                    let mut cm: Vec<u8> = vec![];
                    for d in digests.iter().take(fixed_roots) {
                        cm.extend_from_slice(d);
                    }
                    for k in 0..=want {
                        let src = digests.get(fixed_roots + k).copied().unwrap_or(digests[digests.len() - 1]);
                        cm.extend_from_slice(src);
                    }
                    let mut lenb = vec![0u8; *cll];
                    write_le(&mut lenb, 0, *cll, cm.len() as u64);
                    nb.extend(lenb);
                    nb.extend(cm);
                    nb.extend_from_slice(&b[*cpe..fnl.off]);
                    nb.push(want as u8);
                    for k in 0..want {
                        match layers.get(k).or(layers.last()) {
                            Some(l) => nb.extend_from_slice(l),
                            None => nb.extend_from_slice(&[0u8; 8]),
                        }
                    }
                    let _ = (layers_start, layers_end);
                    nb.extend_from_slice(&b[layers_end..]);
                    // header fields (all before the commitments, offsets unchanged)
                    nb[fl.off] = ll;
                    nb[fb.off] = blowup;
                    nb[ff.off] = folding;
                    nb[fr.off] = rem;
                    if nb != b {
                        out.push((format!("options relabelled: log2(n) = {ll}, blowup {blowup}, folding {folding}, remainder degree {rem}, FRI layers and commitments adjusted to {want}"), vec![Edit::Replace(nb)]));
                    }
                }
            }
        }
    }
    out
}
