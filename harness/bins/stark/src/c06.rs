//! C06 — untrusted input: parsing arbitrary bytes as a proof and verifying any parsed proof against
//! any public inputs always returns; it never panics, aborts, overflows or over-allocates.
//! Near-valid mutation closure of seed proofs; every mutant is parsed and, if it parses, verified
//! against matching / different / minimal public inputs and three acceptance policies.
use std::sync::Arc;

use air::proof::Proof;
use crypto::ElementHasher;
use glue::Fld;
use kit::engine::sub_t;
use kit::{json, CaseOut, Run, Sub};
use starkit::codec;
use starkit::{dispatch, pair_has_cubic, verify_with, AKind, ASpec, AirSpec, Aux, Coin, PairFn, Rule, SpecPub, Statement, Tail, VerifyOutcome, PAIRS};
use verifier::AcceptableOptions;

use crate::c03::{make_seed, seed_points};
use crate::family;
use crate::mutate::{Fam, MutSpace};

/// Bound on a single allocation request of the parser: PARSE_FACTOR x input length + ALLOC_SLACK bytes.
pub const PARSE_FACTOR: usize = 16;
pub const ALLOC_SLACK: usize = 64 << 10;
/// Bound on a single allocation request of verify(): VERIFY_FACTOR x (input + 16 x claimed trace length) + ALLOC_SLACK
pub const VERIFY_FACTOR: usize = 64;

fn alloc_class(what: &str, max_request: usize, reference: usize) -> String {
    let r = max_request as f64 / (reference.max(1) as f64);
    let c = if max_request <= 4096 {
        "<= 4 KiB"
    } else if r <= 1.0 {
        "<= 1 x reference"
    } else if r <= 4.0 {
        "<= 4 x reference"
    } else if r <= 16.0 {
        "<= 16 x reference"
    } else if r <= 256.0 {
        "<= 256 x reference"
    } else {
        "> 256 x reference"
    };
    format!("largest single allocation during {what}: {c}")
}

pub const C06_FAMS: [Fam; 12] = [Fam::BitFlip, Fam::ByteValue, Fam::Truncate, Fam::Trailing, Fam::FieldValue, Fam::Resize, Fam::ElemValue, Fam::Swap, Fam::CountPair, Fam::Gkr, Fam::Consistent, Fam::HeaderPair];

struct Hostile<'a> {
    st: &'a Statement,
    out: &'a mut CaseOut,
    pair: usize,
    label: &'static str,
    idx_range: (u64, u64),
    thorough: bool,
}

fn other_pubs<B: Fld>(pubs: &SpecPub<B>) -> Vec<SpecPub<B>> {
    // a different description of another shape, and a minimal one
    let wide = AirSpec {
        n: 64,
        rules: vec![Rule::Pow { d: 3, c: 1 }, Rule::FibA, Rule::FibB, Rule::Periodic { cycle: 8, c: 2 }],
        exemptions: 5,
        asserts: vec![ASpec { col: 3, kind: AKind::Sequence { first: 1, stride: 4 } }, ASpec { col: 1, kind: AKind::Single(63) }],
        aux: Aux::SumLagrange { cols: 2, rands: 2 },
        aux_pow: 1,
        tail: Tail::Continue,
        init: 1,
    };
    let minimal = AirSpec { n: 8, rules: vec![Rule::Pow { d: 1, c: 0 }], exemptions: 1, asserts: vec![ASpec { col: 0, kind: AKind::Single(0) }], aux: Aux::None, aux_pow: 1, tail: Tail::Continue, init: 0 };
    vec![
        pubs.clone(),
        SpecPub { spec: Arc::new(wide), values: vec![vec![B::ONE; 16], vec![B::ZERO]], extra: vec![] },
        SpecPub { spec: Arc::new(minimal), values: vec![], extra: vec![] },
    ]
}

impl<'a> PairFn for Hostile<'a> {
    type Out = ();
    fn call<B: Fld, H: ElementHasher<BaseField = B> + Send + Sync + 'static>(self)
    where
        H::Digest: 'static,
    {
        let Hostile { st, out, pair, label, idx_range, thorough: self_thorough } = self;
        let pname = PAIRS[pair];
        let (bytes, pubs, dlen): (Vec<u8>, SpecPub<B>, usize) = match label {
            "dummy proof" => {
                let (_, _, pubs) = starkit::build_statement::<B>(st);
                (Proof::new_dummy().to_bytes(), pubs, 24)
            },
            _ => match make_seed::<B, H>(st) {
                Ok(s) => (s.bytes, s.pubs, s.dlen),
                Err(e) => {
                    out.violation(format!("HARNESS: {pname}: {e}"), json!({"seed": label}));
                    return;
                },
            },
        };
        let ext = if label == "dummy proof" { 1 } else { st.opts.ext as usize };
        let elem = if label == "dummy proof" { 8 } else { B::ELEMENT_BYTES };
        let lay = if label == "dummy proof" {
            // the dummy proof has no trace queries at all: only the byte-level families apply
            codec::Layout { fields: vec![], total: bytes.len(), components: vec![] }
        } else {
            match codec::layout(&bytes, dlen, elem, ext) {
                Ok(l) => l,
                Err(e) => {
                    out.violation(format!("HARNESS: {pname}: layout codec does not tile the proof: {e}"), json!({"seed": label}));
                    return;
                },
            }
        };
        let mut pm1 = (B::P - 1).to_le_bytes().to_vec();
        pm1.truncate(B::ELEMENT_BYTES);
        let fams: Vec<Fam> = if self_thorough { C06_FAMS.to_vec() } else { C06_FAMS.iter().cloned().filter(|f| *f != Fam::ByteValue || label == "zero FRI layers").collect() };
        let space = MutSpace::new(bytes, lay, pm1, ext, &fams);
        let pub_sets = other_pubs(&pubs);
        let policies = [AcceptableOptions::MinConjecturedSecurity(0), AcceptableOptions::MinProvenSecurity(0), AcceptableOptions::OptionSet(vec![st.opts.to_options()])];
        let (lo, hi) = idx_range;
        let hi = hi.min(space.len());
        let mut n = 0u64;
        for idx in lo..hi {
            let Some((fam, mlabel, mbytes)) = space.get(idx) else { continue };
            n += 1;
            let mclass = || format!("{:?}: {}", fam, crate::mutate::squeeze_idx(&crate::c01::squeeze(&mlabel)));
            let info = || json!({"pair": pname, "seed": label, "mutation": mlabel, "mutant_index": idx, "input_len": mbytes.len()});
            let (parsed, meter) = kit::alloc::measure(|| kit::pan::catch(|| Proof::from_bytes(&mbytes)));
            // memory: no single request of the parser may exceed a small multiple of the input (decoded values are no
            // larger than their encoding; a growing vector at most doubles)
            let parse_limit = PARSE_FACTOR * mbytes.len() + ALLOC_SLACK;
            if meter.max_request > parse_limit {
                out.violation(
                    format!("Proof::from_bytes requests memory out of proportion to its input (one allocation above {PARSE_FACTOR} x input + {} KiB)", ALLOC_SLACK >> 10),
                    json!({"case": info(), "mutation_class": mclass(), "largest_request_bytes": meter.max_request, "sum_of_requests_bytes": meter.sum_requests}),
                );
            }
            out.class(&alloc_class("parse", meter.max_request, mbytes.len()));
            let p2 = match parsed {
                Ok(Ok(p)) => p,
                Ok(Err(_)) => {
                    out.class("rejected by the parser");
                    continue;
                },
                Err(p) => {
                    out.violation(format!("Proof::from_bytes panics: {}", p.class()), json!({"case": info(), "mutation_class": mclass(), "panic": p.msg}));
                    continue;
                },
            };
            // re-serialization of anything that parsed must not panic either
            if let Err(p) = kit::pan::catch(|| p2.to_bytes()) {
                out.violation(format!("Proof::to_bytes panics on a parsed proof: {}", p.class()), info());
            }
            for (pi, ps) in pub_sets.iter().enumerate() {
                // matching inputs under the lenient policy for every mutant; the other policies and the
                // other public inputs for every structural mutant and on a lattice of the byte-level ones
                let structural = !matches!(fam, Fam::BitFlip | Fam::ByteValue | Fam::Truncate);
                let dense = self_thorough || structural || idx % 8 == 0;
                if pi > 0 && !dense {
                    continue;
                }
                let pols: &[AcceptableOptions] = if pi == 0 && dense { &policies } else { &policies[..1] };
                for pol in pols {
                    let pc = p2.clone();
                    let claimed_n: usize = p2.context.trace_info().length();
                    let (res, meter) = kit::alloc::measure(|| verify_with::<B, H, Coin<H>>(pc, ps, pol));
                    let reference = mbytes.len() + claimed_n.min(1usize << 40) * 16;
                    out.class(&alloc_class("verify", meter.max_request, reference));
                    // memory: the verifier works on the openings, the out-of-domain frame and the FRI proof (all inside
                    // the input) and on per-column / per-cycle tables of the computation description; the harness AIR
                    // itself holds up to trace-length many asserted values and periodic values. Nothing needs a table
                    // of the size of the LDE domain, let alone of an untrusted count.
                    if claimed_n <= (1 << 20) && meter.max_request > VERIFY_FACTOR * reference + ALLOC_SLACK {
                        out.violation(
                            format!("verify requests memory out of proportion to its input (one allocation above {VERIFY_FACTOR} x (input + 16 x claimed trace length) + {} KiB)", ALLOC_SLACK >> 10),
                            json!({"case": info(), "mutation_class": mclass(), "largest_request_bytes": meter.max_request, "claimed_trace_length": claimed_n, "public_inputs": (["matching", "different shape", "minimal"][pi])}),
                        );
                    }
                    match res {
                        VerifyOutcome::Accept => out.class("parsed and accepted"),
                        VerifyOutcome::Reject(_) => out.class("parsed and rejected"),
                        VerifyOutcome::Panic(c) => out.violation(format!("verify panics: {c}"), json!({"case": info(), "mutation_class": mclass(), "public_inputs": (["matching", "different shape", "minimal"][pi])})),
                    }
                }
            }
        }
        out.evals(n);
        out.nontrivial_n(n);
    }
}

/// Proofs only a prover with its own coin can make: as many or more queries than LDE points. Every commitment, the
/// out-of-domain frame and the FRI proof are consistent, so `verify()` gets past all earlier checks and reaches the
/// query phase with `num_queries >= lde_domain_size`.
struct CustomProver<'a> {
    st: &'a Statement,
    out: &'a mut CaseOut,
    pair: usize,
}

impl<'a> PairFn for CustomProver<'a> {
    type Out = ();
    fn call<B: Fld, H: ElementHasher<BaseField = B> + Send + Sync + 'static>(self)
    where
        H::Digest: 'static,
    {
        let CustomProver { st, out, pair } = self;
        let pname = PAIRS[pair];
        let (cols, _vals, pubs) = starkit::build_statement::<B>(st);
        let info = json!({"pair": pname, "trace_length": st.spec.n, "blowup": st.opts.blowup, "queries": st.opts.queries, "extension": st.opts.ext});
        let (res, _) = starkit::prove_with::<B, H, starkit::reccoin::LaxCoin<H>>(st, &cols, &pubs, None);
        let proof = match res {
            starkit::ProveOutcome::Proof(p) => *p,
            other => {
                out.class(&format!("custom prover: no proof ({})", format!("{:?}", other).chars().take(40).collect::<String>()));
                out.evals(1);
                return;
            },
        };
        out.class("custom prover: proof with at least as many queries as LDE points produced");
        let bytes = proof.to_bytes();
        let parsed = match kit::pan::catch(|| Proof::from_bytes(&bytes)) {
            Ok(Ok(p)) => p,
            Ok(Err(_)) => {
                out.class("custom prover: proof rejected by the parser");
                out.evals(1);
                return;
            },
            Err(p) => {
                out.violation(format!("Proof::from_bytes panics: {}", p.class()), info);
                return;
            },
        };
        for pol in [AcceptableOptions::MinConjecturedSecurity(0), AcceptableOptions::MinProvenSecurity(0), AcceptableOptions::OptionSet(vec![st.opts.to_options()])] {
            match verify_with::<B, H, Coin<H>>(parsed.clone(), &pubs, &pol) {
                VerifyOutcome::Accept => out.class("custom prover: parsed and accepted"),
                VerifyOutcome::Reject(_) => out.class("custom prover: parsed and rejected"),
                VerifyOutcome::Panic(c) => out.violation(format!("verify panics: {c}"), json!({"case": info, "made_by": "a prover with its own coin (queries >= LDE points)"})),
            }
        }
        out.evals(3);
        out.nontrivial_n(3);
    }
}

pub fn custom_prover_subs(run: &Arc<Run>) -> Vec<Arc<dyn Sub>> {
    let thorough = run.tier().is_thorough();
    let seed = run.seed();
    let pairs: Vec<usize> = if thorough { (0..12).collect() } else { vec![0, 4, 8, 11] };
    // (trace length, blowup, queries): queries >= LDE points
    let shapes: Vec<(usize, usize, usize)> = vec![(8, 2, 16), (8, 2, 17), (8, 2, 27), (8, 2, 255), (8, 4, 32), (8, 4, 255), (16, 2, 32), (16, 2, 255), (16, 4, 64), (16, 8, 128), (32, 4, 128), (32, 4, 255), (64, 2, 128), (64, 2, 255)];
    let mut cases: Vec<(usize, Statement)> = vec![];
    for &pair in pairs.iter() {
        for &(n, blowup, queries) in shapes.iter() {
            for ext in [1u8, 2, 3] {
                if ext == 3 && !pair_has_cubic(pair) {
                    continue;
                }
                let mut pt = family::base_point();
                pt.d[2] = family::LENS.iter().position(|l| *l == n).unwrap();
                let Some(mut st) = family::statement(&pt, seed) else { continue };
                st.opts.blowup = blowup;
                st.opts.queries = queries;
                st.opts.ext = ext;
                st.opts.folding = 2;
                st.opts.rem_deg = 1;
                if blowup < st.spec.min_blowup() {
                    continue;
                }
                cases.push((pair, st));
            }
        }
    }
    let cases = Arc::new(cases);
    let c2 = cases.clone();
    vec![sub_t(
        "custom_prover.queries_ge_lde",
        cases.len() as u64,
        120,
        true,
        move |idx, out| {
            let (pair, st) = &cases[idx as usize];
            dispatch(*pair, CustomProver { st, out, pair: *pair });
        },
        move |idx| json!({"pair": PAIRS[c2[idx as usize].0], "trace_length": c2[idx as usize].1.spec.n, "options": format!("{:?}", c2[idx as usize].1.opts)}),
    )]
}

pub fn subs(run: &Arc<Run>) -> Vec<Arc<dyn Sub>> {
    let thorough = run.tier().is_thorough();
    let seed = run.seed();
    run.rule("seed proofs per (field, hasher) pair (3-layer FRI with 27 queries, zero-layer FRI, auxiliary segment, Lagrange column + GKR proof, folding 16 with one 4-row layer, Proof::new_dummy(); thorough adds extensions, folding 4 and 8, sequence assertions): every single-bit flip, every byte set to {0x00,0x01,0x7f,0x80,0xff,orig+-1}, truncation at every offset (incl. the empty string), trailing garbage, every count/length/enum field set to {0,1,orig+-1,max-1,max}, every length-prefixed component resized with and without fixing its length, every element/digest replaced, items and components exchanged, every pair of count fields set to {0,max}^2, every pair of one-byte header fields (trace shape, options, query count) over a 30-value boundary alphabet squared, items added / removed / repeated with all dependent counts and lengths kept consistent (FRI layers, remainder, OOD frame size, Lagrange frame, Merkle node vectors, query rows), GKR option added/removed/with lengths 2^40 and 2^64-1; each mutant is parsed and, if it parses, re-serialized and verified against matching public inputs under three acceptance policies and against two other sets of public inputs (different shape, minimal); oracle: the calls return - a panic (caught, with location), an abort or a runaway allocation (process death) is a violation; one mutant = one evaluation, distinct by (pair, seed, mutant index)");
    run.assume("the harness AIR reconciles its description with whatever trace shape the proof claims (Air::new cannot fail), so panics are attributable to library code; debug assertions are enabled in this profile");
    let mut seeds = seed_points(thorough);
    seeds.push(("dummy proof", family::base_point()));
    let pairs: Vec<usize> = if thorough { (0..12).collect() } else { vec![0, 8, 11] };
    let mut subs: Vec<Arc<dyn Sub>> = custom_prover_subs(run);
    let chunk = 1024u64;
    for &pair in pairs.iter() {
        for (label, pt) in seeds.iter() {
            let mut pt = *pt;
            if !pair_has_cubic(pair) && family::EXTS[pt.d[11]] == 3 {
                pt.d[11] = 1;
            }
            if !thorough && pair != 0 && (*label == "single-segment, 3 FRI layers" || *label == "dummy proof") {
                continue;
            }
            let Some(st) = family::statement(&pt, seed) else { continue };
            let total = if *label == "dummy proof" { 17 * 140 } else { crate::c03::space_len(pair, &st, &C06_FAMS) };
            let st = Arc::new(st);
            let st2 = st.clone();
            let label = *label;
            subs.push(sub_t(
                &format!("{}.{}.hostile", PAIRS[pair], label),
                total / chunk + 1,
                900,
                true,
                move |cidx, out| {
                    dispatch(pair, Hostile { st: &st, out, pair, label, idx_range: (cidx * chunk, (cidx + 1) * chunk), thorough });
                },
                move |cidx| json!({"pair": PAIRS[pair], "seed": label, "spec": st2.spec.json(), "mutants": format!("{}..{}", cidx * chunk, (cidx + 1) * chunk)}),
            ));
        }
    }
    subs
}
