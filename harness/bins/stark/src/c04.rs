//! C04 — Fiat-Shamir transcript. A protocol model of the transcript (explored with stateright,
//! invariant: a challenge class is only drawn when every protocol-earlier prover message has been
//! absorbed and no later one), bound to the code by conformance: the recorded RandomCoin calls of the
//! real prover and of the real verifier must be behaviours of the model, with every absorbed value
//! identified *by value* with the content of the proof. Plus a model-free dependency matrix.
use std::sync::Arc;

use air::proof::Proof;
use crypto::{ElementHasher, Hasher};
use glue::Fld;
use kit::engine::sub_t;
use kit::{json, CaseOut, Run, Sub};
use math::ToElements;
use starkit::reccoin::{take_log, Ev, RecCoin};
use starkit::{build_statement, dispatch, lenient, pair_has_cubic, prove_with, verify_with, PairFn, ProveOutcome, SpecPub, Statement, VerifyOutcome, PAIRS};
use stateright::{Checker, Model, Property};
use utils::Serializable;

use crate::family::{self, Point};

// ------------------------------------------------------------------------------------------------
// protocol model
// ------------------------------------------------------------------------------------------------

#[derive(Clone, Copy, Debug, PartialEq, Eq, Hash)]
pub enum Msg {
    Seed,
    MainRoot,
    AuxRoot,
    ConstraintRoot,
    OodTrace,
    OodEvals,
    Layer(u8),
    Remainder,
}

#[derive(Clone, Copy, Debug, PartialEq, Eq, Hash)]
pub enum Class {
    /// GKR/Lagrange randomness followed by auxiliary-segment randomness
    Aux,
    Coeffs,
    Z,
    Deep,
    Alpha(u8),
    /// challenge drawn after the remainder commitment (drawn by the verifier only, never used)
    AlphaUnused,
}

#[derive(Clone, Debug, PartialEq, Eq, Hash)]
pub enum Act {
    Absorb(Msg),
    Draw(Class),
    Pow,
    Positions,
}

#[derive(Clone, Debug)]
pub struct Transcript {
    pub msgs: Vec<Msg>,
    /// (class, number of draws, message that opens its window, message that closes it (None = end))
    pub classes: Vec<(Class, usize, Msg, Option<Msg>)>,
    pub grinding: bool,
}

#[derive(Clone, Debug, PartialEq, Eq, Hash)]
pub struct TState {
    /// number of messages absorbed (messages are absorbed in protocol order)
    pub absorbed: usize,
    pub drawn: Vec<usize>,
    pub pow: bool,
    pub positions: bool,
}

impl Transcript {
    pub fn for_config(multi: bool, lagrange: bool, log_n: usize, aux_rands: usize, n_coeffs: usize, n_deep: usize, layers: usize, grinding: bool) -> Self {
        let mut msgs = vec![Msg::Seed, Msg::MainRoot];
        if multi {
            msgs.push(Msg::AuxRoot);
        }
        msgs.extend([Msg::ConstraintRoot, Msg::OodTrace, Msg::OodEvals]);
        for l in 0..layers {
            msgs.push(Msg::Layer(l as u8));
        }
        msgs.push(Msg::Remainder);
        let mut classes = vec![];
        if multi {
            classes.push((Class::Aux, aux_rands + if lagrange { log_n } else { 0 }, Msg::MainRoot, Some(Msg::AuxRoot)));
        }
        classes.push((Class::Coeffs, n_coeffs, if multi { Msg::AuxRoot } else { Msg::MainRoot }, Some(Msg::ConstraintRoot)));
        classes.push((Class::Z, 1, Msg::ConstraintRoot, Some(Msg::OodTrace)));
        let first_fri = if layers > 0 { Msg::Layer(0) } else { Msg::Remainder };
        classes.push((Class::Deep, n_deep, Msg::OodEvals, Some(first_fri)));
        for l in 0..layers {
            let close = if l + 1 < layers { Msg::Layer(l as u8 + 1) } else { Msg::Remainder };
            classes.push((Class::Alpha(l as u8), 1, Msg::Layer(l as u8), Some(close)));
        }
        classes.push((Class::AlphaUnused, 1, Msg::Remainder, None));
        Transcript { msgs, classes, grinding }
    }
    fn idx(&self, m: Msg) -> usize {
        self.msgs.iter().position(|x| *x == m).unwrap()
    }
    fn window_open(&self, st: &TState, c: usize) -> bool {
        let (_, _, open, close) = &self.classes[c];
        st.absorbed > self.idx(*open) && close.map(|m| st.absorbed <= self.idx(m)).unwrap_or(true)
    }
    pub fn complete(&self, st: &TState) -> bool {
        st.absorbed == self.msgs.len() && st.positions
    }
}

impl Model for Transcript {
    type State = TState;
    type Action = Act;

    fn init_states(&self) -> Vec<TState> {
        vec![TState { absorbed: 0, drawn: vec![0; self.classes.len()], pow: false, positions: false }]
    }

    fn actions(&self, st: &TState, actions: &mut Vec<Act>) {
        if st.positions {
            return;
        }
        // the next prover message may be absorbed once every class whose window it closes is fully drawn
        if st.absorbed < self.msgs.len() {
            let m = self.msgs[st.absorbed];
            let ready = self.classes.iter().enumerate().all(|(i, (c, n, _, close))| *close != Some(m) || st.drawn[i] == *n || *c == Class::AlphaUnused);
            if ready {
                actions.push(Act::Absorb(m));
            }
        }
        for (i, (c, n, _, _)) in self.classes.iter().enumerate() {
            if self.window_open(st, i) && st.drawn[i] < *n && !st.pow {
                actions.push(Act::Draw(*c));
            }
        }
        if st.absorbed == self.msgs.len() {
            if !st.pow {
                actions.push(Act::Pow);
            }
            if st.pow || !self.grinding {
                actions.push(Act::Positions);
            }
        }
    }

    fn next_state(&self, st: &TState, a: Act) -> Option<TState> {
        let mut s = st.clone();
        match a {
            Act::Absorb(m) => {
                if self.msgs.get(st.absorbed) != Some(&m) {
                    return None;
                }
                s.absorbed += 1;
            },
            Act::Draw(c) => {
                let i = self.classes.iter().position(|x| x.0 == c)?;
                s.drawn[i] += 1;
            },
            Act::Pow => s.pow = true,
            Act::Positions => s.positions = true,
        }
        Some(s)
    }

    fn properties(&self) -> Vec<Property<Self>> {
        vec![
            // every challenge that has been drawn was drawn inside its window: all protocol-earlier
            // prover messages absorbed, no later one
            Property::always("challenges depend on exactly the earlier prover messages", |m: &Transcript, s: &TState| {
                m.classes.iter().enumerate().all(|(i, (c, n, open, close))| {
                    if s.drawn[i] == 0 {
                        return true;
                    }
                    let after_open = s.absorbed > m.idx(*open);
                    // once the closing message is absorbed the class must be complete (no late draws)
                    let closed = close.map(|x| s.absorbed > m.idx(x)).unwrap_or(false);
                    after_open && (!closed || s.drawn[i] == *n || *c == Class::AlphaUnused)
                })
            }),
            Property::always("query positions only after every prover message", |m: &Transcript, s: &TState| !s.positions || s.absorbed == m.msgs.len()),
            Property::sometimes("transcript completes", |m: &Transcript, s: &TState| m.complete(s)),
        ]
    }
}

// ------------------------------------------------------------------------------------------------
// conformance
// ------------------------------------------------------------------------------------------------

struct Expected {
    seed: Vec<u8>,
    main_root: Vec<u8>,
    aux_root: Option<Vec<u8>>,
    constraint_root: Vec<u8>,
    ood_trace: Vec<u8>,
    ood_evals: Vec<u8>,
    fri_roots: Vec<Vec<u8>>,
    nonce: u64,
}

fn expected_of<B: Fld, H: ElementHasher<BaseField = B>>(proof: &Proof, pubs: &SpecPub<B>, st: &Statement) -> Result<Expected, String> {
    // seed elements = context elements || public input elements
    let mut seed_el: Vec<B> = proof.context.to_elements();
    seed_el.extend(pubs.to_elements());
    let mut seed = vec![];
    for e in seed_el {
        seed.extend(e.to_bytes());
    }
    let nseg = proof.trace_info().num_segments();
    let lde = proof.lde_domain_size();
    let layers = proof.options().to_fri_options().num_fri_layers(lde);
    let (troots, croot, froots) = proof.commitments.clone().parse::<H>(nseg, layers).map_err(|e| format!("commitments: {e}"))?;
    // OOD hashes, recomputed from the proof bytes with the extension the options name - independently of the
    // library's frame types: the absorbed value must be the hash of ALL out-of-domain trace evaluations the
    // proof carries (main, auxiliary and Lagrange-kernel states, in proof order), then the hash of all
    // constraint evaluations.
    fn ood<B: Fld, E: math::FieldElement<BaseField = B>, H: ElementHasher<BaseField = B>>(proof: &Proof, st: &Statement) -> Result<(Vec<u8>, Vec<u8>), String> {
        use utils::{ByteReader, SliceReader};
        let _ = st;
        let b = proof.ood_frame.to_bytes();
        let mut r = SliceReader::new(&b);
        let mut comp = |r: &mut SliceReader, skip: usize| -> Result<Vec<E>, String> {
            let len = r.read_u16().map_err(|e| format!("ood: {e}"))? as usize;
            let body = r.read_slice(len).map_err(|e| format!("ood: {e}"))?;
            if len < skip || (len - skip) % E::ELEMENT_BYTES != 0 {
                return Err(format!("ood: component of {len} bytes is not a whole number of elements"));
            }
            let mut br = SliceReader::new(&body[skip.min(len)..]);
            br.read_many::<E>((len - skip.min(len)) / E::ELEMENT_BYTES).map_err(|e| format!("ood: {e}"))
        };
        let mut states = comp(&mut r, 1)?;
        let lagrange = comp(&mut r, 1)?;
        let evals = comp(&mut r, 0)?;
        states.extend(lagrange);
        Ok((H::hash_elements(&states).to_bytes(), H::hash_elements(&evals).to_bytes()))
    }
    let (ot, oe) = match st.opts.ext {
        1 => ood::<B, B, H>(proof, st)?,
        2 => ood::<B, math::fields::QuadExtension<B>, H>(proof, st)?,
        _ => ood::<B, math::fields::CubeExtension<B>, H>(proof, st)?,
    };
    Ok(Expected {
        seed,
        main_root: troots[0].to_bytes(),
        aux_root: troots.get(1).map(|d| d.to_bytes()),
        constraint_root: croot.to_bytes(),
        ood_trace: ot,
        ood_evals: oe,
        fri_roots: froots.iter().map(|d| d.to_bytes()).collect(),
        nonce: proof.pow_nonce,
    })
}

/// walk a recorded log through the model; returns the first disagreement
fn conform(model: &Transcript, exp: &Expected, log: &[Ev], ext: usize, grinding: u32, is_prover: bool) -> Result<usize, String> {
    let mut st = model.init_states().remove(0);
    let mut steps = 0;
    let enabled = |st: &TState, a: &Act| {
        let mut v = vec![];
        model.actions(st, &mut v);
        v.contains(a)
    };
    let value_of = |m: Msg| -> Option<&Vec<u8>> {
        match m {
            Msg::Seed => Some(&exp.seed),
            Msg::MainRoot => Some(&exp.main_root),
            Msg::AuxRoot => exp.aux_root.as_ref(),
            Msg::ConstraintRoot => Some(&exp.constraint_root),
            Msg::OodTrace => Some(&exp.ood_trace),
            Msg::OodEvals => Some(&exp.ood_evals),
            Msg::Layer(l) => exp.fri_roots.get(l as usize),
            Msg::Remainder => exp.fri_roots.last(),
        }
    };
    let mut i = 0;
    while i < log.len() {
        let ev = &log[i];
        let act = match ev {
            Ev::New(bytes) | Ev::Reseed(bytes) => {
                let Some(m) = model.msgs.get(st.absorbed).cloned() else { return Err(format!("event {i}: a value is absorbed after the last prover message")) };
                if matches!(ev, Ev::New(_)) != (m == Msg::Seed) {
                    return Err(format!("event {i}: coin (re)created out of order"));
                }
                if value_of(m) != Some(bytes) {
                    return Err(format!("event {i}: the value absorbed as {:?} is not the one carried in the proof", m));
                }
                Act::Absorb(m)
            },
            Ev::Draw(deg, res) => {
                if res.is_err() {
                    return Err(format!("event {i}: draw failed"));
                }
                if *deg != ext {
                    return Err(format!("event {i}: a challenge was drawn from an extension of degree {deg}, the options name {ext}"));
                }
                // the class whose window is open (windows are disjoint)
                let mut v = vec![];
                model.actions(&st, &mut v);
                match v.iter().find(|a| matches!(a, Act::Draw(_))) {
                    Some(a) => a.clone(),
                    None => return Err(format!("event {i}: a challenge is drawn where the protocol allows none (absorbed {} messages)", st.absorbed)),
                }
            },
            Ev::Lz { value, result } => {
                if is_prover {
                    // the prover searches nonce = 1, 2, ...: failed probes precede the successful one
                    if *value != exp.nonce {
                        if *result >= grinding {
                            return Err(format!("event {i}: the prover skipped a nonce that satisfies the grinding condition"));
                        }
                        i += 1;
                        continue;
                    }
                }
                if *value != exp.nonce {
                    return Err(format!("event {i}: proof-of-work checked for a nonce other than the proof's"));
                }
                if *result < grinding {
                    return Err(format!("event {i}: accepted nonce does not satisfy the grinding factor"));
                }
                Act::Pow
            },
            Ev::Ints { nonce, result, .. } => {
                if *nonce != exp.nonce || result.is_err() {
                    return Err(format!("event {i}: query positions drawn with a nonce other than the proof's"));
                }
                Act::Positions
            },
        };
        if !enabled(&st, &act) {
            return Err(format!("event {i}: {:?} is not allowed by the protocol model in this state (absorbed {} messages, draws {:?})", act, st.absorbed, st.drawn));
        }
        st = model.next_state(&st, act).ok_or("model refused an enabled action")?;
        steps += 1;
        i += 1;
    }
    if !model.complete(&st) {
        return Err(format!("log ends before the transcript is complete (absorbed {} of {} messages, positions drawn: {})", st.absorbed, model.msgs.len(), st.positions));
    }
    // every used challenge class must have been fully drawn
    for (i, (c, n, _, _)) in model.classes.iter().enumerate() {
        if *c != Class::AlphaUnused && st.drawn[i] != *n {
            return Err(format!("challenge class {:?}: {} of {} draws", c, st.drawn[i], n));
        }
    }
    Ok(steps)
}

struct Conf<'a> {
    st: &'a Statement,
    out: &'a mut CaseOut,
    pair: usize,
    point: Point,
}

impl<'a> PairFn for Conf<'a> {
    type Out = ();
    fn call<B: Fld, H: ElementHasher<BaseField = B> + Send + Sync + 'static>(self)
    where
        H::Digest: 'static,
    {
        let Conf { st, out, pair, point } = self;
        let pname = PAIRS[pair];
        if !st.opts.admissible(st.spec.n, st.spec.min_blowup()) {
            out.class("filtered: options not admissible");
            return;
        }
        let (cols, _vals, pubs) = build_statement::<B>(st);
        let info = || json!({"pair": pname, "point": family::describe(&point), "spec": st.spec.json(), "options": format!("{:?}", st.opts)});
        let _ = take_log();
        let (po, _) = prove_with::<B, H, RecCoin<H>>(st, &cols, &pubs, None);
        let plog = take_log();
        let proof = match po {
            ProveOutcome::Proof(p) => *p,
            _ => {
                out.class("proof not produced (C01's business)");
                return;
            },
        };
        let vo = verify_with::<B, H, RecCoin<H>>(proof.clone(), &pubs, &lenient());
        let vlog = take_log();
        if vo != VerifyOutcome::Accept {
            out.class("proof not accepted (C01's business)");
            return;
        }
        // ---- the model of this configuration, explored exhaustively
        let air_spec = &st.spec;
        let n_coeffs = air_spec.width() + air_spec.sum_cols() + air_spec.asserts.len() + air_spec.sum_cols() + if air_spec.has_lagrange() { air_spec.n.ilog2() as usize + 1 } else { 0 };
        let ncomp = match st.opts.ext {
            1 => proof.ood_frame.to_bytes().len(),
            _ => 0,
        };
        let _ = ncomp;
        // number of composition columns: read off the proof (it is C01/C17's business that it is right)
        let comp_cols = {
            let b = proof.ood_frame.to_bytes();
            let tl = u16::from_le_bytes([b[0], b[1]]) as usize;
            let ll = u16::from_le_bytes([b[2 + tl], b[3 + tl]]) as usize;
            let el = u16::from_le_bytes([b[4 + tl + ll], b[5 + tl + ll]]) as usize;
            el / (B::ELEMENT_BYTES * st.opts.ext as usize)
        };
        let n_deep = air_spec.width() + air_spec.aux_width() + comp_cols + if air_spec.has_lagrange() { 1 } else { 0 };
        let layers = proof.fri_proof.num_layers();
        let model = Transcript::for_config(air_spec.aux_width() > 0, air_spec.has_lagrange(), air_spec.n.ilog2() as usize, air_spec.aux_rands(), n_coeffs, n_deep, layers, st.opts.grinding > 0);
        let checker = model.clone().checker().spawn_bfs().join();
        out.states(checker.unique_state_count() as u64);
        out.transitions(checker.state_count() as u64);
        if checker.discovery("challenges depend on exactly the earlier prover messages").is_some() || checker.discovery("query positions only after every prover message").is_some() {
            out.violation("HARNESS: the protocol model violates its own invariant", info());
            return;
        }
        if checker.discovery("transcript completes").is_none() {
            out.violation("HARNESS: the protocol model cannot complete", info());
            return;
        }
        // ---- conformance of both logs
        let exp = match expected_of::<B, H>(&proof, &pubs, st) {
            Ok(e) => e,
            Err(e) => {
                out.violation(format!("HARNESS: cannot recompute absorbed values from the proof: {e}"), info());
                return;
            },
        };
        for (who, log, is_prover) in [("prover", &plog, true), ("verifier", &vlog, false)] {
            match conform(&model, &exp, log, st.opts.ext as usize, st.opts.grinding, is_prover) {
                Ok(steps) => {
                    out.traces(1);
                    out.evals(steps as u64);
                },
                Err(e) => out.violation(format!("{pname}: the {who}'s use of the public coin is not a behaviour of the Fiat-Shamir transcript model ({})", crate::c01::squeeze(&e)), json!({"case": info(), "detail": e})),
            }
        }
        // ---- prover and verifier derive identical values for every challenge that is used
        let used = |log: &[Ev], prover: bool| -> Vec<Ev> {
            let mut v: Vec<Ev> = log.iter().filter(|e| !matches!(e, Ev::Lz { value, .. } if *value != exp.nonce)).cloned().collect();
            if !prover {
                // the verifier's challenge after the remainder commitment is never used
                if let Some(pos) = v.iter().rposition(|e| matches!(e, Ev::Draw(..))) {
                    let after_last_reseed = v.iter().rposition(|e| matches!(e, Ev::Reseed(_))).map(|r| pos > r).unwrap_or(false);
                    if after_last_reseed {
                        v.remove(pos);
                    }
                }
            }
            v
        };
        if used(&plog, true) != used(&vlog, false) {
            out.violation(format!("{pname}: prover and verifier do not derive the same challenge values from the same absorbed messages"), info());
        }
        // ---- dependency matrix: flip one bit of each prover message; every later challenge changes, every earlier one stays
        let bytes = proof.to_bytes();
        let dlen = H::hash(b"x").to_bytes().len();
        let lay = match starkit::codec::layout(&bytes, dlen, B::ELEMENT_BYTES, st.opts.ext as usize) {
            Ok(l) => l,
            Err(e) => {
                out.violation(format!("HARNESS: layout: {e}"), info());
                return;
            },
        };
        let base_draws: Vec<(usize, &Ev)> = vlog.iter().enumerate().filter(|(_, e)| matches!(e, Ev::Draw(..) | Ev::Ints { .. })).collect();
        let reseed_idx: Vec<usize> = vlog.iter().enumerate().filter(|(_, e)| matches!(e, Ev::Reseed(_))).map(|(i, _)| i).collect();
        // message k of the verifier log (k-th reseed) <- a field of the proof that feeds it
        let mut feeds: Vec<(String, usize)> = vec![]; // (field name prefix, reseed ordinal)
        let mut ord = 0;
        feeds.push(("commitment[0]".into(), ord));
        if air_spec.aux_width() > 0 {
            ord += 1;
            feeds.push(("commitment[1]".into(), ord));
        }
        ord += 1;
        feeds.push((format!("commitment[{}]", ord), ord));
        let croot_ord = ord;
        ord += 1;
        // every out-of-domain value the proof carries feeds its message (not only the first one)
        for f in lay.fields.iter() {
            if f.name.starts_with("ood.trace_state[") || f.name.starts_with("ood.lagrange_state[") {
                feeds.push((f.name.clone(), ord));
            }
        }
        ord += 1;
        for f in lay.fields.iter() {
            if f.name.starts_with("ood.evaluation[") {
                feeds.push((f.name.clone(), ord));
            }
        }
        for l in 0..=layers {
            ord += 1;
            feeds.push((format!("commitment[{}]", croot_ord + 1 + l), ord));
        }
        for (fname, k) in feeds {
            let Some(f) = lay.fields.iter().find(|f| f.name == fname) else { continue };
            let mut b2 = bytes.clone();
            b2[f.off] ^= 1;
            let Ok(Ok(p2)) = kit::pan::catch(|| Proof::from_bytes(&b2)) else { continue };
            let _ = take_log();
            let _ = verify_with::<B, H, RecCoin<H>>(p2, &pubs, &lenient());
            let l2 = take_log();
            out.evals(1);
            let Some(&cut) = reseed_idx.get(k) else { continue };
            for (i, ev) in base_draws.iter() {
                let Some(ev2) = l2.get(*i) else { break };
                let same = *ev == ev2;
                if *i < cut && !same {
                    out.violation(format!("{pname}: a challenge drawn before a prover message changes when that message changes"), json!({"case": info(), "message": fname}));
                    break;
                }
                if *i > cut && same && matches!(ev2, Ev::Draw(..)) {
                    out.violation(format!("{pname}: a challenge drawn after a prover message does not depend on it"), json!({"case": info(), "message": fname, "event": i}));
                    break;
                }
            }
        }
        // the nonce: the value absorbed before the query positions is exactly the nonce carried in the proof -
        // different nonces over a boundary alphabet (around the field modulus and its multiples, single-bit
        // changes, the extremes) must be checked against their own value and give pairwise different positions
        if st.opts.grinding == 0 && (st.opts.queries as u32) * (st.spec.n * st.opts.blowup).ilog2() >= 64 {
            let n0 = proof.pow_nonce;
            let m = if B::P < (1u128 << 64) { B::P as u64 } else { 0xffff_ffff_0000_0001 };
            let mut alphabet: Vec<u64> = vec![0, 1, 2, n0.wrapping_add(1), u64::MAX, u64::MAX - 1, 1 << 32, 1 << 63, m.wrapping_sub(1), m, m.wrapping_add(1)];
            for k in 1..=4u64 {
                for r in [0u64, 1, 2, n0] {
                    alphabet.push(m.wrapping_mul(k).wrapping_add(r));
                }
            }
            for bit in 0..64 {
                alphabet.push(n0 ^ (1u64 << bit));
            }
            alphabet.sort();
            alphabet.dedup();
            let mut seen: std::collections::HashMap<Vec<usize>, u64> = std::collections::HashMap::new();
            for nonce in alphabet {
                let mut p2 = proof.clone();
                p2.pow_nonce = nonce;
                let _ = take_log();
                let _ = verify_with::<B, H, RecCoin<H>>(p2, &pubs, &lenient());
                let l2 = take_log();
                out.evals(1);
                let ints = l2.iter().find_map(|e| if let Ev::Ints { nonce: used, result: Ok(r), .. } = e { Some((*used, r.clone())) } else { None });
                let Some((used, positions)) = ints else {
                    out.violation(format!("{pname}: no query positions are drawn for a proof that differs only in its nonce"), json!({"case": info(), "nonce": nonce}));
                    break;
                };
                if used != nonce {
                    out.violation(format!("{pname}: the nonce given to the coin is not the one carried in the proof"), json!({"case": info(), "nonce": nonce, "used": used}));
                    break;
                }
                if let Some(other) = seen.insert(positions, nonce) {
                    out.violation(format!("{pname}: two different nonces lead to the same query positions (the nonce is not absorbed exactly)"), json!({"case": info(), "nonce_1": other, "nonce_2": nonce}));
                    break;
                }
            }
            out.class("nonce alphabet checked");
        }
        // the seed: every parameter of the proof context and of the options changes the initial state of the coin
        {
            let base_new = vlog.iter().find_map(|e| if let Ev::New(b) = e { Some(b.clone()) } else { None });
            for f in lay.fields.iter().filter(|f| (f.comp == "context" || f.comp == "options") && !f.name.ends_with("_len")) {
                let mut cands: Vec<(usize, u8)> = vec![];
                if f.len == 1 {
                    let o = bytes[f.off];
                    for v in [o ^ 1, o.wrapping_add(1), o.wrapping_sub(1), o.wrapping_shl(1), o >> 1, 0, 1, 2, 3, 4, 8, 16] {
                        if v != o && !cands.contains(&(f.off, v)) {
                            cands.push((f.off, v));
                        }
                    }
                } else {
                    for k in 0..f.len {
                        cands.push((f.off + k, bytes[f.off + k] ^ 1));
                    }
                }
                let mut decided = 0;
                for (off, v) in cands {
                    let mut b2 = bytes.clone();
                    b2[off] = v;
                    let Ok(Ok(p2)) = kit::pan::catch(|| Proof::from_bytes(&b2)) else { continue };
                    let _ = take_log();
                    let _ = verify_with::<B, H, RecCoin<H>>(p2, &pubs, &lenient());
                    let l2 = take_log();
                    out.evals(1);
                    let Some(new2) = l2.iter().find_map(|e| if let Ev::New(b) = e { Some(b.clone()) } else { None }) else { continue };
                    decided += 1;
                    if Some(&new2) == base_new.as_ref() {
                        out.violation(format!("{pname}: the initial state of the coin does not depend on a parameter of the proof context ({})", f.name), json!({"case": info(), "field": f.name, "new_value": v}));
                        break;
                    }
                }
                out.class_n(if decided > 0 { "context parameter bound into the coin seed" } else { "context parameter: no other value reaches the coin" }, 1);
            }
        }
        // the seed: a different statement changes every challenge
        {
            let mut p2 = pubs.clone();
            let mut spec2 = (*p2.spec).clone();
            spec2.init ^= 1;
            p2.spec = Arc::new(spec2);
            let _ = take_log();
            let _ = verify_with::<B, H, RecCoin<H>>(proof.clone(), &p2, &lenient());
            let l2 = take_log();
            for (i, ev) in base_draws.iter() {
                if let Some(ev2) = l2.get(*i) {
                    if *ev == ev2 && matches!(ev2, Ev::Draw(..)) {
                        out.violation(format!("{pname}: a challenge does not depend on the public inputs"), info());
                        break;
                    }
                }
            }
        }
        // the seed: public inputs that differ only by a trailing ONE or ZERO element - the values a padding rule of the
        // hasher can confuse with "nothing" - still give different challenges, whatever the length of the statement
        // modulo the hasher's rate (8 consecutive lengths)
        {
            let first_draw = |p: &SpecPub<B>| -> Option<Ev> {
                let _ = take_log();
                let _ = verify_with::<B, H, RecCoin<H>>(proof.clone(), p, &lenient());
                take_log().into_iter().find(|e| matches!(e, Ev::Draw(..)))
            };
            'outer: for k in 0..8usize {
                let mut pa = pubs.clone();
                pa.extra = vec![B::mk(7); k];
                let Some(da) = first_draw(&pa) else { continue };
                for ext in [B::ONE, B::ZERO] {
                    let mut pb = pa.clone();
                    pb.extra.push(ext);
                    out.evals(1);
                    if first_draw(&pb).as_ref() == Some(&da) {
                        out.violation(format!("{pname}: the first challenge does not depend on a trailing element of the public inputs"), json!({"case": info(), "extra_elements": k, "appended": if ext == B::ONE { "ONE" } else { "ZERO" }}));
                        break 'outer;
                    }
                }
            }
        }
        out.nontrivial();
    }
}

fn points(thorough: bool) -> Vec<Point> {
    let mut out = vec![];
    let base = family::base_point();
    out.push(base);
    // aux kinds, extensions, grinding, folding, FRI layer counts (through trace length and remainder degree)
    for aux in 0..family::AUXS.len() {
        for ext in 0..3 {
            for g in 0..family::GRINDS.len() {
                let mut p = base;
                p.d[6] = aux;
                p.d[11] = ext;
                p.d[10] = g;
                if thorough || (aux + ext + g) % 2 == 0 {
                    out.push(p);
                }
            }
        }
    }
    for nidx in 0..family::LENS.len() {
        for rem in [0usize, 1, 4, 8] {
            for fold in 0..family::FOLDS.len() {
                let mut p = base;
                p.d[2] = nidx;
                p.d[13] = rem;
                p.d[12] = fold;
                if thorough || (nidx + rem + fold) % 3 == 0 {
                    out.push(p);
                }
            }
        }
    }
    // many queries over a larger domain and no grinding (the nonce alphabet needs >= 64 bits of positions)
    for aux in [0usize, 1, 4] {
        for ext in 0..3 {
            let mut p = base;
            p.d[8] = 3;
            p.d[2] = 3;
            p.d[6] = aux;
            p.d[11] = ext;
            out.push(p);
        }
    }
    // trace metadata of several lengths (bound into the seed through the context)
    for init in 1..family::INITS.len() {
        let mut p = base;
        p.d[7] = init;
        out.push(p);
    }
    // other computation shapes
    for rule in 1..family::RULES.len() {
        let mut p = base;
        p.d[1] = rule;
        out.push(p);
    }
    for asel in 1..family::NASSERT {
        let mut p = base;
        p.d[5] = asel;
        out.push(p);
    }
    out.sort_by_key(|p| p.d);
    out.dedup();
    out
}

pub fn subs(run: &Arc<Run>) -> Vec<Arc<dyn Sub>> {
    let thorough = run.tier().is_thorough();
    let seed = run.seed();
    run.rule("configurations: single and multi-segment shapes (6 auxiliary kinds incl. Lagrange/GKR), 3 extensions, grinding {0,1,8}, folding {2,4,8,16}, trace lengths 8..256 x remainder degrees giving 0..7 FRI layers, every rule and assertion set of the family, x (field, hasher) pairs; for each: a stateright model of the transcript for that configuration is explored exhaustively (invariant: challenge classes are drawn only inside their protocol window); the real prover and the real verify() run with a recording coin and both logs must be behaviours of the model, every absorbed value equal to the value carried in the proof (seed = context || public inputs, roots, OOD hashes recomputed from the proof bytes, FRI commitments, nonce), element types as the options name; prover and verifier logs equal on all used challenges; the nonce replaced by each member of a boundary alphabet (multiples of the modulus, single-bit changes, extremes) must reach the coin unchanged and give pairwise different positions; every context/options parameter changes the coin seed; dependency matrix: one bit of each prover message (every OOD value) flipped => every later challenge changes and every earlier one stays, different public inputs => every challenge changes, public inputs extended by a trailing ONE / ZERO element (8 consecutive statement lengths) => the first challenge changes; non-trivial = configuration whose two logs were replayed (2 traces validated against the implementation each)");
    run.assume("order of draws inside one phase is not constrained (the property does not constrain it); the verifier's extra challenge after the remainder commitment is unused and therefore optional in the model; 'value changes' is probabilistic with error 2^-60");
    let pts = Arc::new(points(thorough));
    let np = pts.len() as u64;
    let pairs = crate::pairs(run);
    let mut subs: Vec<Arc<dyn Sub>> = vec![];
    for pair in pairs {
        let (p1, p2) = (pts.clone(), pts.clone());
        subs.push(sub_t(
            &format!("{}.transcripts", PAIRS[pair]),
            np,
            600,
            true,
            move |idx, out| {
                let mut p = p1[idx as usize];
                if !pair_has_cubic(pair) && family::EXTS[p.d[11]] == 3 {
                    p.d[11] = 1;
                }
                let Some(st) = family::statement(&p, seed) else {
                    out.class("filtered: point not constructible");
                    return;
                };
                dispatch(pair, Conf { st: &st, out, pair, point: p });
            },
            move |idx| json!({"pair": PAIRS[pair], "point": family::describe(&p2[idx as usize])}),
        ));
    }
    subs
}
