//! C03 — proof integrity: any change to the decoded content of an accepted proof causes rejection
//! (or a parse failure), including substitutions that need knowledge of the query positions.
use std::sync::Arc;

use air::proof::Proof;
use crypto::{ElementHasher, Hasher};
use glue::Fld;
use kit::engine::sub_t;
use kit::refmath::{mulm, powm, Ctx, El};
use kit::{json, CaseOut, Run, Sub};
use starkit::codec::{self, FKind};
use starkit::reccoin::{take_log, Ev, RecCoin};
use starkit::{build_statement, dispatch, lenient, pair_has_cubic, prove_with, verify_with, Coin, PairFn, ProveOutcome, SpecPub, Statement, VerifyOutcome, PAIRS};
use utils::{Deserializable, SliceReader};

use crate::family::{self, Point};
use crate::mutate::{Fam, MutSpace};

/// seed statements: (label, point)
pub fn seed_points(thorough: bool) -> Vec<(&'static str, Point)> {
    let idx = |arr: &[usize], v: usize| arr.iter().position(|x| *x == v).unwrap();
    let mut v = vec![];
    // (a) single segment, >= 2 FRI layers, 8 queries over 256 LDE points
    let mut a = family::base_point();
    a.d[2] = idx(&family::LENS, 64);
    a.d[8] = idx(&family::QUERIES, 27);
    v.push(("single-segment, 3 FRI layers", a));
    // (b) zero-layer FRI
    let mut b = family::base_point();
    b.d[13] = idx(&family::REMS, 15);
    v.push(("zero FRI layers", b));
    // (c) multi-segment
    let mut c = family::base_point();
    c.d[6] = 2;
    c.d[2] = idx(&family::LENS, 32);
    c.d[7] = 3; // 17 bytes of trace metadata
    v.push(("auxiliary segment", c));
    // (d) Lagrange kernel column with a GKR proof
    let mut d = family::base_point();
    d.d[6] = 4;
    v.push(("Lagrange kernel column", d));
    // (h) folding 16 on a 64-point domain with one layer: relabelled options then reach the later layers of
    //     schedules that fold a domain down to one point or to nothing
    let mut h = family::base_point();
    h.d[12] = idx(&family::FOLDS, 16);
    h.d[13] = idx(&family::REMS, 0);
    v.push(("folding 16, one FRI layer of 4 rows", h));
    // (q) quadratic extension: items of the extension-field components are wider than a base-field element
    let mut q = a;
    q.d[11] = 1;
    q.d[12] = 1; // folding 4
    q.d[8] = 0; // 3 queries
    v.push(("quadratic extension, folding 4", q));
    // (n) as many queries as the domain can take: 27 queries over 32 LDE points (positions repeat, the set of
    //     positions is most of the domain; nonces whose position sets coincide are least unlikely here)
    let mut nq = family::base_point();
    nq.d[2] = idx(&family::LENS, 8);
    nq.d[8] = idx(&family::QUERIES, 27);
    v.push(("27 queries over 32 LDE points", nq));
    if thorough {
        let mut i8 = family::base_point();
        i8.d[12] = idx(&family::FOLDS, 8);
        i8.d[13] = idx(&family::REMS, 0);
        i8.d[9] = idx(&family::BLOWUPS, 2);
        i8.d[2] = idx(&family::LENS, 64);
        v.push(("folding 8, blowup 2, two FRI layers", i8));
        let mut e = a;
        e.d[11] = 1; // quadratic extension
        e.d[12] = 1; // folding 4
        v.push(("quadratic extension, folding 4, 27 queries", e));
        let mut f = c;
        f.d[11] = 2; // cubic
        v.push(("auxiliary segment, cubic extension", f));
        let mut g = family::base_point();
        g.d[5] = 6; // sequence assertion
        g.d[3] = 1; // two exemptions
        v.push(("sequence assertion, two exemptions", g));
    }
    v
}

pub struct Seed<B: Fld> {
    pub st: Statement,
    pub pubs: SpecPub<B>,
    pub proof: Proof,
    pub bytes: Vec<u8>,
    pub dlen: usize,
}

pub fn make_seed<B: Fld, H: ElementHasher<BaseField = B> + Send + Sync>(st: &Statement) -> Result<Seed<B>, String> {
    if !st.opts.admissible(st.spec.n, st.spec.min_blowup()) {
        return Err("seed options not admissible".into());
    }
    let (cols, _vals, pubs) = build_statement::<B>(st);
    let (out, _) = prove_with::<B, H, Coin<H>>(st, &cols, &pubs, None);
    let proof = match out {
        ProveOutcome::Proof(p) => *p,
        other => return Err(format!("seed proof not produced: {:?}", other).chars().take(200).collect()),
    };
    if verify_with::<B, H, Coin<H>>(proof.clone(), &pubs, &lenient()) != VerifyOutcome::Accept {
        return Err("seed proof not accepted".into());
    }
    let bytes = proof.to_bytes();
    let dlen = utils::Serializable::to_bytes(&<H as Hasher>::hash(b"x")).len();
    Ok(Seed { st: st.clone(), pubs, proof, bytes, dlen })
}

/// query positions the verifier draws for this proof (learned the way an adaptive adversary would)
pub fn learn_positions<B: Fld, H: ElementHasher<BaseField = B> + Send + Sync>(proof: &Proof, pubs: &SpecPub<B>) -> Vec<usize> {
    let _ = take_log();
    let _ = verify_with::<B, H, RecCoin<H>>(proof.clone(), pubs, &lenient());
    let log = take_log();
    for ev in log.iter().rev() {
        if let Ev::Ints { result: Ok(v), .. } = ev {
            let mut p = v.clone();
            p.sort_unstable();
            p.dedup();
            return p;
        }
    }
    vec![]
}

/// Query positions the SPECIFIED coin draws for this proof, computed without the library's coin: the recording coin
/// only supplies the messages (seed elements, reseed digests, the draw_integers request); the state is rebuilt from
/// the documented definition - new: seed = hash_elements(seed elements); reseed: seed = merge(seed, data);
/// draw_integers: seed = merge_with_int(seed, nonce), then the i-th value is the first 8 bytes (little endian) of
/// merge_with_int(seed, i), i = 1.., reduced to the domain. Returns the sorted, de-duplicated positions.
pub fn reference_positions<B: Fld, H: ElementHasher<BaseField = B> + Send + Sync>(proof: &Proof, pubs: &SpecPub<B>) -> Option<Vec<usize>> {
    reference_positions_and_state::<B, H>(proof, pubs).map(|(p, _)| p)
}

/// The positions and the bytes of the coin state right after the nonce was absorbed. Two nonces are only "equivalent by
/// coincidence" if they lead to DIFFERENT states that happen to give the same set of positions; equal states mean the nonce was
/// not absorbed injectively, which is a defect and no exemption.
pub fn reference_positions_and_state<B: Fld, H: ElementHasher<BaseField = B> + Send + Sync>(proof: &Proof, pubs: &SpecPub<B>) -> Option<(Vec<usize>, Vec<u8>)> {
    use crypto::Digest;
    let _ = take_log();
    let _ = verify_with::<B, H, RecCoin<H>>(proof.clone(), pubs, &lenient());
    let log = take_log();
    let mut seed: Option<H::Digest> = None;
    for ev in log.iter() {
        match ev {
            Ev::New(bytes) => {
                let mut r = SliceReader::new(bytes);
                let mut elems: Vec<B> = vec![];
                while utils::ByteReader::has_more_bytes(&r) {
                    elems.push(B::read_from(&mut r).ok()?);
                }
                seed = Some(H::hash_elements(&elems));
            },
            Ev::Reseed(bytes) => {
                let d = H::Digest::read_from(&mut SliceReader::new(bytes)).ok()?;
                seed = Some(H::merge(&[seed?, d]));
            },
            Ev::Ints { k, domain, .. } => {
                // the nonce is the one carried in the proof, not the one the verifier handed to its coin
                let s = H::merge_with_int(seed?, proof.pow_nonce);
                let mut v: Vec<usize> = (1..=*k as u64)
                    .map(|i| {
                        let d = H::merge_with_int(s, i);
                        let b: [u8; 8] = d.as_bytes()[..8].try_into().unwrap();
                        (u64::from_le_bytes(b) & (*domain as u64 - 1)) as usize
                    })
                    .collect();
                v.sort_unstable();
                v.dedup();
                return Some((v, s.as_bytes().to_vec()));
            },
            _ => {},
        }
    }
    None
}

struct Integrity<'a> {
    st: &'a Statement,
    out: &'a mut CaseOut,
    pair: usize,
    label: &'static str,
    idx_range: (u64, u64),
    thorough: bool,
}

pub const C03_FAMS: [Fam; 8] = [Fam::BitFlip, Fam::FieldValue, Fam::Resize, Fam::ElemValue, Fam::Swap, Fam::Gkr, Fam::Trailing, Fam::Consistent];

impl<'a> PairFn for Integrity<'a> {
    type Out = ();
    fn call<B: Fld, H: ElementHasher<BaseField = B> + Send + Sync + 'static>(self)
    where
        H::Digest: 'static,
    {
        let Integrity { st, out, pair, label, idx_range, thorough: _ } = self;
        let pname = PAIRS[pair];
        let seed = match make_seed::<B, H>(st) {
            Ok(s) => s,
            Err(e) => {
                out.violation(format!("HARNESS: {pname}: {e}"), json!({"seed": label}));
                return;
            },
        };
        let lay = match codec::layout(&seed.bytes, seed.dlen, B::ELEMENT_BYTES, st.opts.ext as usize) {
            Ok(l) => l,
            Err(e) => {
                out.violation(format!("HARNESS: {pname}: layout codec does not tile the proof: {e}"), json!({"seed": label}));
                return;
            },
        };
        let mut pm1 = (B::P - 1).to_le_bytes().to_vec();
        pm1.truncate(B::ELEMENT_BYTES);
        let space = MutSpace::new(seed.bytes.clone(), lay, pm1, st.opts.ext as usize, &C03_FAMS);
        let positions = learn_positions::<B, H>(&seed.proof, &seed.pubs);
        let (lo, hi) = idx_range;
        let hi = hi.min(space.len());
        let mut n = 0u64;
        for idx in lo..hi {
            let Some((fam, mlabel, bytes)) = space.get(idx) else { continue };
            n += 1;
            let parsed = kit::pan::catch(|| Proof::from_bytes(&bytes));
            let p2 = match parsed {
                Ok(Ok(p)) => p,
                Ok(Err(_)) => {
                    out.class("mutant fails to parse");
                    continue;
                },
                Err(_) => {
                    out.class("mutant makes the parser panic (C06's business)");
                    continue;
                },
            };
            if p2 == seed.proof {
                out.class("mutant decodes to the same proof (re-encoding of a length)");
                continue;
            }
            match verify_with::<B, H, Coin<H>>(p2.clone(), &seed.pubs, &lenient()) {
                VerifyOutcome::Reject(_) => out.class("mutant rejected"),
                VerifyOutcome::Panic(_) => out.class("mutant makes the verifier panic (C06's business)"),
                VerifyOutcome::Accept => {
                    // the principled exceptions: same decoded content, equivalent nonce, layout-only metadata
                    if fam == Fam::BitFlip || fam == Fam::ElemValue {
                        let off = first_diff(&seed.bytes, &bytes);
                        if let Some((FKind::Digest, foff, flen)) = space.field_kind_at(off) {
                            let a = H::Digest::read_from(&mut SliceReader::new(&seed.bytes[foff..foff + flen]));
                            let b = H::Digest::read_from(&mut SliceReader::new(&bytes[foff..foff + flen]));
                            // only digests made of field elements have more than one encoding (a limb and the limb plus the
                            // modulus); for the 64-bit Rescue digests this is decided on the bytes (four little-endian words
                            // equal modulo p), for byte digests (Blake3, SHA3) the exemption never applies
                            let same_by_reference = match pname {
                                "f64/rp64_256" | "f64/rpjive64_256" => {
                                    flen == 32 && (0..4).all(|i| {
                                        let w = |x: &[u8]| u64::from_le_bytes(x[foff + 8 * i..foff + 8 * i + 8].try_into().unwrap()) as u128 % B::P;
                                        w(&seed.bytes) == w(&bytes)
                                    })
                                },
                                "f62/rp62_248" => true, // packed 62-bit limbs: the library's decoding is relied on (documented limit)
                                _ => false,
                            };
                            if let (Ok(a), Ok(b), true) = (a, b, same_by_reference) {
                                if a == b {
                                    out.class("alternative byte encoding of the same digest (outside the claim)");
                                    continue;
                                }
                            }
                        }
                    }
                    // another nonce that leads to the same set of positions is another valid proof of the same
                    // statement - decided with the SPECIFIED coin (reference_positions), not with the library's: a coin
                    // that does not absorb the nonce properly makes neighbouring nonces equivalent
                    if let Some((FKind::Nonce, _, _)) = space.field_kind_at(first_diff(&seed.bytes, &bytes)) {
                        let orig_state = reference_positions_and_state::<B, H>(&seed.proof, &seed.pubs).map(|(_, st)| st);
                        let mutant = reference_positions_and_state::<B, H>(&p2, &seed.pubs);
                        let coincidence = match (&mutant, &orig_state) {
                            (Some((pos, st)), Some(os)) => *pos == positions && st != os,
                            _ => false,
                        };
                        if coincidence {
                            out.class("equivalent nonce: same query positions (another valid proof of the same statement)");
                            continue;
                        }
                    }
                    if is_partition_edit(&space, &seed.bytes, &bytes) && partition_mapping_unchanged(&p2, &positions, st) {
                        out.class("FRI partition count edit that maps every queried position to the same leaf (outside the claim)");
                        continue;
                    }
                    out.violation(
                        format!("a proof with changed content is accepted ({})", class_of(fam, &mlabel)),
                        json!({"pair": pname, "seed": label, "mutation": mlabel, "mutant_index": idx, "spec": st.spec.json(), "options": format!("{:?}", st.opts)}),
                    );
                },
            }
        }
        out.evals(n);
        out.nontrivial_n(n);
    }
}

fn first_diff(a: &[u8], b: &[u8]) -> usize {
    a.iter().zip(b.iter()).position(|(x, y)| x != y).unwrap_or(0)
}

fn class_of(fam: Fam, label: &str) -> String {
    match fam {
        Fam::BitFlip => {
            let f = label.rsplit('(').next().unwrap_or("").trim_end_matches(')');
            format!("bit flip in {f}")
        },
        _ => crate::mutate::squeeze_idx(&crate::c01::squeeze(label)),
    }
}

fn is_partition_edit(space: &MutSpace, a: &[u8], b: &[u8]) -> bool {
    if a.len() != b.len() {
        return false;
    }
    let diffs: Vec<usize> = (0..a.len()).filter(|i| a[*i] != b[*i]).collect();
    diffs.len() == 1 && space.field_at(diffs[0]) == "fri.num_partitions_log2"
}

fn partition_mapping_unchanged(p2: &Proof, positions: &[usize], st: &Statement) -> bool {
    let parts = match kit::pan::catch(|| p2.fri_proof.num_partitions()) {
        Ok(p) => p,
        Err(_) => return false,
    };
    let k = st.opts.folding;
    let mut dom = st.spec.n * st.opts.blowup;
    let mut pos = positions.to_vec();
    for _ in 0..p2.fri_proof.num_layers() {
        pos = fri::folding::fold_positions(&pos, dom, k);
        // the documented layout, computed here (not with the library's own mapping function): position p of the folded
        // domain lives in partition p mod P at local index p div P; partitions hold (domain / folding) / P leaves each
        let target = dom / k;
        let psize = target / parts;
        let same = parts == 1 || pos.iter().all(|p| (p % parts).checked_mul(psize).and_then(|b| b.checked_add(p / parts)) == Some(*p));
        if !same {
            return false;
        }
        dom /= k;
    }
    true
}

// ------------------------------------------------------------------------------------------------
// adaptive substitution: remainder + c * Z_Q
// ------------------------------------------------------------------------------------------------

struct Adaptive<'a> {
    st: &'a Statement,
    out: &'a mut CaseOut,
    pair: usize,
}

impl<'a> PairFn for Adaptive<'a> {
    type Out = ();
    fn call<B: Fld, H: ElementHasher<BaseField = B> + Send + Sync + 'static>(self)
    where
        H::Digest: 'static,
    {
        let Adaptive { st, out, pair } = self;
        let pname = PAIRS[pair];
        let seed = match make_seed::<B, H>(st) {
            Ok(s) => s,
            Err(e) => {
                out.class(&format!("adaptive seed not available: {e}"));
                return;
            },
        };
        let ext = st.opts.ext as usize;
        let lay = codec::layout(&seed.bytes, seed.dlen, B::ELEMENT_BYTES, ext).expect("layout");
        let positions = learn_positions::<B, H>(&seed.proof, &seed.pubs);
        // fold the positions down to the last layer
        let k = st.opts.folding;
        let lde = st.spec.n * st.opts.blowup;
        let mut dom = lde;
        let mut pos = positions.clone();
        for _ in 0..seed.proof.fri_proof.num_layers() {
            pos = fri::folding::fold_positions(&pos, dom, k);
            dom /= k;
        }
        // the remainder elements of the proof
        let rem_fields: Vec<&codec::Field> = lay.fields.iter().filter(|f| f.name.starts_with("fri.remainder[")).collect();
        let rem_size = rem_fields.len();
        if pos.len() >= rem_size {
            out.class("adaptive: not enough freedom within the degree bound (more folded queries than remainder coefficients)");
            return;
        }
        let ctx = Ctx::ext(B::P, ext);
        let p = B::P;
        let w = powm(glue::root_of_unity::<B>(lde.ilog2()), (lde / dom) as u128, p);
        let off = B::GENERATOR.int();
        // Z_Q(x) = prod (x - x_q) over the folded query points (remainder variable convention of the implementation)
        let mut z: Vec<El> = vec![Ctx::ONE];
        for q in pos.iter() {
            let xq = mulm(off, powm(w, *q as u128, p), p);
            z = ctx.poly_mul(&z, &[ctx.neg(&[xq, 0, 0]), Ctx::ONE]);
        }
        let eb = B::ELEMENT_BYTES;
        let read_el = |bytes: &[u8], f: &codec::Field| -> El {
            let mut e = [0u128; 3];
            for i in 0..ext {
                let mut a = [0u8; 16];
                a[..eb].copy_from_slice(&bytes[f.off + i * eb..f.off + (i + 1) * eb]);
                e[i] = u128::from_le_bytes(a);
            }
            e
        };
        for c in [1u128, 2, p - 1] {
            let mut bytes = seed.bytes.clone();
            for (i, f) in rem_fields.iter().enumerate() {
                let zi = z.get(i).cloned().unwrap_or(Ctx::ZERO);
                let v = ctx.add(&read_el(&seed.bytes, f), &ctx.mul_base(&zi, c));
                for k in 0..ext {
                    bytes[f.off + k * eb..f.off + (k + 1) * eb].copy_from_slice(&v[k].to_le_bytes()[..eb]);
                }
            }
            out.evals(1);
            let Ok(Ok(p2)) = kit::pan::catch(|| Proof::from_bytes(&bytes)) else {
                out.class("adaptive mutant fails to parse");
                continue;
            };
            match verify_with::<B, H, Coin<H>>(p2, &seed.pubs, &lenient()) {
                VerifyOutcome::Accept => out.violation(
                    format!("{pname}: the FRI remainder plus a multiple of the vanishing polynomial of the queried points is accepted (remainder not tied to its commitment)"),
                    json!({"spec": st.spec.json(), "options": format!("{:?}", st.opts), "positions": positions, "folded_positions": pos, "multiple": c.to_string()}),
                ),
                _ => out.class("adaptive remainder substitution rejected"),
            }
            out.nontrivial();
        }
    }
}

struct SpaceLen<'a> {
    st: &'a Statement,
    fams: &'a [Fam],
}

impl<'a> PairFn for SpaceLen<'a> {
    type Out = u64;
    fn call<B: Fld, H: ElementHasher<BaseField = B> + Send + Sync + 'static>(self) -> u64
    where
        H::Digest: 'static,
    {
        let Ok(seed) = make_seed::<B, H>(self.st) else { return 1 };
        let Ok(lay) = codec::layout(&seed.bytes, seed.dlen, B::ELEMENT_BYTES, self.st.opts.ext as usize) else { return 1 };
        MutSpace::new(seed.bytes.clone(), lay, vec![0; B::ELEMENT_BYTES], self.st.opts.ext as usize, self.fams).len()
    }
}

pub fn space_len(pair: usize, st: &Statement, fams: &[Fam]) -> u64 {
    dispatch(pair, SpaceLen { st, fams })
}

pub fn subs(run: &Arc<Run>) -> Vec<Arc<dyn Sub>> {
    let thorough = run.tier().is_thorough();
    let seed = run.seed();
    run.rule("seed proofs per (field, hasher) pair (single-segment with 3 FRI layers and 27 queries over 256 LDE points, zero-layer FRI, auxiliary segment, Lagrange column with GKR proof; more in thorough): ALL single-bit flips of the serialized proof; through the layout codec every count/length/enum field set to {0,1,orig+-1,max-1,max}, every length-prefixed component truncated/extended by one byte and one item with and without fixing its length, every element/digest replaced by {0,1,p-1,neighbour}, neighbouring items and far items exchanged, trace<->constraint queries and FRI layers exchanged, gkr proof added/removed/with huge length, trailing bytes; adaptive: learn the query positions with a recording coin, replace the FRI remainder R by R + c*Z_Q for c in {1,2,p-1} (seeds with few queries and a larger remainder); oracle: if the mutant parses to a proof different from the original it must not be accepted, except alternative encodings of the same digest, a nonce that draws the same positions, and partition-count edits that map every queried position to the same leaf (decided by computation, not by hand); each mutant is one evaluation, distinct by (pair, seed, mutant index)");
    run.assume("hash collision-freeness; mutants that make the parser or verifier panic are counted here as not accepted and reported by C06");
    let seeds = seed_points(thorough);
    let pairs: Vec<usize> = if thorough { (0..12).collect() } else { vec![0, 3, 8, 11] };
    let mut subs: Vec<Arc<dyn Sub>> = vec![];
    let chunk = 2048u64;
    for &pair in pairs.iter() {
        for (label, pt) in seeds.iter() {
            let mut pt = *pt;
            if !pair_has_cubic(pair) && family::EXTS[pt.d[11]] == 3 {
                pt.d[11] = 1;
            }
            // quick: the big seed only for the first pair
            if !thorough && pair != 0 && *label == "single-segment, 3 FRI layers" {
                continue;
            }
            let Some(st) = family::statement(&pt, seed) else { continue };
            let approx = space_len(pair, &st, &C03_FAMS);
            let st = Arc::new(st);
            let st2 = st.clone();
            let label = *label;
            subs.push(sub_t(
                &format!("{}.{}.mutants", PAIRS[pair], label),
                approx / chunk + 1,
                900,
                true,
                move |cidx, out| {
                    dispatch(pair, Integrity { st: &st, out, pair, label, idx_range: (cidx * chunk, (cidx + 1) * chunk), thorough });
                },
                move |cidx| json!({"pair": PAIRS[pair], "seed": label, "spec": st2.spec.json(), "mutants": format!("{}..{}", cidx * chunk, (cidx + 1) * chunk)}),
            ));
        }
        // adaptive seeds: few queries, larger remainder
        let idx = |arr: &[usize], v: usize| arr.iter().position(|x| *x == v).unwrap();
        let mut adaptive_pts = vec![];
        // the last three have ZERO FRI layers (the remainder commitment is the only FRI commitment)
        for (q, rem, n) in [(1usize, 3usize, 16usize), (2, 7, 32), (2, 3, 16), (3, 15, 64), (3, 15, 16), (2, 7, 8), (1, 31, 16)] {
            let mut a = family::base_point();
            a.d[8] = idx(&family::QUERIES, q);
            a.d[13] = idx(&family::REMS, rem);
            a.d[2] = idx(&family::LENS, n);
            adaptive_pts.push(a);
            let mut b = a;
            b.d[11] = 1;
            adaptive_pts.push(b);
        }
        let apts = Arc::new(adaptive_pts);
        let ap2 = apts.clone();
        subs.push(sub_t(
            &format!("{}.adaptive_remainder", PAIRS[pair]),
            apts.len() as u64,
            300,
            true,
            move |idx, out| {
                if let Some(st) = family::statement(&apts[idx as usize], seed) {
                    dispatch(pair, Adaptive { st: &st, out, pair });
                }
            },
            move |idx| json!({"pair": PAIRS[pair], "point": family::describe(&ap2[idx as usize]), "substitution": "remainder + c * Z_Q"}),
        ));
    }
    subs
}
