//! C01 — completeness: every valid execution yields a proof that the verifier accepts, also after
//! a serialization round trip. Deviation-bounded product over (program x trace x options x pair).
use std::sync::Arc;

use air::proof::Proof;
use crypto::ElementHasher;
use glue::Fld;
use kit::engine::sub_t;
use kit::{json, Run, Sub};
use starkit::{build_statement, dispatch, lenient, main_valid, pair_has_cubic, prove_with, verify_with, Coin, PairFn, ProveOutcome, Statement, VerifyOutcome, PAIRS};

use crate::family::{self, Point};

#[derive(Debug)]
pub enum Res {
    /// outside the supported / admissible class (reason)
    Filtered(&'static str),
    Ok { proof_bytes: usize, unique: usize },
    /// coin exhausted its 1000 attempts (outside the claim)
    CoinExhausted,
    Violation(String, String),
    Harness(String),
}

struct Complete<'a> {
    st: &'a Statement,
}

impl<'a> PairFn for Complete<'a> {
    type Out = Res;
    fn call<B: Fld, H: ElementHasher<BaseField = B> + Send + Sync + 'static>(self) -> Res
    where
        H::Digest: 'static,
    {
        let st = self.st;
        if !st.opts.admissible(st.spec.n, st.spec.min_blowup()) {
            return Res::Filtered("options not admissible (FRI schedule / queries >= LDE size / blowup below constraint degree)");
        }
        let (cols, vals, pubs) = build_statement::<B>(st);
        // the computation description must be accepted by the AIR constructors (supported class)
        let info = starkit::SpecTrace::<B>::new(&st.spec, &cols, st.meta.clone()).info;
        if let Err(pr) = kit::pan::catch(|| <starkit::SpecAir<B> as air::Air>::new(info.clone(), pubs.clone(), st.opts.to_options())) {
            // the one documented refusal left after the admissibility filter: too many exemptions for the degree
            // budget - decided by a predicate written from the documentation, not by the constructor's own verdict
            if st.spec.exemptions_exceed_degree_budget() {
                return Res::Filtered("exemptions exceed the degree budget of the constraint evaluation domain (documented refusal)");
            }
            return Res::Violation(format!("a supported computation description is refused by the AIR constructor ({})", pr.class()), pr.msg);
        }
        if let Err(e) = main_valid::<B>(&st.spec, &cols, &vals) {
            return Res::Harness(format!("generated trace is not valid: {e}"));
        }
        let (out, _) = prove_with::<B, H, Coin<H>>(st, &cols, &pubs, None);
        let proof: Proof = match out {
            ProveOutcome::Proof(p) => *p,
            ProveOutcome::Err(e) => return Res::Violation("proof generation returns an error for a valid trace".into(), e),
            ProveOutcome::Panic(p) => {
                if p.msg.contains("failed to draw") {
                    return Res::CoinExhausted;
                }
                return Res::Violation(format!("proof generation panics for a valid trace ({})", p.class()), p.msg);
            },
        };
        match verify_with::<B, H, Coin<H>>(proof.clone(), &pubs, &lenient()) {
            VerifyOutcome::Accept => {},
            VerifyOutcome::Reject(e) => return Res::Violation(format!("honest proof is rejected ({e})"), String::new()),
            VerifyOutcome::Panic(e) => return Res::Violation(format!("verification of an honest proof panics ({e})"), String::new()),
        }
        // serialization round trip
        let bytes = proof.to_bytes();
        match kit::pan::catch(|| Proof::from_bytes(&bytes)) {
            Ok(Ok(p2)) => {
                if p2 != proof {
                    return Res::Violation("proof changes in a serialization round trip".into(), String::new());
                }
                match verify_with::<B, H, Coin<H>>(p2, &pubs, &lenient()) {
                    VerifyOutcome::Accept => {},
                    VerifyOutcome::Reject(e) => return Res::Violation(format!("honest proof is rejected after a serialization round trip ({e})"), String::new()),
                    VerifyOutcome::Panic(e) => return Res::Violation(format!("verification panics after a serialization round trip ({e})"), String::new()),
                }
            },
            Ok(Err(e)) => return Res::Violation(format!("serialized honest proof does not parse ({})", squeeze(&e.to_string())), String::new()),
            Err(p) => return Res::Violation(format!("parsing a serialized honest proof panics ({})", p.class()), String::new()),
        }
        Res::Ok { proof_bytes: bytes.len(), unique: proof.num_unique_queries as usize }
    }
}

pub fn squeeze(s: &str) -> String {
    let mut o = String::new();
    for c in s.chars() {
        if c.is_ascii_digit() {
            if !o.ends_with('#') {
                o.push('#');
            }
        } else {
            o.push(c);
        }
    }
    o
}

pub fn subs(run: &Arc<Run>) -> Vec<Arc<dyn Sub>> {
    let thorough = run.tier().is_thorough();
    let seed = run.seed();
    run.rule("base configuration (width 2, n=16, degree-2 rule, one single + one periodic assertion, 1 exemption, 3 queries, blowup 4, folding 2, remainder degree 3) per (field, hasher) pair; every configuration obtained by changing <= d of 14 dimensions (width {1,2,7,8,9,16,17,64,255}; rule {x^d+c for d=1,2,3,4,5,9; x*k+c with periodic cycle 2,4,n; rotation by a root of unity of order 2,4,n; constant; Fibonacci pair; all-constant}; n {8..256}; exemptions {1,2,3,n/2,n/2+1}; exempt-row fill {rule, 0, random}; 9 assertion sets (single at 0 / n-1 / both sides of the exemption boundary, periodic with first step 0 and non-zero and strides 2,n/2,n, sequences of n/2 and 2 values with zero and non-zero first step); aux {none, 1-2 running sums with 0-3 random elements, with Lagrange kernel column}; initial state {seeded,0,1,p-1}; queries {1,2,3,27,255}; blowup {2..128}; grinding {0,1,8}; extension {1,2,3}; folding {2,4,8,16}; remainder degree {0..255}) to any other value, d=1 quick / d=2 thorough, plus the full product of the shape-critical sub-space, plus the full product rule (19) x extension (3) x auxiliary kind (11, widths 1..12) x exemptions {1,3}, plus rules with repeating columns x every assertion set (11, incl. groups holding a periodic and a sequence assertion) x exemptions {1,2,3} x {no, quadratic} extension, plus proofs with 255 queries over a 2^17-point LDE domain (n=1024, blowup 128) of which at least one must carry 255 distinct positions; points outside the admissible class (FRI schedule, queries >= LDE size, constructor refusals) are filtered and counted; a case is non-trivial when its proof was produced, verified, serialized, parsed and verified again; distinct by (pair, point)");
    run.assume("traces are valid by construction and re-checked by the reference validity predicate; runs in which the coin exhausts its 1000 attempts are excluded as the property states");
    let mut points: Vec<Point> = family::within(if thorough { 2 } else { 1 });
    points.extend(family::shape_critical());
    points.extend(family::degree_extension_product());
    points.extend(family::repeating_rule_assertion_product());
    let points = Arc::new(points);
    let pairs = crate::pairs(run);
    let np = points.len() as u64;
    let mut subs: Vec<Arc<dyn Sub>> = vec![];
    for pair in pairs {
        let pts = points.clone();
        let pts2 = points.clone();
        subs.push(sub_t(
            &format!("{}.deviations", PAIRS[pair]),
            np,
            600,
            true,
            move |idx, out| {
                let mut p = pts[idx as usize];
                // cubic extension does not exist for the 128-bit field: map to quadratic (distinct point, same dimension)
                if !pair_has_cubic(pair) && family::EXTS[p.d[11]] == 3 {
                    p.d[11] = 1;
                }
                let Some(st) = family::statement(&p, seed) else {
                    out.class("filtered: point not constructible");
                    return;
                };
                match dispatch(pair, Complete { st: &st }) {
                    Res::Filtered(why) => out.class(&format!("filtered: {why}")),
                    Res::Ok { proof_bytes, .. } => {
                        out.nontrivial();
                        out.class(if proof_bytes < 4096 { "accepted (proof < 4 KiB)" } else if proof_bytes < 65536 { "accepted (proof 4-64 KiB)" } else { "accepted (proof > 64 KiB)" });
                    },
                    Res::CoinExhausted => out.class("excluded: coin exhausted"),
                    Res::Violation(sig, detail) => out.violation(format!("{}: {}", PAIRS[pair], sig), json!({"point": family::describe(&p), "spec": st.spec.json(), "options": format!("{:?}", st.opts), "detail": detail})),
                    Res::Harness(e) => out.violation(format!("HARNESS: {e}"), json!({"point": family::describe(&p)})),
                }
            },
            move |idx| json!({"pair": PAIRS[pair], "point": family::describe(&pts2[idx as usize])}),
        ));
    }
    // the largest number of query positions a proof can carry: 255 queries over an LDE domain large enough for all of
    // them to be distinct (2^17 points; the small domains above always contain repetitions). Trace seeds are tried in
    // order; the sub-space requires that at least one of them really gives 255 distinct positions.
    for pair in crate::pairs(run) {
        subs.push(sub_t(
            &format!("{}.max_unique_queries", PAIRS[pair]),
            if thorough { 6 } else { 2 },
            600,
            true,
            move |idx, out| {
                let p = family::base_point();
                let Some(mut st) = family::statement(&p, seed.wrapping_add(1000 + idx)) else { return };
                let mut spec = (*st.spec).clone();
                spec.n = 1024;
                st.spec = Arc::new(spec);
                st.opts.queries = 255;
                st.opts.blowup = 128;
                st.opts.folding = 8;
                st.opts.rem_deg = 31;
                match dispatch(pair, Complete { st: &st }) {
                    Res::Filtered(why) => out.violation(format!("HARNESS: max-unique-queries point filtered: {why}"), json!({})),
                    Res::Ok { unique, .. } => {
                        out.nontrivial();
                        if unique == 255 {
                            out.class("accepted with 255 distinct query positions");
                        } else {
                            out.class("accepted (255 queries, repeated positions)");
                        }
                    },
                    Res::CoinExhausted => out.class("excluded: coin exhausted"),
                    Res::Violation(sig, detail) => out.violation(format!("{}: {}", PAIRS[pair], sig), json!({"spec": st.spec.json(), "options": format!("{:?}", st.opts), "detail": detail})),
                    Res::Harness(e) => out.violation(format!("HARNESS: {e}"), json!({})),
                }
            },
            move |idx| json!({"pair": PAIRS[pair], "max_unique_queries_seed": idx}),
        ));
    }
    subs
}
