//! STARK-level checks: C01 completeness, C02 soundness, C03 proof integrity, C04 Fiat-Shamir
//! transcript, C06 untrusted input, C17 composition polynomial.
mod c01;
mod c02;
mod c03;
mod c04;
mod c06;
mod c17;
mod mutate;
mod family;

use kit::{Args, Run};

/// (field, hasher) pairs used by the quick tier: every field, every hasher at least once
pub const QUICK_PAIRS: [usize; 6] = [0, 3, 4, 6, 8, 11];

pub fn pairs(run: &Run) -> Vec<usize> {
    if run.tier().is_thorough() {
        (0..12).collect()
    } else {
        QUICK_PAIRS.to_vec()
    }
}

fn main() {
    let args = Args::parse();
    match args.prop.clone().as_str() {
        "C01" => {
            let run = Run::new(args, "exploration");
            let subs = c01::subs(&run);
            run.go(subs)
        },
        "C02" => {
            let run = Run::new(args, "exploration");
            let subs = c02::subs(&run);
            run.go(subs)
        },
        "C03" => {
            let run = Run::new(args, "exploration");
            let subs = c03::subs(&run);
            run.go(subs)
        },
        "C04" => {
            let run = Run::new(args, "model_checking");
            let subs = c04::subs(&run);
            run.go(subs)
        },
        "C06" => {
            let run = Run::new(args, "fault_enumeration");
            let subs = c06::subs(&run);
            run.go(subs)
        },
        "C17" => {
            let run = Run::new(args, "exploration");
            let subs = c17::subs(&run);
            run.go(subs)
        },
        other => kit::engine::die(&format!("stark binary does not serve {other}")),
    }
}
