//! STARK-level checks: C01 completeness, C02 soundness, C03 proof integrity, C04 Fiat-Shamir
//! transcript, C06 untrusted input, C17 composition polynomial.
mod c01;
mod c02;
mod c03;
mod c04;
mod c04_fri;
mod c06;
mod c17;
mod mutate;
mod family;

use kit::{Args, Run};

/// allocation meter for C06 ("never requests memory out of proportion to the size of the input")
#[global_allocator]
static ALLOC: kit::alloc::Tracking = kit::alloc::Tracking;

/// (field, hasher) pairs used by the quick tier: every field, every hasher at least once
pub const QUICK_PAIRS: [usize; 6] = [0, 3, 4, 6, 8, 11];

pub fn pairs(run: &Run) -> Vec<usize> {
    if run.tier().is_thorough() {
        (0..12).collect()
    } else {
        QUICK_PAIRS.to_vec()
    }
}

fn main() {
    let args = Args::parse();
    match args.prop.clone().as_str() {
        "C01" => {
            let run = Run::new(args, "exploration");
            let subs = c01::subs(&run);
            if run.replay_requested() {
                run.go(subs)
            }
            for s in subs {
                run.explore(s);
            }
            run.require(run.class_total("accepted with 255 distinct query positions") > 0, "C01: no proof with 255 distinct query positions was produced");
            run.finish()
        },
        "C02" => {
            let run = Run::new(args, "exploration");
            let subs = c02::subs(&run);
            run.go(subs)
        },
        "C03" => {
            let run = Run::new(args, "exploration");
            let subs = c03::subs(&run);
            run.go(subs)
        },
        "C04" => {
            let run = Run::new(args, "model_checking");
            let mut subs = c04::subs(&run);
            use crypto::hashers;
            use math::fields::{f128::BaseElement as B128, f62::BaseElement as B62, f64::BaseElement as B64, CubeExtension, QuadExtension};
            subs.extend(c04_fri::subs::<B128, hashers::Sha3_256<B128>>(&run, "sha3_256"));
            subs.extend(c04_fri::subs::<QuadExtension<B64>, hashers::Rp64_256>(&run, "rp64_256"));
            subs.extend(c04_fri::subs::<CubeExtension<B62>, hashers::Blake3_192<B62>>(&run, "blake3_192"));
            if run.tier().is_thorough() {
                subs.extend(c04_fri::subs::<B64, hashers::RpJive64_256>(&run, "rpjive64_256"));
                subs.extend(c04_fri::subs::<QuadExtension<B128>, hashers::Blake3_256<B128>>(&run, "blake3_256"));
                subs.extend(c04_fri::subs::<B62, hashers::Rp62_248>(&run, "rp62_248"));
            }
            run.go(subs)
        },
        "C06" => {
            let run = Run::new(args, "fault_enumeration");
            run.require(kit::alloc::installed(), "C06: the tracking allocator is not installed");
            let subs = c06::subs(&run);
            run.go(subs)
        },
        "C17" => {
            let run = Run::new(args, "exploration");
            let subs = c17::subs(&run);
            run.go(subs)
        },
        other => kit::engine::die(&format!("stark binary does not serve {other}")),
    }
}
