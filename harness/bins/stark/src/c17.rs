//! C17 — the committed composition polynomial equals its definition, as a polynomial identity:
//! H(x) = sum_t c_t * C_t(T(x), T(gx), periodic(x)) / Z_t(x) + sum_b c_b * (T_col(x) - V_b(x)) / Z_b(x)
//!        (+ Lagrange kernel terms), compared at D+1 distinct points (D bounds the degree of both sides).
use std::sync::Arc;

use air::{Air, AuxRandElements, ConstraintCompositionCoefficients, LagrangeConstraintsCompositionCoefficients, LagrangeKernelRandElements};
use crypto::ElementHasher;
use glue::Fld;
use kit::engine::sub_t;
use kit::refmath::{invm, mulm, powm, subm, Ctx, El};
use kit::rng::Rng;
use kit::{json, CaseOut, Run, Sub};
use math::FieldElement;
use prover::matrix::ColMatrix;
use prover::{CompositionPoly, ConstraintEvaluator, DefaultConstraintEvaluator, DefaultTraceLde, StarkDomain, TraceLde};
use starkit::prover::{aux_increment, build_aux_cols, el_of, of_el, periodic_value};
use starkit::{build_statement, dispatch, pair_has_cubic, AKind, PairFn, Rule, SpecAir, Statement, PAIRS};

use crate::family::{self, Point};

struct Comp<'a> {
    st: &'a Statement,
    out: &'a mut CaseOut,
    pair: usize,
    point: Point,
    seed: u64,
}

/// interpolant over the trace domain of a column of extension values
fn interp(ctx: &Ctx, g: u128, vals: &[El]) -> Vec<El> {
    let p = ctx.p;
    let xs: Vec<El> = (0..vals.len()).map(|i| [powm(g, i as u128, p), 0, 0]).collect();
    ctx.poly_interpolate(&xs, vals)
}

fn run_ext<B: Fld, E: FieldElement<BaseField = B>, H: ElementHasher<BaseField = B> + Send + Sync>(c: Comp<'_>) {
    let Comp { st, out, pair, point, seed } = c;
    let pname = PAIRS[pair];
    let spec = &st.spec;
    let (cols, vals, pubs) = build_statement::<B>(st);
    let info_j = || json!({"pair": pname, "point": family::describe(&point), "spec": spec.json(), "options": format!("{:?}", st.opts)});
    let trace = starkit::SpecTrace::<B>::new(spec, &cols, vec![]);
    let air = match kit::pan::catch(|| SpecAir::<B>::new(trace.info.clone(), pubs.clone(), st.opts.to_options())) {
        Ok(a) => a,
        Err(_) => {
            out.class(if spec.exemptions_exceed_degree_budget() { "filtered: exemptions exceed the degree budget (documented refusal)" } else { "skipped: description refused by the AIR constructor (reported by C01)" });
            return;
        },
    };
    let ext = E::EXTENSION_DEGREE;
    let ctx = Ctx::ext(B::P, ext);
    let p = B::P;
    let n = spec.n;
    let g = glue::root_of_unity::<B>(n.ilog2());
    let mut rng = Rng::labelled(seed, "c17");
    let rel = |rng: &mut Rng| glue::rand_el(rng, &ctx);
    // ---- randomness (drawn by the harness; the identity must hold for any values)
    let rands: Vec<El> = (0..spec.aux_rands()).map(|_| rel(&mut rng)).collect();
    let lag_r: Option<Vec<El>> = if spec.has_lagrange() { Some((0..n.ilog2()).map(|_| rel(&mut rng)).collect()) } else { None };
    let n_t = spec.width() + spec.sum_cols();
    let n_b = spec.asserts.len() + spec.sum_cols();
    let ct: Vec<El> = (0..n_t).map(|_| rel(&mut rng)).collect();
    let cb: Vec<El> = (0..n_b).map(|_| rel(&mut rng)).collect();
    let lag_c: Option<(Vec<El>, El)> = if spec.has_lagrange() { Some(((0..n.ilog2()).map(|_| rel(&mut rng)).collect(), rel(&mut rng))) } else { None };
    let coeffs = ConstraintCompositionCoefficients::<E> {
        transition: ct.iter().map(|x| of_el::<B, E>(x)).collect(),
        boundary: cb.iter().map(|x| of_el::<B, E>(x)).collect(),
        lagrange: lag_c.as_ref().map(|(t, b)| LagrangeConstraintsCompositionCoefficients { transition: t.iter().map(|x| of_el::<B, E>(x)).collect(), boundary: of_el::<B, E>(b) }),
    };
    // ---- the real pipeline: LDE, constraint evaluation, interpolation, column split
    let domain = StarkDomain::new(&air);
    let aux_cols_ref = build_aux_cols(spec, &ctx, &cols, &rands, lag_r.as_deref());
    let aux_rand = if spec.aux_width() > 0 {
        Some(AuxRandElements::new_with_lagrange(rands.iter().map(|x| of_el::<B, E>(x)).collect(), lag_r.as_ref().map(|r| LagrangeKernelRandElements::new(r.iter().map(|x| of_el::<B, E>(x)).collect()))))
    } else {
        None
    };
    let real = kit::pan::catch(|| {
        let (mut lde, _polys) = DefaultTraceLde::<E, H>::new(&trace.info, &trace.main, &domain);
        if spec.aux_width() > 0 {
            let aux = ColMatrix::new(aux_cols_ref.iter().map(|c| c.iter().map(|x| of_el::<B, E>(x)).collect()).collect());
            lde.set_aux_trace(&aux, &domain);
        }
        let ev = DefaultConstraintEvaluator::<SpecAir<B>, E>::new(&air, aux_rand, coeffs);
        let tr = ev.evaluate(&lde, &domain);
        CompositionPoly::new(tr, &domain, air.context().num_constraint_composition_columns())
    });
    let comp = match real {
        Ok(c) => c,
        Err(pr) => {
            out.violation(format!("{pname}: constraint evaluation / composition panics ({})", pr.class()), info_j());
            return;
        },
    };
    // ---- the reference definition
    let tpolys: Vec<Vec<El>> = cols.iter().map(|c| interp(&ctx, g, &c.iter().map(|v| [*v, 0, 0]).collect::<Vec<_>>())).collect();
    let apolys: Vec<Vec<El>> = aux_cols_ref.iter().map(|c| interp(&ctx, g, c)).collect();
    // assertions in the library's deterministic order: (stride, first step, column)
    let mut order: Vec<usize> = (0..spec.asserts.len()).collect();
    let key = |i: usize| {
        let a = &spec.asserts[i];
        match a.kind {
            AKind::Single(s) => (0usize, s, a.col),
            AKind::Periodic { first, stride } | AKind::Sequence { first, stride } => (stride, first, a.col),
        }
    };
    order.sort_by_key(|i| key(*i));
    // value polynomials of the assertions (interpolants through the named steps)
    let vpolys: Vec<(Vec<El>, Vec<usize>)> = spec
        .asserts
        .iter()
        .zip(vals.iter())
        .map(|(a, v)| {
            let steps = spec.steps_of(a);
            let xs: Vec<El> = steps.iter().map(|s| [powm(g, *s as u128, p), 0, 0]).collect();
            let ys: Vec<El> = (0..steps.len()).map(|k| [if v.len() == 1 { v[0] } else { v[k] }, 0, 0]).collect();
            (ctx.poly_interpolate(&xs, &ys), steps)
        })
        .collect();
    let e = spec.exemptions;
    let reference = |x: &El| -> Option<El> {
        let gx = ctx.mul_base(x, g);
        let cur: Vec<El> = tpolys.iter().map(|t| ctx.poly_eval(t, x)).collect();
        let nxt: Vec<El> = tpolys.iter().map(|t| ctx.poly_eval(t, &gx)).collect();
        let acur: Vec<El> = apolys.iter().map(|t| ctx.poly_eval(t, x)).collect();
        let anxt: Vec<El> = apolys.iter().map(|t| ctx.poly_eval(t, &gx)).collect();
        // transition constraints
        let mut num = Ctx::ZERO;
        for (i, rule) in spec.rules.iter().enumerate() {
            let ev = match rule {
                Rule::Pow { d, c } => ctx.sub(&nxt[i], &ctx.add(&ctx.pow(&cur[i], (*d).max(1) as u128), &[*c as u128 % p, 0, 0])),
                Rule::Periodic { cycle, c } => {
                    // periodic column: the degree < cycle interpolant of k_i over the cycle-th roots of unity, at x^(n/cycle)
                    let w = glue::root_of_unity::<B>(cycle.ilog2());
                    let xs: Vec<El> = (0..*cycle).map(|i| [powm(w, i as u128, p), 0, 0]).collect();
                    let ys: Vec<El> = (0..*cycle).map(|i| [periodic_value(i, *cycle), 0, 0]).collect();
                    let pk = ctx.poly_interpolate(&xs, &ys);
                    let k = ctx.poly_eval(&pk, &ctx.pow(x, (n / cycle) as u128));
                    ctx.sub(&nxt[i], &ctx.add(&ctx.mul(&cur[i], &k), &[*c as u128 % p, 0, 0]))
                },
                Rule::Periodic2 { cycle_a, cycle_b } => {
                    // two periodic columns of different cycle lengths, each the interpolant over its own roots of unity
                    let col_at = |cycle: usize| {
                        let w = glue::root_of_unity::<B>(cycle.ilog2());
                        let xs: Vec<El> = (0..cycle).map(|i| [powm(w, i as u128, p), 0, 0]).collect();
                        let ys: Vec<El> = (0..cycle).map(|i| [periodic_value(i, cycle), 0, 0]).collect();
                        let pk = ctx.poly_interpolate(&xs, &ys);
                        ctx.poly_eval(&pk, &ctx.pow(x, (n / cycle) as u128))
                    };
                    let (ka, kb) = (col_at(*cycle_a), col_at(*cycle_b));
                    ctx.sub(&nxt[i], &ctx.add(&ctx.mul(&cur[i], &ka), &kb))
                },
                Rule::Rot { order } => ctx.sub(&nxt[i], &ctx.mul_base(&cur[i], glue::root_of_unity::<B>(order.ilog2()))),
                Rule::FibA => ctx.sub(&nxt[i], &cur[i + 1]),
                Rule::FibB => ctx.sub(&nxt[i], &ctx.add(&cur[i - 1], &cur[i])),
                Rule::FibC => ctx.sub(&nxt[i], &ctx.add(&cur[i], &cur[i + 1])),
                Rule::FibD => ctx.sub(&nxt[i], &ctx.add(&cur[i], &nxt[i - 1])),
            };
            num = ctx.add(&num, &ctx.mul(&ct[i], &ev));
        }
        for j in 0..spec.sum_cols() {
            // s_j' - s_j - increment, with the main columns as polynomials
            let nr = rands.len();
            let m0 = &cur[0];
            let ml = &cur[spec.width() - 1];
            let mut inc = if nr == 0 { *m0 } else { ctx.mul(&rands[j % nr], m0) };
            if nr >= 2 {
                inc = ctx.add(&inc, &ctx.mul(&rands[(j + 1) % nr], ml));
            }
            let inc = ctx.pow(&inc, spec.aux_pow.max(1) as u128);
            let ev = ctx.sub(&ctx.sub(&anxt[j], &acur[j]), &inc);
            num = ctx.add(&num, &ctx.mul(&ct[spec.width() + j], &ev));
        }
        // transition divisor: prod over the non-exempt steps
        let mut zt = Ctx::ONE;
        for i in 0..n - e {
            zt = ctx.mul(&zt, &ctx.sub(x, &[powm(g, i as u128, p), 0, 0]));
        }
        if ctx.is_zero(&zt) {
            return None;
        }
        let mut h = ctx.div(&num, &zt);
        // boundary constraints of the main segment, coefficients in sorted order
        for (k, ai) in order.iter().enumerate() {
            let a = &spec.asserts[*ai];
            let (vp, steps) = &vpolys[*ai];
            let mut zb = Ctx::ONE;
            for s in steps {
                zb = ctx.mul(&zb, &ctx.sub(x, &[powm(g, *s as u128, p), 0, 0]));
            }
            if ctx.is_zero(&zb) {
                return None;
            }
            let numb = ctx.sub(&cur[a.col], &ctx.poly_eval(vp, x));
            h = ctx.add(&h, &ctx.mul(&cb[k], &ctx.div(&numb, &zb)));
        }
        // auxiliary boundary constraints: s_j(first step) = 0, sorted by column
        for j in 0..spec.sum_cols() {
            let zb = ctx.sub(x, &Ctx::ONE);
            h = ctx.add(&h, &ctx.mul(&cb[spec.asserts.len() + j], &ctx.div(&acur[j], &zb)));
        }
        // Lagrange kernel column
        if let (Some((lt, lb)), Some(r)) = (&lag_c, &lag_r) {
            let lp = &apolys[spec.sum_cols()];
            let v = r.len();
            let c0 = ctx.poly_eval(lp, x);
            for k in 1..=v {
                // c[v-k+1] = L(x * g^(2^(v-k)))
                let shift = powm(g, 1u128 << (v - k), p);
                let cj = ctx.poly_eval(lp, &ctx.mul_base(x, shift));
                let ev = ctx.sub(&ctx.mul(&r[v - k], &c0), &ctx.mul(&ctx.sub(&Ctx::ONE, &r[v - k]), &cj));
                // divisor x^(2^(k-1)) - 1
                let z = ctx.sub(&ctx.pow(x, 1u128 << (k - 1)), &Ctx::ONE);
                if ctx.is_zero(&z) {
                    return None;
                }
                h = ctx.add(&h, &ctx.div(&ctx.mul(&lt[k - 1], &ev), &z));
            }
            let mut av = Ctx::ONE;
            for ri in r.iter() {
                av = ctx.mul(&av, &ctx.sub(&Ctx::ONE, ri));
            }
            h = ctx.add(&h, &ctx.div(&ctx.mul(lb, &ctx.sub(&c0, &av)), &ctx.sub(x, &Ctx::ONE)));
        }
        Some(h)
    };
    let _ = aux_increment;
    // ---- D + 1 distinct points off the trace domain: s * w_{2D}^k, k = 0..=D, plus extension points
    let d = air.ce_domain_size();
    let w2 = glue::root_of_unity::<B>((2 * d).ilog2());
    let s = mulm(B::GENERATOR.int(), B::GENERATOR.int(), p);
    let mut points: Vec<El> = (0..=d).map(|k| [mulm(s, powm(w2, k as u128, p), p), 0, 0]).collect();
    for _ in 0..4 {
        points.push(rel(&mut rng));
    }
    let ncols = comp.num_columns();
    let mut checked = 0u64;
    for x in points.iter() {
        let Some(want) = reference(x) else { continue };
        let colv = comp.evaluate_at(of_el::<B, E>(x));
        // H(x) = sum_i x^(i*n) * H_i(x)
        let mut got = Ctx::ZERO;
        for (i, v) in colv.iter().enumerate() {
            got = ctx.add(&got, &ctx.mul(&ctx.pow(x, (i * n) as u128), &el_of::<B, E>(v)));
        }
        checked += 1;
        if got != want {
            out.violation(
                format!("{pname}: the composition polynomial differs from its definition at a point of the field"),
                json!({"case": info_j(), "point": glue::elj(x, ext), "composition_columns": ncols, "ce_domain": d}),
            );
            break;
        }
    }
    let _ = (invm, subm);
    out.evals(checked);
    if checked as usize > d {
        out.nontrivial();
        out.class(&format!("identity checked at D+1 points ({} composition columns)", ncols));
    }
}

impl<'a> PairFn for Comp<'a> {
    type Out = ();
    fn call<B: Fld, H: ElementHasher<BaseField = B> + Send + Sync + 'static>(self)
    where
        H::Digest: 'static,
    {
        if !self.st.opts.admissible(self.st.spec.n, self.st.spec.min_blowup()) {
            self.out.class("filtered: options not admissible");
            return;
        }
        // the verifier's side of the identity: it evaluates the same constraints at the out-of-domain point from the opened
        // frame and compares with the opened composition columns - on an honest proof the two must agree (a rejection with
        // any other reason belongs to C01)
        {
            let st = self.st;
            let (cols, _vals, pubs) = build_statement::<B>(st);
            if kit::pan::catch(|| <SpecAir<B> as Air>::new(starkit::SpecTrace::<B>::new(&st.spec, &cols, st.meta.clone()).info, pubs.clone(), st.opts.to_options())).is_ok() {
                if let (starkit::ProveOutcome::Proof(p), _) = starkit::prove_with::<B, H, starkit::Coin<H>>(st, &cols, &pubs, None) {
                    if let starkit::VerifyOutcome::Reject(e) = starkit::verify_with::<B, H, starkit::Coin<H>>(*p, &pubs, &starkit::lenient()) {
                        if e.contains("out-of-domain") || e.contains("OodConstraint") {
                            self.out.violation(
                                format!("{}: the verifier's evaluation of the constraints at the out-of-domain point disagrees with the committed composition polynomial of an honest proof", PAIRS[self.pair]),
                                json!({"spec": st.spec.json(), "options": format!("{:?}", st.opts), "error": e}),
                            );
                        }
                    }
                }
            }
        }
        match self.st.opts.ext {
            1 => run_ext::<B, B, H>(self),
            2 => run_ext::<B, math::fields::QuadExtension<B>, H>(self),
            _ => run_ext::<B, math::fields::CubeExtension<B>, H>(self),
        }
    }
}

fn points(thorough: bool) -> Vec<Point> {
    // the C01 family restricted to n <= 64 (n = 128 for the long sequence), single and double deviations
    // over the dimensions the composition polynomial depends on
    let dims: [usize; 9] = [0, 1, 2, 3, 4, 5, 6, 9, 11];
    let base = family::base_point();
    let ok = |p: &Point| {
        let n = family::LENS[p.d[2]];
        let w = family::WIDTHS[p.d[0]];
        (n <= 64 || (n == 128 && p.d[5] >= 6 && w <= 2)) && w <= 17
    };
    let shape: [usize; 5] = [2, 3, 5, 6, 9];
    let mut out = vec![base];
    for &i in dims.iter() {
        for v in 1..family::dim_size(i) {
            let mut p = base;
            p.d[i] = v;
            if ok(&p) {
                out.push(p);
            }
            for &j in dims.iter() {
                if j <= i {
                    continue;
                }
                for w in 1..family::dim_size(j) {
                    let mut q = p;
                    q.d[j] = w;
                    if ok(&q) {
                        out.push(q);
                    }
                    // thorough: triple deviations over the dimensions that select the constraint shapes
                    if thorough && shape.contains(&i) && shape.contains(&j) {
                        for &k in shape.iter() {
                            if k <= j {
                                continue;
                            }
                            for x in 1..family::dim_size(k) {
                                let mut r = q;
                                r.d[k] = x;
                                if ok(&r) {
                                    out.push(r);
                                }
                            }
                        }
                    }
                }
            }
        }
    }
    out.sort_by_key(|p| p.d);
    out.dedup();
    out
}

pub fn subs(run: &Arc<Run>) -> Vec<Arc<dyn Sub>> {
    let thorough = run.tier().is_thorough();
    let seed = run.seed();
    run.rule("computation descriptions of the C01 family with n <= 64 (n = 128 for 64-value sequences), all rules (incl. periodic columns of cycle 2, 4, n), exemptions, exempt-row fills, assertion sets (single / periodic / sequences below and above the representation switch, non-zero first steps), auxiliary kinds (running sums with 0-3 random elements, Lagrange kernel column), blowups (constraint-evaluation blowup smaller than the LDE blowup) and extensions, as single and double deviations (thorough: also triple deviations over trace length, exemptions, assertion set, auxiliary kind and blowup), x (field, hasher) pairs; for each: coefficients and auxiliary randomness are seeded values, DefaultTraceLde -> DefaultConstraintEvaluator::evaluate -> CompositionPoly::new is the real pipeline, and sum_i x^(i*n) H_i(x) is compared with the reference evaluation of the definition (trace polynomials by Lagrange interpolation, constraints, divisors as products over the enforcement steps, assertion value interpolants, library's coefficient order) at D+1 distinct points off the trace domain, D = constraint-evaluation domain size >= degree of both sides, i.e. as polynomials, plus extension-field points; non-trivial = description whose identity was checked at more than D points");
    run.assume("reference arithmetic; the verifier-side definition is tied to this one through C01 (OOD consistency check at the drawn point on every proof)");
    let pts = Arc::new(points(thorough));
    let np = pts.len() as u64;
    let pairs: Vec<usize> = if thorough { (0..12).collect() } else { vec![0, 8, 11] };
    let mut subs: Vec<Arc<dyn Sub>> = vec![];
    for pair in pairs {
        let (p1, p2) = (pts.clone(), pts.clone());
        subs.push(sub_t(
            &format!("{}.composition", PAIRS[pair]),
            np,
            600,
            true,
            move |idx, out| {
                let mut p = p1[idx as usize];
                if !pair_has_cubic(pair) && family::EXTS[p.d[11]] == 3 {
                    p.d[11] = 1;
                }
                let Some(st) = family::statement(&p, seed) else {
                    out.class("filtered: point not constructible");
                    return;
                };
                dispatch(pair, Comp { st: &st, out, pair, point: p, seed });
            },
            move |idx| json!({"pair": PAIRS[pair], "point": family::describe(&p2[idx as usize])}),
        ));
    }
    subs
}
