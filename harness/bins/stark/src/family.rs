//! The enumerated family: dimensions, alphabets and deviation-bounded configuration enumeration.
use std::sync::Arc;

use starkit::{AKind, ASpec, AirSpec, Aux, Opts, Rule, Statement, Tail};

/// one point of the configuration space, dimension by dimension (indices into the alphabets)
#[derive(Clone, Copy, Debug, PartialEq, Eq, Hash)]
pub struct Point {
    pub d: [usize; NDIMS],
}

pub const NDIMS: usize = 14;
pub const DIM_NAMES: [&str; NDIMS] = ["width", "rule", "trace_length", "exemptions", "tail", "assertions", "aux", "init", "queries", "blowup", "grinding", "extension", "folding", "remainder_degree"];

pub const WIDTHS: [usize; 9] = [2, 1, 7, 8, 9, 16, 17, 64, 255];
pub const LENS: [usize; 6] = [16, 8, 32, 64, 128, 256];
pub const TAILS: [Tail; 3] = [Tail::Continue, Tail::Zero, Tail::Random];
pub const AUXS: [Aux; 11] = [Aux::None, Aux::Sum { cols: 1, rands: 1 }, Aux::Sum { cols: 2, rands: 3 }, Aux::Sum { cols: 1, rands: 0 }, Aux::SumLagrange { cols: 1, rands: 1 }, Aux::SumLagrange { cols: 2, rands: 0 }, Aux::Sum { cols: 1, rands: 1 }, Aux::Sum { cols: 2, rands: 3 }, Aux::Sum { cols: 4, rands: 2 }, Aux::Sum { cols: 3, rands: 4 }, Aux::SumLagrange { cols: 11, rands: 5 }];
/// degree of the auxiliary transition constraints per auxiliary kind: the last two kinds put the auxiliary
/// constraints into a higher degree class than the base rule's main constraints (4 and 3 against 2)
pub const AUX_POWS: [u32; 11] = [1, 1, 1, 1, 1, 1, 4, 3, 1, 1, 1];
pub const INITS: [u8; 4] = [3, 0, 1, 2];
pub const QUERIES: [usize; 5] = [3, 1, 2, 27, 255];
pub const BLOWUPS: [usize; 7] = [4, 2, 8, 16, 32, 64, 128];
pub const GRINDS: [u32; 3] = [0, 1, 8];
pub const EXTS: [u8; 3] = [1, 2, 3];
pub const FOLDS: [usize; 4] = [2, 4, 8, 16];
pub const REMS: [usize; 9] = [3, 0, 1, 7, 15, 31, 63, 127, 255];

/// rule alphabet for column 0 (index 0 is the base value)
#[derive(Clone, Copy, Debug, PartialEq, Eq)]
pub enum RuleSel {
    Pow(u32),
    Periodic(usize), // cycle selector: 0 -> 2, 1 -> 4, 2 -> n
    Rot(usize),      // order selector: 0 -> 2, 1 -> 4, 2 -> n
    /// two periodic columns of different cycle lengths in one rule: selector 0 -> (2, n), 1 -> (n, 4), 2 -> (4, n/2)
    Periodic2(usize),
    /// classic Fibonacci pair a' = a + b, b' = b + a' (the next value of a enters both constraints)
    Fib2,
    Same,
    Fib,
    /// every column constant (x' = x): the fully degenerate trace
    AllSame,
}
pub const RULES: [RuleSel; 19] = [
    RuleSel::Pow(2),
    RuleSel::Pow(1),
    RuleSel::Pow(3),
    RuleSel::Pow(4),
    RuleSel::Pow(5),
    RuleSel::Pow(9),
    RuleSel::Periodic(0),
    RuleSel::Periodic(1),
    RuleSel::Periodic(2),
    RuleSel::Rot(0),
    RuleSel::Rot(1),
    RuleSel::Rot(2),
    RuleSel::Same,
    RuleSel::Fib,
    RuleSel::AllSame,
    RuleSel::Periodic2(0),
    RuleSel::Periodic2(1),
    RuleSel::Periodic2(2),
    RuleSel::Fib2,
];
/// exemption selector: 0 -> 1, 1 -> 2, 2 -> 3, 3 -> n/2, 4 -> n/2+1
pub const NEXEMPT: usize = 5;
/// assertion-set selector (see `asserts`)
pub const NASSERT: usize = 11;

pub fn dim_size(dim: usize) -> usize {
    match dim {
        0 => WIDTHS.len(),
        1 => RULES.len(),
        2 => LENS.len(),
        3 => NEXEMPT,
        4 => TAILS.len(),
        5 => NASSERT,
        6 => AUXS.len(),
        7 => INITS.len(),
        8 => QUERIES.len(),
        9 => BLOWUPS.len(),
        10 => GRINDS.len(),
        11 => EXTS.len(),
        12 => FOLDS.len(),
        _ => REMS.len(),
    }
}

/// trace metadata by the initial-state selector: none (base), 9 bytes (more than one 7-byte chunk, not a
/// multiple), 3 bytes, 17 bytes (more than one 15-byte chunk of the 128-bit field, not a multiple of 7 or 15)
pub fn meta_for(init_sel: usize) -> Vec<u8> {
    match init_sel {
        1 => (0..9u8).map(|i| 0xA0 + i).collect(),
        2 => vec![1, 2, 3],
        3 => (0..17u8).map(|i| 0x51 + 3 * i).collect(),
        _ => vec![],
    }
}

pub fn base_point() -> Point {
    Point { d: [0; NDIMS] }
}

fn sel3(sel: usize, n: usize) -> usize {
    match sel {
        0 => 2,
        1 => 4,
        _ => n,
    }
}

/// assertion sets; the last column is a rotation column whenever a periodic assertion needs one
fn asserts(sel: usize, n: usize, e: usize, width: usize) -> (Vec<ASpec>, Option<usize>) {
    let last = width - 1;
    let single0 = ASpec { col: 0, kind: AKind::Single(0) };
    match sel {
        // one single + one periodic assertion (base)
        0 => (vec![single0, ASpec { col: last, kind: AKind::Periodic { first: 0, stride: 4 } }], Some(4)),
        1 => (vec![single0], None),
        // first step, last step, both sides of the exemption boundary
        2 => (vec![single0, ASpec { col: 0, kind: AKind::Single(n - 1) }, ASpec { col: last, kind: AKind::Single(n - e) }, ASpec { col: last, kind: AKind::Single(n - e - 1) }], None),
        3 => (vec![single0, ASpec { col: last, kind: AKind::Periodic { first: 1, stride: 2 } }], Some(2)),
        4 => (vec![single0, ASpec { col: last, kind: AKind::Periodic { first: n / 2 - 1, stride: n / 2 } }], Some(n / 2)),
        5 => (vec![ASpec { col: last, kind: AKind::Periodic { first: 3, stride: n } }, single0], Some(n)),
        // sequences: stride 2 (n/2 values: 64 or more for n >= 128), zero and non-zero first step
        6 => (vec![ASpec { col: 0, kind: AKind::Sequence { first: 0, stride: 2 } }], None),
        7 => (vec![ASpec { col: 0, kind: AKind::Sequence { first: 1, stride: 2 } }, ASpec { col: last, kind: AKind::Sequence { first: 0, stride: n / 2 } }], None),
        8 => (vec![ASpec { col: last, kind: AKind::Sequence { first: 3, stride: 4 } }, single0, ASpec { col: 0, kind: AKind::Single(n / 2) }], None),
        // a periodic and a sequence assertion in ONE group (same stride, same non-zero first step): the periodic one on
        // the lower column (only for rules that make column 0 repeat with period 1 or 2) ...
        9 => (vec![ASpec { col: 0, kind: AKind::Periodic { first: 1, stride: 2 } }, ASpec { col: last, kind: AKind::Sequence { first: 1, stride: 2 } }], None),
        // ... and on the higher one (the rotation column; any rule)
        _ => (vec![ASpec { col: 0, kind: AKind::Sequence { first: 1, stride: 2 } }, ASpec { col: last, kind: AKind::Periodic { first: 1, stride: 2 } }], Some(2)),
    }
}

/// build the statement of a point; None if the point is outside the supported class by construction
pub fn statement(p: &Point, seed: u64) -> Option<Statement> {
    // the total width is capped at 255 columns: an auxiliary segment takes its columns from the main one
    let aux_w = match AUXS[p.d[6]] {
        Aux::None => 0,
        Aux::Sum { cols, .. } => cols,
        Aux::SumLagrange { cols, .. } => cols + 1,
    };
    let width = WIDTHS[p.d[0]].min(255 - aux_w);
    let n = LENS[p.d[2]];
    let e = match p.d[3] {
        0 => 1,
        1 => 2,
        2 => 3,
        3 => n / 2,
        _ => n / 2 + 1,
    };
    // a Fibonacci pair occupies two columns; when the assertion set also needs a rotation column the trace gets a
    // third one instead of the point being dropped
    let width = if width == 2 && matches!(RULES[p.d[1]], RuleSel::Fib | RuleSel::Fib2) && asserts(p.d[5], n, e, width).1.is_some() { 3 } else { width };
    // a one-column trace has no room for the rotation column a periodic assertion needs: it keeps the single
    // assertion on the first step instead of being dropped (so one-column shapes take part in every deviation)
    let asel = if width == 1 && asserts(p.d[5], n, e, width).1.is_some() { 1 } else { p.d[5] };
    if asel == 9 && (width < 2 || !matches!(RULES[p.d[1]], RuleSel::Rot(0) | RuleSel::Same | RuleSel::AllSame)) {
        return None;
    }
    let (asserts, rot) = asserts(asel, n, e, width);
    // for narrow traces two selectors can name the same cell: overlapping assertions are not part of the supported class
    let mut dedup: Vec<ASpec> = vec![];
    for a in asserts {
        if !dedup.contains(&a) {
            dedup.push(a);
        }
    }
    let asserts = dedup;
    // column 0: the selected rule; other columns: x' = x + c; last column a rotation if a periodic assertion needs it
    let mut rules: Vec<Rule> = (0..width).map(|c| Rule::Pow { d: 1, c: c as u64 + 1 }).collect();
    match RULES[p.d[1]] {
        RuleSel::Pow(d) => rules[0] = Rule::Pow { d, c: 1 },
        RuleSel::Periodic(s) => rules[0] = Rule::Periodic { cycle: sel3(s, n), c: 3 },
        RuleSel::Rot(s) => rules[0] = Rule::Rot { order: sel3(s, n) },
        RuleSel::Periodic2(s) => {
            let (a, b) = [(2, n), (n, 4), (4, (n / 2).max(2))][s];
            rules[0] = Rule::Periodic2 { cycle_a: a, cycle_b: b };
            // a second periodic rule on another column when there is room for one
            if width >= 3 {
                rules[1] = Rule::Periodic { cycle: 8.min(n), c: 5 };
            }
        },
        RuleSel::Same => rules[0] = Rule::Pow { d: 1, c: 0 },
        RuleSel::AllSame => {
            for r in rules.iter_mut() {
                *r = Rule::Pow { d: 1, c: 0 };
            }
        },
        RuleSel::Fib => {
            if width < 2 {
                return None;
            }
            rules[0] = Rule::FibA;
            rules[1] = Rule::FibB;
        },
        RuleSel::Fib2 => {
            if width < 2 {
                return None;
            }
            rules[0] = Rule::FibC;
            rules[1] = Rule::FibD;
        },
    }
    if let Some(order) = rot {
        if width < 2 || (width == 2 && matches!(RULES[p.d[1]], RuleSel::Fib | RuleSel::Fib2)) {
            return None;
        }
        rules[width - 1] = Rule::Rot { order };
    }
    let aux = AUXS[p.d[6]];
    let spec = AirSpec { n, rules, exemptions: e, asserts, aux, aux_pow: AUX_POWS[p.d[6]], tail: TAILS[p.d[4]], init: INITS[p.d[7]] };
    if spec.width() + spec.aux_width() > 255 {
        return None;
    }
    let opts = Opts { queries: QUERIES[p.d[8]], blowup: BLOWUPS[p.d[9]], grinding: GRINDS[p.d[10]], ext: EXTS[p.d[11]], folding: FOLDS[p.d[12]], rem_deg: REMS[p.d[13]] };
    Some(Statement { spec: Arc::new(spec), opts, seed, meta: meta_for(p.d[7]) })
}

/// all points within `d` deviations of the base point (each deviating dimension takes every other value)
pub fn within(d: usize) -> Vec<Point> {
    let base = base_point();
    let mut out = vec![base];
    if d >= 1 {
        for i in 0..NDIMS {
            for v in 1..dim_size(i) {
                let mut p = base;
                p.d[i] = v;
                out.push(p);
            }
        }
    }
    if d >= 2 {
        for i in 0..NDIMS {
            for j in i + 1..NDIMS {
                for v in 1..dim_size(i) {
                    for w in 1..dim_size(j) {
                        let mut p = base;
                        p.d[i] = v;
                        p.d[j] = w;
                        out.push(p);
                    }
                }
            }
        }
    }
    out
}

/// the shape-critical sub-space (full product): wide traces, many queries, maximal remainder,
/// long sequences, maximal exemptions, Lagrange column, constant trace
pub fn shape_critical() -> Vec<Point> {
    let mut out = vec![];
    let idx = |arr: &[usize], v: usize| arr.iter().position(|x| *x == v).unwrap();
    for &w in &[8usize, 9, 255] {
        for &q in &[3usize, 255] {
            for &(n, rem) in &[(16usize, 3usize), (128, 127), (256, 255)] {
                for &asel in &[1usize, 6, 7] {
                    for &esel in &[0usize, 4] {
                        for &aux in &[0usize, 4] {
                            for &rule in &[0usize, 14] {
                                let mut p = base_point();
                                p.d[0] = idx(&WIDTHS, w);
                                p.d[8] = idx(&QUERIES, q);
                                p.d[2] = idx(&LENS, n);
                                p.d[13] = idx(&REMS, rem);
                                p.d[5] = asel;
                                p.d[3] = esel;
                                p.d[6] = aux;
                                p.d[1] = rule;
                                if rule == 14 {
                                    p.d[7] = 2; // constant trace: x' = x from 1
                                }
                                out.push(p);
                            }
                        }
                    }
                }
            }
        }
    }
    out
}

/// every rule (constraint degree classes 1..9, i.e. 1..8 composition columns) x every field extension x every auxiliary
/// kind (auxiliary widths 1..12): the column counts of the extension-field matrices (composition polynomial columns,
/// auxiliary segment) meet every residue of the 8-column segment width under every extension degree
pub fn degree_extension_product() -> Vec<Point> {
    let mut out = vec![];
    for rule in 0..RULES.len() {
        for ext in 0..EXTS.len() {
            for aux in 0..AUXS.len() {
                for exemptions in [0usize, 2] {
                    let mut p = base_point();
                    p.d[1] = rule;
                    p.d[11] = ext;
                    p.d[6] = aux;
                    p.d[3] = exemptions;
                    if rule == 14 {
                        p.d[7] = 2;
                    }
                    // the smallest blowup of the alphabet that the degree class admits
                    for b in [0usize, 2, 3] {
                        p.d[9] = b;
                        if statement(&p, 0).map(|st| st.opts.admissible(st.spec.n, st.spec.min_blowup())).unwrap_or(false) {
                            break;
                        }
                    }
                    out.push(p);
                }
            }
        }
    }
    out
}

/// rules that make column 0 repeat with period 1, 2 or 4 x every assertion set x {1, 2, 3} exemptions x {no, quadratic}
/// extension: periodic and sequence assertions with repeating values, and groups that hold both kinds
pub fn repeating_rule_assertion_product() -> Vec<Point> {
    let mut out = vec![];
    for rule in [9usize, 10, 12, 14] {
        for asel in 0..NASSERT {
            for ex in 0..3usize {
                for ext in 0..2usize {
                    let mut p = base_point();
                    p.d[1] = rule;
                    p.d[5] = asel;
                    p.d[3] = ex;
                    p.d[11] = ext;
                    if rule == 14 {
                        p.d[7] = 2;
                    }
                    out.push(p);
                }
            }
        }
    }
    out
}

pub fn describe(p: &Point) -> kit::Value {
    let mut m = kit::serde_map();
    for i in 0..NDIMS {
        m.insert(DIM_NAMES[i].to_string(), kit::json!(p.d[i]));
    }
    kit::Value::Object(m)
}
