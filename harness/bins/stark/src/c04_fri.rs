//! C04, FRI level: every message the FRI prover sends before the query positions are known - each layer
//! commitment and the commitment to the remainder - is bound to what the proof later carries. The real
//! `FriProver` produces an honest proof; the real `FriVerifier` is then handed the same proof with ONE of
//! the commitments replaced. It must refuse, whatever the schedule, the remainder size and the positions.
use std::sync::Arc;

use crypto::{DefaultRandomCoin, Digest, ElementHasher, Hasher, RandomCoin};
use fri::{DefaultProverChannel, DefaultVerifierChannel, FriOptions, FriProver, FriVerifier};
use glue::{from_refs, rand_el, Elt, Fld};
use kit::engine::sub_t;
use kit::rng::Rng;
use kit::{json, pan, Run, Sub};
use math::{fft, StarkField};

#[derive(Clone, Copy, Debug)]
struct Cfg {
    n: usize,
    blowup: usize,
    k: usize,
    rem_deg: usize,
}

impl Cfg {
    fn num_layers(&self) -> usize {
        let mut d = self.n;
        let mut l = 0;
        while d > (self.rem_deg + 1) * self.blowup {
            d /= self.k;
            l += 1;
        }
        l
    }
    fn well_formed(&self) -> bool {
        let mut d = self.n;
        for _ in 0..self.num_layers() {
            if d % self.k != 0 || d / self.k < 2 {
                return false;
            }
            d /= self.k;
        }
        d / self.blowup >= 1 && d >= 2
    }
}

fn configs(thorough: bool) -> Vec<Cfg> {
    let mut v = vec![];
    let ns: &[usize] = if thorough { &[16, 32, 64, 128, 256, 512] } else { &[16, 32, 64, 128] };
    for &n in ns {
        for k in [2usize, 4, 8, 16] {
            for blowup in [2usize, 4, 8] {
                for rem_deg in [0usize, 1, 3, 7, 15] {
                    let c = Cfg { n, blowup, k, rem_deg };
                    if n / blowup >= 2 && c.well_formed() {
                        v.push(c);
                    }
                }
            }
        }
    }
    v
}

fn position_lists(n: usize) -> Vec<Vec<usize>> {
    // at most 255 positions per list (the documented limit of a batch opening)
    vec![vec![0], vec![n - 1], vec![1, n / 2 + 1], vec![3, 3], (0..n).step_by(3).take(255).collect(), (0..n.min(255)).collect()]
}

pub fn subs<E: Elt, H: ElementHasher<BaseField = E::BaseField> + 'static>(run: &Arc<Run>, hname: &'static str) -> Vec<Arc<dyn Sub>>
where
    E::BaseField: Fld,
    H::Digest: 'static,
{
    let thorough = run.tier().is_thorough();
    let seed = run.seed();
    let cfgs = Arc::new(configs(thorough));
    let c2 = cfgs.clone();
    let name = format!("{}/{}", E::tname(), hname);
    let nm = name.clone();
    vec![sub_t(
        &format!("{name}.fri_commitments_bound"),
        cfgs.len() as u64,
        300,
        true,
        move |idx, out| {
            let cfg = cfgs[idx as usize];
            let ctx = E::ctx();
            let mut rng = Rng::labelled(seed, &format!("c04-fri-{idx}"));
            let poly: Vec<E> = from_refs(&(0..cfg.n / cfg.blowup).map(|_| rand_el(&mut rng, &ctx)).collect::<Vec<_>>());
            let tw = fft::get_twiddles::<E::BaseField>(poly.len());
            let evals: Vec<E> = fft::evaluate_poly_with_offset(&poly, &tw, <E::BaseField as StarkField>::GENERATOR, cfg.blowup);
            let opts = FriOptions::new(cfg.blowup, cfg.k, cfg.rem_deg);
            let mut n_cases = 0u64;
            let mut honest_ok = 0u64;
            for positions in position_lists(cfg.n) {
                let mut channel = DefaultProverChannel::<E, H, DefaultRandomCoin<H>>::new(cfg.n, positions.len());
                let mut prover = FriProver::<E::BaseField, E, _, H>::new(opts.clone());
                prover.build_layers(&mut channel, evals.clone());
                let proof = prover.build_proof(&positions);
                let commitments: Vec<H::Digest> = channel.layer_commitments().to_vec();
                let claimed: Vec<E> = positions.iter().map(|p| evals[*p]).collect();
                let verdict = |coms: Vec<H::Digest>| -> Result<Result<(), String>, pan::PanicRec> {
                    let proof = proof.clone();
                    let opts = opts.clone();
                    let (claimed, positions) = (claimed.clone(), positions.clone());
                    pan::catch(move || {
                        let mut vch = DefaultVerifierChannel::<E, H>::new(proof, coms, cfg.n, cfg.k).map_err(|e| format!("channel: {e}"))?;
                        let mut coin = <DefaultRandomCoin<H> as RandomCoin>::new(&[]);
                        let verifier = FriVerifier::<E, _, H, DefaultRandomCoin<H>>::new(&mut vch, &mut coin, opts, cfg.n / cfg.blowup - 1).map_err(|e| format!("{:?}", e))?;
                        verifier.verify(&mut vch, &claimed, &positions).map_err(|e| format!("{:?}", e))
                    })
                };
                n_cases += 1;
                match verdict(commitments.clone()) {
                    Ok(Ok(())) => honest_ok += 1,
                    Ok(Err(e)) => {
                        out.violation(format!("{nm}: HARNESS: the honest FRI proof is rejected ({e})"), json!({"config": format!("{:?}", cfg), "positions": positions}));
                        continue;
                    },
                    Err(p) => {
                        out.violation(format!("{nm}: HARNESS: verification of the honest FRI proof panics ({})", p.class()), json!({"config": format!("{:?}", cfg)}));
                        continue;
                    },
                }
                for i in 0..commitments.len() {
                    let what = if i + 1 == commitments.len() { "the remainder commitment" } else { "a layer commitment" };
                    let mut repl: Vec<(&str, H::Digest)> = vec![("digest of another message", H::hash(b"another message")), ("default digest", H::Digest::default())];
                    if commitments.len() > 1 {
                        repl.push(("the neighbouring commitment", commitments[(i + 1) % commitments.len()]));
                    }
                    for (rname, r) in repl {
                        if r.as_bytes() == commitments[i].as_bytes() {
                            continue;
                        }
                        let mut coms = commitments.clone();
                        coms[i] = r;
                        n_cases += 1;
                        match verdict(coms) {
                            Ok(Err(_)) => {},
                            Ok(Ok(())) => out.violation(
                                format!("{nm}: a FRI proof is accepted although {what} the verifier absorbed is not the one the proof opens"),
                                json!({"config": format!("{:?}", cfg), "commitment_index": i, "commitments": commitments.len(), "replaced_by": rname, "positions": positions, "remainder_coefficients": (cfg.n / cfg.k.pow(cfg.num_layers() as u32)) / cfg.blowup}),
                            ),
                            Err(p) => out.violation(format!("{nm}: FRI verifier panics on a replaced commitment ({})", p.class()), json!({"config": format!("{:?}", cfg), "commitment_index": i})),
                        }
                    }
                }
            }
            // ---- the coin a caller draws its query positions from, after the commit phase, depends on EVERY commitment
            // the channel delivered - also on surplus ones (a proof built for a deeper schedule carries one layer and one
            // commitment more than the verifier's options define): the verifier either refuses the transcript or has
            // absorbed all of it
            {
                let positions = vec![1usize, cfg.n / 2 + 1];
                let coin_after = |proof: fri::FriProof, coms: Vec<H::Digest>| -> Result<Result<Vec<u8>, String>, pan::PanicRec> {
                    let opts = opts.clone();
                    pan::catch(move || {
                        let mut vch = DefaultVerifierChannel::<E, H>::new(proof, coms, cfg.n, cfg.k).map_err(|e| format!("channel: {e}"))?;
                        let mut coin = <DefaultRandomCoin<H> as RandomCoin>::new(&[]);
                        let _verifier = FriVerifier::<E, _, H, DefaultRandomCoin<H>>::new(&mut vch, &mut coin, opts, cfg.n / cfg.blowup - 1).map_err(|e| format!("{:?}", e))?;
                        let ints = coin.draw_integers(4, cfg.n, 0).map_err(|e| format!("{:?}", e))?;
                        let x: E = coin.draw().map_err(|e| format!("{:?}", e))?;
                        let mut o = utils::Serializable::to_bytes(&x);
                        o.extend(ints.iter().flat_map(|v| (*v as u64).to_le_bytes()));
                        Ok(o)
                    })
                };
                let mut transcripts: Vec<(&str, FriOptions)> = vec![("the schedule of the verifier's options", opts.clone())];
                if (cfg.rem_deg + 1) % cfg.k == 0 && (cfg.rem_deg + 1) / cfg.k >= 1 {
                    let deeper = Cfg { rem_deg: (cfg.rem_deg + 1) / cfg.k - 1, ..cfg };
                    if deeper.well_formed() && deeper.num_layers() == cfg.num_layers() + 1 {
                        transcripts.push(("one layer and one commitment more than the verifier's options define", FriOptions::new(cfg.blowup, cfg.k, deeper.rem_deg)));
                    }
                }
                // a proof built for a SHALLOWER schedule (one layer and one commitment fewer than the verifier's options
                // define, a remainder k times longer) and the deeper one above, handed to the complete verifier: both are
                // well-formed FRI proofs of the same function - for other options. The verifier must answer (never panic),
                // and it must not accept a transcript whose number of layers is not the one its options define.
                {
                    let mut others: Vec<(&str, FriOptions)> = transcripts.iter().skip(1).cloned().collect();
                    let shallow = Cfg { rem_deg: (cfg.rem_deg + 1) * cfg.k - 1, ..cfg };
                    if cfg.num_layers() >= 1 && shallow.well_formed() && shallow.num_layers() + 1 == cfg.num_layers() {
                        others.push(("one layer and one commitment fewer than the verifier's options define", FriOptions::new(cfg.blowup, cfg.k, shallow.rem_deg)));
                    }
                    for (tname, popts) in others {
                        for positions in [vec![1usize, cfg.n / 2 + 1], vec![0usize]] {
                            let mut channel = DefaultProverChannel::<E, H, DefaultRandomCoin<H>>::new(cfg.n, positions.len());
                            let mut prover = FriProver::<E::BaseField, E, _, H>::new(popts.clone());
                            prover.build_layers(&mut channel, evals.clone());
                            let proof = prover.build_proof(&positions);
                            let coms: Vec<H::Digest> = channel.layer_commitments().to_vec();
                            let claimed: Vec<E> = positions.iter().map(|p| evals[*p]).collect();
                            let opts = opts.clone();
                            let pos2 = positions.clone();
                            n_cases += 1;
                            let r = pan::catch(move || -> Result<(), String> {
                                let mut vch = DefaultVerifierChannel::<E, H>::new(proof, coms, cfg.n, cfg.k).map_err(|e| format!("channel: {e}"))?;
                                let mut coin = <DefaultRandomCoin<H> as RandomCoin>::new(&[]);
                                let verifier = FriVerifier::<E, _, H, DefaultRandomCoin<H>>::new(&mut vch, &mut coin, opts, cfg.n / cfg.blowup - 1).map_err(|e| format!("{:?}", e))?;
                                verifier.verify(&mut vch, &claimed, &pos2).map_err(|e| format!("{:?}", e))
                            });
                            match r {
                                Ok(Err(_)) => out.class(&format!("refused: a proof with {tname}")),
                                Ok(Ok(())) => out.violation(
                                    format!("{nm}: the FRI verifier accepts a proof with {tname}"),
                                    json!({"config": format!("{:?}", cfg), "positions": positions}),
                                ),
                                Err(p) => out.violation(
                                    format!("{nm}: the FRI verifier panics on a proof with {tname} ({})", p.class()),
                                    json!({"config": format!("{:?}", cfg), "positions": positions, "panic": p.msg}),
                                ),
                            }
                        }
                    }
                }
                for (tname, popts) in transcripts {
                    let mut channel = DefaultProverChannel::<E, H, DefaultRandomCoin<H>>::new(cfg.n, positions.len());
                    let mut prover = FriProver::<E::BaseField, E, _, H>::new(popts);
                    prover.build_layers(&mut channel, evals.clone());
                    let proof = prover.build_proof(&positions);
                    let commitments: Vec<H::Digest> = channel.layer_commitments().to_vec();
                    n_cases += 1;
                    let base = match coin_after(proof.clone(), commitments.clone()) {
                        Ok(Ok(b)) => b,
                        Ok(Err(_)) => {
                            out.class("surplus layer refused by the verifier before the query phase");
                            continue;
                        },
                        Err(p) => {
                            out.violation(format!("{nm}: FRI verifier construction panics ({})", p.class()), json!({"config": format!("{:?}", cfg), "transcript": tname}));
                            continue;
                        },
                    };
                    out.class(&format!("coin dependency checked on: {tname}"));
                    for i in 0..commitments.len() {
                        let mut coms = commitments.clone();
                        coms[i] = H::hash(b"another message");
                        n_cases += 1;
                        match coin_after(proof.clone(), coms) {
                            Ok(Ok(alt)) if alt == base => out.violation(
                                format!("{nm}: the public coin after the FRI commit phase does not depend on a commitment the verifier accepted"),
                                json!({"config": format!("{:?}", cfg), "transcript": tname, "commitment_index": i, "commitments": commitments.len()}),
                            ),
                            Ok(_) => {},
                            Err(p) => out.violation(format!("{nm}: FRI verifier construction panics ({})", p.class()), json!({"config": format!("{:?}", cfg), "transcript": tname, "commitment_index": i})),
                        }
                    }
                }
            }
            // ---- prover and verifier absorb the same messages: the positions the stand-alone prover channel
            // (`DefaultProverChannel`, the public entry point for FRI outside a STARK) draws after its commit phase are
            // the ones a verifier draws from its coin after `FriVerifier::new` absorbed the same commitments, for every
            // nonce of a small alphabet; and they change when the channel is handed other evaluations (another last
            // commitment) — the prover's positions depend on every message it sent.
            {
                let nq = 5usize.min(cfg.n - 1);
                let run_prover_q = |ev: Vec<E>, nonce: u64, nq: usize| -> Result<(Vec<usize>, fri::FriProof, Vec<H::Digest>), pan::PanicRec> {
                    let opts = opts.clone();
                    pan::catch(move || {
                        let mut channel = DefaultProverChannel::<E, H, DefaultRandomCoin<H>>::new(cfg.n, nq);
                        let mut prover = FriProver::<E::BaseField, E, _, H>::new(opts);
                        prover.build_layers(&mut channel, ev);
                        let pos = channel.draw_query_positions(nonce);
                        let mut dedup = pos.clone();
                        dedup.sort();
                        dedup.dedup();
                        let proof = prover.build_proof(&dedup);
                        (pos, proof, channel.layer_commitments().to_vec())
                    })
                };
                for nonce in [0u64, 1, 0xffff_ffff, u64::MAX] {
                    n_cases += 1;
                    let (ppos, proof, coms) = match run_prover_q(evals.clone(), nonce, nq) {
                        Ok(x) => x,
                        Err(p) => {
                            out.violation(format!("{nm}: the stand-alone FRI prover channel panics ({})", p.class()), json!({"config": format!("{:?}", cfg), "nonce": nonce}));
                            continue;
                        },
                    };
                    let opts2 = opts.clone();
                    let vpos = pan::catch(move || -> Result<Vec<usize>, String> {
                        let mut vch = DefaultVerifierChannel::<E, H>::new(proof, coms, cfg.n, cfg.k).map_err(|e| format!("channel: {e}"))?;
                        let mut coin = <DefaultRandomCoin<H> as RandomCoin>::new(&[]);
                        let _v = FriVerifier::<E, _, H, DefaultRandomCoin<H>>::new(&mut vch, &mut coin, opts2, cfg.n / cfg.blowup - 1).map_err(|e| format!("{:?}", e))?;
                        coin.draw_integers(nq, cfg.n, nonce).map_err(|e| format!("{:?}", e))
                    });
                    match vpos {
                        Ok(Ok(v)) if v == ppos => out.class("prover channel and verifier coin draw the same positions"),
                        Ok(Ok(v)) => out.violation(
                            format!("{nm}: the stand-alone FRI prover channel and the verifier's coin draw different query positions from the same transcript"),
                            json!({"config": format!("{:?}", cfg), "nonce": nonce, "prover": ppos, "verifier": v, "layers": cfg.num_layers()}),
                        ),
                        Ok(Err(e)) => out.violation(format!("{nm}: HARNESS: verifier refuses the honest transcript of the prover channel ({e})"), json!({"config": format!("{:?}", cfg)})),
                        Err(p) => out.violation(format!("{nm}: FRI verifier construction panics ({})", p.class()), json!({"config": format!("{:?}", cfg)})),
                    }
                    // other evaluations (one value changed: every commitment changes) must lead to other positions
                    if nonce == 0 {
                        let mut ev2 = evals.clone();
                        ev2[cfg.n - 1] = ev2[cfg.n - 1] + E::ONE;
                        n_cases += 1;
                        if let (Ok((p1, _, c1)), Ok((p2, _, c2))) = (run_prover_q(evals.clone(), nonce, 16usize.min(cfg.n - 1)), run_prover_q(ev2, nonce, 16usize.min(cfg.n - 1))) {
                            let differ = c1.iter().zip(c2.iter()).any(|(a, b)| a.as_bytes() != b.as_bytes());
                            if differ && p1 == p2 {
                                out.violation(
                                    format!("{nm}: the positions drawn by the stand-alone FRI prover channel do not depend on the commitments it sent"),
                                    json!({"config": format!("{:?}", cfg), "positions": p1, "commitments": c1.len()}),
                                );
                            }
                        }
                    }
                }
            }
            out.evals(n_cases);
            out.nontrivial_n(honest_ok.max(1));
            out.class(&format!("FRI schedule with {} layer(s), remainder of {} coefficient(s)", cfg.num_layers(), (cfg.n / cfg.k.pow(cfg.num_layers() as u32)) / cfg.blowup));
        },
        move |idx| json!({"fri_config": format!("{:?}", c2[idx as usize]), "replaced": "every commitment x 3 replacements x 6 position lists"}),
    ), general_bound_sub::<E, H>(run, &name)]
}

/// Degree bounds that are NOT of the form 2^k - 1 (the stand-alone verifier takes the bound as a number; STARK callers only
/// ever pass trace-length-derived bounds): bound + 1 = c * k^L with c in {3, 5, 6, 7}, so that the bound divides evenly through
/// every layer and `FriVerifier::new` accepts it. The honest prover's proof for a polynomial of EVERY degree in
/// bound+1 ..= P-1 (P = the next power of two, i.e. the polynomials the evaluation domain can carry beyond the bound) must
/// not be accepted - "evaluations of a polynomial whose degree exceeds the bound by any amount are rejected".
fn general_bound_sub<E: Elt, H: ElementHasher<BaseField = E::BaseField> + 'static>(run: &Arc<Run>, name: &str) -> Arc<dyn Sub>
where
    E::BaseField: Fld,
    H::Digest: 'static,
{
    let seed = run.seed();
    let mut cases: Vec<(usize, usize, usize, usize)> = vec![]; // (bound + 1, folding, blowup, remainder max degree)
    for k in [2usize, 4, 8] {
        for c in [3usize, 5, 6, 7] {
            for layers in 1..=3u32 {
                let m = c * k.pow(layers);
                let p2 = m.next_power_of_two();
                if p2 > 256 || m == p2 {
                    continue;
                }
                for blowup in [2usize, 8] {
                    // remainder limit that gives exactly `layers` layers for the domain p2 * blowup
                    let rem = p2 / k.pow(layers);
                    if rem >= 1 && p2 * blowup >= 8 {
                        cases.push((m, k, blowup, rem - 1));
                    }
                }
            }
        }
    }
    let cases = Arc::new(cases);
    let c2 = cases.clone();
    let nm = name.to_string();
    sub_t(
        &format!("{name}.degree_bound_not_a_power_of_two"),
        cases.len() as u64,
        300,
        true,
        move |idx, out| {
            let (m, k, blowup, rem_deg) = cases[idx as usize];
            let p2 = m.next_power_of_two();
            let n = p2 * blowup;
            let ctx = E::ctx();
            let opts = FriOptions::new(blowup, k, rem_deg);
            let tw = fft::get_twiddles::<E::BaseField>(p2);
            let mut rng = Rng::labelled(seed, &format!("c05-bound-{idx}"));
            let mut tried = 0u64;
            for d in m..p2 {
                // a polynomial of degree exactly d > bound = m - 1
                let mut poly: Vec<E> = from_refs(&(0..p2).map(|i| if i <= d { rand_el(&mut rng, &ctx) } else { [0u128; 3] }).collect::<Vec<_>>());
                if poly[d] == E::ZERO {
                    poly[d] = E::ONE;
                }
                let evals: Vec<E> = fft::evaluate_poly_with_offset(&poly, &tw, <E::BaseField as StarkField>::GENERATOR, blowup);
                for positions in [vec![0usize], vec![1usize, n / 2 + 1], vec![n - 1, 3, 2]] {
                    let mut channel = DefaultProverChannel::<E, H, DefaultRandomCoin<H>>::new(n, positions.len());
                    let mut prover = FriProver::<E::BaseField, E, _, H>::new(opts.clone());
                    prover.build_layers(&mut channel, evals.clone());
                    let proof = prover.build_proof(&positions);
                    let coms: Vec<H::Digest> = channel.layer_commitments().to_vec();
                    let claimed: Vec<E> = positions.iter().map(|p| evals[*p]).collect();
                    let (o2, pos2) = (opts.clone(), positions.clone());
                    tried += 1;
                    let r = pan::catch(move || -> Result<(), String> {
                        let mut vch = DefaultVerifierChannel::<E, H>::new(proof, coms, n, k).map_err(|e| format!("channel: {e}"))?;
                        let mut coin = <DefaultRandomCoin<H> as RandomCoin>::new(&[]);
                        let verifier = FriVerifier::<E, _, H, DefaultRandomCoin<H>>::new(&mut vch, &mut coin, o2, m - 1).map_err(|e| format!("{:?}", e))?;
                        verifier.verify(&mut vch, &claimed, &pos2).map_err(|e| format!("{:?}", e))
                    });
                    let info = || json!({"degree_bound": m - 1, "polynomial_degree": d, "folding": k, "blowup": blowup, "remainder_max_degree": rem_deg, "domain": n, "positions": positions});
                    match r {
                        Ok(Err(_)) => out.class("polynomial above a bound that is not 2^k - 1: refused"),
                        Ok(Ok(())) => out.violation(format!("{nm}: the FRI verifier accepts evaluations of a polynomial whose degree exceeds the claimed bound (a bound that is not of the form 2^k - 1)"), info()),
                        Err(p) => out.violation(format!("{nm}: the FRI verifier panics for a degree bound that is not of the form 2^k - 1 ({})", p.class()), info()),
                    }
                }
            }
            out.evals(tried);
            out.nontrivial_n(tried.max(1));
        },
        move |idx| json!({"bound_plus_1": c2[idx as usize].0, "folding": c2[idx as usize].1, "blowup": c2[idx as usize].2, "remainder_max_degree": c2[idx as usize].3}),
    )
}
