//! C02 — soundness: proofs of invalid executions, or for other public inputs, are rejected.
//! Every (column, step) cell of the main and of the auxiliary segment is corrupted; the oracle is
//! the reference validity predicate. Then every perturbation of the statement of an accepted proof.
use std::sync::Arc;

use air::proof::Proof;
use crypto::ElementHasher;
use glue::Fld;
use kit::engine::sub_t;
use kit::{json, CaseOut, Run, Sub};
use starkit::{build_statement, dispatch, lenient, main_valid, pair_has_cubic, prove_with, verify_with, AuxCorruption, Coin, PairFn, ProveOutcome, SpecPub, Statement, VerifyOutcome, PAIRS};

use crate::family::{self, Point};

fn delta(which: u8, p: u128, step: usize) -> u128 {
    match which {
        0 => 1,
        1 => p - 1,
        _ => (0x9E37_79B9_7F4A_7C15u128 * (step as u128 + 3)) % (p - 2) + 2,
    }
}

struct Corrupt<'a> {
    st: &'a Statement,
    out: &'a mut CaseOut,
    pair: usize,
    point: Point,
}

impl<'a> PairFn for Corrupt<'a> {
    type Out = ();
    fn call<B: Fld, H: ElementHasher<BaseField = B> + Send + Sync + 'static>(self)
    where
        H::Digest: 'static,
    {
        let Corrupt { st, out, pair, point } = self;
        let pname = PAIRS[pair];
        if !st.opts.admissible(st.spec.n, st.spec.min_blowup()) {
            out.class("filtered: options not admissible");
            return;
        }
        let (cols, vals, pubs) = build_statement::<B>(st);
        let info = starkit::SpecTrace::<B>::new(&st.spec, &cols, st.meta.clone()).info;
        if kit::pan::catch(|| <starkit::SpecAir<B> as air::Air>::new(info.clone(), pubs.clone(), st.opts.to_options())).is_err() {
            // completeness (is the refusal legitimate?) is C01's question; here the point is only skipped
            out.class(if st.spec.exemptions_exceed_degree_budget() { "filtered: exemptions exceed the degree budget (documented refusal)" } else { "skipped: description refused by the AIR constructor (reported by C01)" });
            return;
        }
        if main_valid::<B>(&st.spec, &cols, &vals).is_err() {
            out.violation("HARNESS: generated trace invalid", json!({}));
            return;
        }
        let ctxj = |what: &str, col: usize, step: usize, d: u8| json!({"pair": pname, "point": family::describe(&point), "spec": st.spec.json(), "options": format!("{:?}", st.opts), "segment": what, "column": col, "step": step, "delta": d});
        // ---- the honest proof (also the seed for the statement perturbations)
        let (honest, _) = prove_with::<B, H, Coin<H>>(st, &cols, &pubs, None);
        let honest: Proof = match honest {
            ProveOutcome::Proof(p) => *p,
            ProveOutcome::Err(e) => {
                out.violation(format!("{pname}: proof generation returns an error for a valid trace ({})", crate::c01::squeeze(&e)), json!({"point": family::describe(&point), "spec": st.spec.json(), "options": format!("{:?}", st.opts)}));
                return;
            },
            ProveOutcome::Panic(pr) => {
                if pr.msg.contains("failed to draw") {
                    out.class("excluded: coin exhausted");
                } else {
                    out.violation(format!("{pname}: proof generation panics for a valid trace ({})", pr.class()), json!({"point": family::describe(&point), "spec": st.spec.json(), "options": format!("{:?}", st.opts)}));
                }
                return;
            },
        };
        if verify_with::<B, H, Coin<H>>(honest.clone(), &pubs, &lenient()) != VerifyOutcome::Accept {
            out.class("honest proof not accepted (C01's business)");
            return;
        }
        let mut n_cases = 0u64;
        // A single-segment trace whose columns are all constant commits to constant polynomials: every Merkle
        // leaf is the same, the composition polynomial is zero, and the proof verifies under EVERY challenge
        // and every position set of the same size. For such a statement an accepted perturbation that leaves
        // the statement true (another encoding of the same constraints, other options) is not a soundness
        // violation - the same witness proves it - so those two oracles are not applied to it. (The transcript
        // binding itself is C04's subject and is checked there by value.)
        let degenerate = st.spec.aux_width() == 0 && cols.iter().all(|c| c.iter().all(|x| *x == c[0]));
        // ---- every main cell
        let p = B::P;
        for col in 0..st.spec.width() {
            for step in 0..st.spec.n {
                for d in 0..3u8 {
                    let mut c2 = cols.clone();
                    c2[col][step] = kit::refmath::addm(c2[col][step], delta(d, p, step), p);
                    let verdict = main_valid::<B>(&st.spec, &c2, &vals);
                    n_cases += 1;
                    let (po, _) = prove_with::<B, H, Coin<H>>(st, &c2, &pubs, None);
                    judge::<B, H>(out, &pubs, verdict, po, || ctxj("main", col, step, d));
                }
            }
        }
        // ---- every auxiliary cell
        for col in 0..st.spec.aux_width() {
            for step in 0..st.spec.n {
                for d in 0..3u8 {
                    n_cases += 1;
                    let (po, verdict) = prove_with::<B, H, Coin<H>>(st, &cols, &pubs, Some(AuxCorruption { col, step, delta: d, custom: None }));
                    let verdict = verdict.unwrap_or(Ok(()));
                    judge::<B, H>(out, &pubs, verdict, po, || ctxj("aux", col, step, d));
                }
            }
        }
        // ---- whole columns shifted by a constant: transitions of the form x' = x + c and running sums keep holding,
        // so only the assertions on that column can reject (a single corrupted cell always breaks a transition too)
        for col in 0..st.spec.width() {
            for d in 0..2u8 {
                let mut c2 = cols.clone();
                for step in 0..st.spec.n {
                    c2[col][step] = kit::refmath::addm(c2[col][step], delta(d, p, 0), p);
                }
                let verdict = main_valid::<B>(&st.spec, &c2, &vals);
                n_cases += 1;
                let (po, _) = prove_with::<B, H, Coin<H>>(st, &c2, &pubs, None);
                judge::<B, H>(out, &pubs, verdict, po, || ctxj("main (whole column shifted)", col, 0, d));
            }
        }
        for col in 0..st.spec.sum_cols() {
            for d in 0..3u8 {
                n_cases += 1;
                let (po, verdict) = prove_with::<B, H, Coin<H>>(st, &cols, &pubs, Some(AuxCorruption { col, step: usize::MAX, delta: d, custom: None }));
                let verdict = verdict.unwrap_or(Ok(()));
                judge::<B, H>(out, &pubs, verdict, po, || ctxj("aux (whole column shifted)", col, 0, d));
            }
        }
        // ---- another valid execution with a compensating auxiliary shift: the first column restarted from its asserted
        // initial value + d (all of its transitions hold), the first auxiliary column shifted as a whole by -d (all
        // of its transitions hold): only the two boundary assertions on the first step are violated, by opposite
        // amounts - they cancel if the two constraints are combined with the same coefficient
        if st.spec.sum_cols() >= 1 && st.spec.asserts.iter().any(|a| a.col == 0 && a.kind == starkit::AKind::Single(0)) {
            for d in [1u128, p - 1, 12345] {
                let mut c2 = cols.clone();
                c2[0][0] = kit::refmath::addm(c2[0][0], d, p);
                if !starkit::prover::regenerate_column::<B>(&st.spec, &mut c2, 0, 0) {
                    break;
                }
                let verdict = main_valid::<B>(&st.spec, &c2, &vals);
                n_cases += 1;
                let (po, _) = prove_with::<B, H, Coin<H>>(st, &c2, &pubs, Some(AuxCorruption { col: 0, step: usize::MAX, delta: 0, custom: Some(p - d) }));
                judge::<B, H>(out, &pubs, verdict, po, || ctxj("main restarted from another initial value, auxiliary column shifted by the opposite amount", 0, 0, 0));
            }
        }
        // ---- statement perturbations of the accepted honest proof
        for (ai, v) in pubs.values.iter().enumerate() {
            for k in 0..v.len().min(4) {
                for sign in [1u128, p - 1] {
                    let mut p2 = pubs.clone();
                    p2.values[ai][k] = B::mk(kit::refmath::addm(p2.values[ai][k].int(), sign, p));
                    n_cases += 1;
                    if verify_with::<B, H, Coin<H>>(honest.clone(), &p2, &lenient()) == VerifyOutcome::Accept {
                        out.violation(format!("{pname}: a proof is accepted for a different asserted value"), json!({"point": family::describe(&point), "assertion": ai, "value_index": k}));
                    }
                }
            }
        }
        // a different computation description of the same shape (rule constant changed)
        {
            let mut spec2 = (*st.spec).clone();
            spec2.init ^= 1; // different initial-state selector: same AIR shape, different statement encoding
            let p2 = SpecPub { spec: Arc::new(spec2), values: pubs.values.clone(), extra: vec![] };
            n_cases += 1;
            if verify_with::<B, H, Coin<H>>(honest.clone(), &p2, &lenient()) == VerifyOutcome::Accept {
                // the other encoding describes the same constraints: the committed trace satisfies it too, so
                // accepting is only wrong if the proof could not have been produced for it - which is what the
                // challenge-independence test below decides
                if !degenerate {
                    out.violation(format!("{pname}: a proof is accepted for a different statement encoding (public inputs not bound)"), json!({"point": family::describe(&point)}));
                } else {
                    out.class("all-constant trace: proof valid under every challenge, accepted for an equivalent statement");
                }
            }
            let mut spec3 = (*st.spec).clone();
            if let starkit::Rule::Pow { d, c } = spec3.rules[0] {
                spec3.rules[0] = starkit::Rule::Pow { d, c: c + 1 };
                let p3 = SpecPub { spec: Arc::new(spec3), values: pubs.values.clone(), extra: vec![] };
                n_cases += 1;
                if verify_with::<B, H, Coin<H>>(honest.clone(), &p3, &lenient()) == VerifyOutcome::Accept {
                    out.violation(format!("{pname}: a proof is accepted for a different transition rule"), json!({"point": family::describe(&point)}));
                }
            }
        }
        // every field of the proof context changed (widths, length, metadata, modulus, each option)
        let bytes = honest.to_bytes();
        let ctx_len = 6 + st.meta.len() + 1 + B::ELEMENT_BYTES.max(8).min(16) + 6;
        for off in 0..ctx_len.min(bytes.len()) {
            for newv in [bytes[off].wrapping_add(1), bytes[off].wrapping_sub(1), bytes[off] ^ 0x80, 0, 255] {
                if newv == bytes[off] {
                    continue;
                }
                let mut b2 = bytes.clone();
                b2[off] = newv;
                n_cases += 1;
                let r = kit::pan::catch(|| Proof::from_bytes(&b2));
                if let Ok(Ok(p2)) = r {
                    if p2.context == honest.context {
                        continue;
                    }
                    if verify_with::<B, H, Coin<H>>(p2, &pubs, &lenient()) == VerifyOutcome::Accept {
                        if !degenerate {
                            out.violation(format!("{pname}: a proof is accepted with a changed proof context (trace shape / options not bound)"), json!({"point": family::describe(&point), "context_byte": off, "new_value": newv}));
                        } else {
                            out.class("all-constant trace: proof valid under every challenge, accepted with other options");
                        }
                    }
                }
            }
        }
        out.evals(n_cases);
        out.nontrivial_n(n_cases);
    }
}

fn judge<B: Fld, H: ElementHasher<BaseField = B> + Send + Sync>(out: &mut CaseOut, pubs: &SpecPub<B>, verdict: Result<(), String>, po: ProveOutcome, info: impl Fn() -> kit::Value) {
    match (verdict, po) {
        (Err(_), ProveOutcome::Proof(p)) => match verify_with::<B, H, Coin<H>>(*p, pubs, &lenient()) {
            VerifyOutcome::Accept => out.violation("a proof generated from an invalid trace is accepted", info()),
            VerifyOutcome::Reject(_) => out.class("invalid trace: proof rejected"),
            VerifyOutcome::Panic(e) => out.violation(format!("verification of a proof from an invalid trace panics ({e})"), info()),
        },
        (Err(_), _) => out.class("invalid trace: prover failed"),
        (Ok(()), ProveOutcome::Proof(p)) => match verify_with::<B, H, Coin<H>>(*p, pubs, &lenient()) {
            VerifyOutcome::Accept => out.class("corruption leaves the trace valid: accepted"),
            VerifyOutcome::Reject(e) => out.violation(format!("a corruption that leaves the trace valid leads to rejection ({e})"), info()),
            VerifyOutcome::Panic(e) => out.violation(format!("verification panics for a still-valid trace ({e})"), info()),
        },
        (Ok(()), ProveOutcome::Err(e)) => out.violation(format!("prover fails on a still-valid trace ({})", crate::c01::squeeze(&e)), info()),
        (Ok(()), ProveOutcome::Panic(p)) => out.violation(format!("prover panics on a still-valid trace ({})", p.class()), info()),
    }
}

fn points(thorough: bool) -> Vec<Point> {
    // reduced family: widths 1-2 (+ aux up to 3 columns), n in {8, 16}, every rule, exemption, tail,
    // assertion-set, aux and extension value, each as a single deviation from two small bases
    let mut out = vec![];
    let dims: [usize; 7] = [1, 3, 4, 5, 6, 7, 11];
    for (w_idx, n_idx) in [(0usize, 1usize), (1, 1), (0, 0)] {
        let mut base = family::base_point();
        base.d[0] = w_idx;
        base.d[2] = n_idx;
        if family::WIDTHS[w_idx] == 1 {
            // a one-column trace cannot carry the base's periodic assertion (it needs a rotation column):
            // its base is the single assertion on the first step
            base.d[5] = 1;
        }
        out.push(base);
        for &dim in dims.iter() {
            for v in 0..family::dim_size(dim) {
                if v == base.d[dim] {
                    continue;
                }
                let mut p = base;
                p.d[dim] = v;
                out.push(p);
                if dim != 6 {
                    // second deviation: with an auxiliary segment (more auxiliary than main constraints for the
                    // one-column base, fewer for the two-column one; with a Lagrange kernel column)
                    for aux in [2usize, 4] {
                        let mut q = p;
                        q.d[6] = aux;
                        out.push(q);
                    }
                }
                if thorough {
                    // every second deviation
                    for &dim2 in dims.iter() {
                        if dim2 <= dim {
                            continue;
                        }
                        for w in 0..family::dim_size(dim2) {
                            if w == base.d[dim2] {
                                continue;
                            }
                            let mut q = p;
                            q.d[dim2] = w;
                            out.push(q);
                        }
                    }
                }
            }
        }
        // columns that repeat with a short period (rotations of order 2 and 4, periodic rule of cycle 2, constant
        // columns) under every assertion set: sequence and periodic assertions whose values are all equal or repeat
        if w_idx == 1 && n_idx == 1 {
            for rule in [9usize, 10, 11, 6, 12, 14] {
                for asel in 0..family::dim_size(5) {
                    // with 2 and 3 exemptions the last rows are reached by no enforced transition: only the
                    // assertions constrain their cells
                    for ex in 0..3usize {
                        let mut p = base;
                        p.d[1] = rule;
                        p.d[5] = asel;
                        p.d[3] = ex;
                        if rule == 14 {
                            p.d[7] = 2;
                        }
                        out.push(p);
                    }
                }
            }
        }
        if !thorough && n_idx == 0 {
            break;
        }
    }
    out.sort_by_key(|p| p.d);
    out.dedup();
    out
}

pub fn subs(run: &Arc<Run>) -> Vec<Arc<dyn Sub>> {
    let thorough = run.tier().is_thorough();
    let seed = run.seed();
    run.rule("reduced family (main width 1-2 plus 0-3 auxiliary columns, n in {8,16}, every rule / exemption count / exempt-row fill / assertion set / aux kind / initial state / extension as a deviation from three small bases, each also combined with a two-column auxiliary segment and with a Lagrange-kernel segment - so that auxiliary constraints outnumber, equal and are outnumbered by the main ones; thorough: every double deviation; columns repeating with period 1, 2 and 4 under every assertion set and 1-3 exemptions, so that sequence and periodic assertions with all-equal or repeating values occur) x (field, hasher) pairs: EVERY (column, step) cell of the main and of the auxiliary segment corrupted by +1, -1 and a seeded value; the reference validity predicate decides: invalid => if the prover returns a proof, verify must reject; still valid (only exempt transitions, no asserted cell) => must prove and verify; then for the accepted honest proof every asserted value +-1, a different statement encoding, a different transition rule, and every byte of the proof context changed 5 ways must be rejected or fail to parse (except, for a single-segment all-constant trace - whose proof is valid under every challenge - perturbations that leave the statement true); each corrupted cell / perturbation is one non-trivial evaluation, distinct by (pair, point, cell, delta)");
    run.assume("rejection of an invalid trace is probabilistic with error <= degree/|field| <= 2^-50 for these parameters; an acceptance is reported with its replay data, a rerun with another seed separates coincidence from defect");
    let pts = Arc::new(points(thorough));
    let np = pts.len() as u64;
    let mut subs: Vec<Arc<dyn Sub>> = vec![];
    let pairs: Vec<usize> = if thorough { (0..12).collect() } else { vec![0, 8, 11] };
    for pair in pairs {
        let (p1, p2) = (pts.clone(), pts.clone());
        subs.push(sub_t(
            &format!("{}.corruptions", PAIRS[pair]),
            np,
            900,
            true,
            move |idx, out| {
                let mut p = p1[idx as usize];
                if !pair_has_cubic(pair) && family::EXTS[p.d[11]] == 3 {
                    p.d[11] = 1;
                }
                let Some(st) = family::statement(&p, seed) else {
                    out.class("filtered: point not constructible");
                    return;
                };
                dispatch(pair, Corrupt { st: &st, out, pair, point: p });
            },
            move |idx| json!({"pair": PAIRS[pair], "point": family::describe(&p2[idx as usize]), "inner": "every main and auxiliary cell x 3 deltas; statement perturbations"}),
        ));
    }
    subs
}
