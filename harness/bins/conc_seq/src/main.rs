//! Single-threaded reference for C14: the scenario bodies built WITHOUT the `concurrent` feature.
//! Writes one line per scenario: "<name>\t<hex digest>".
fn main() {
    assert!(!concbody::CONCURRENT, "the sequential reference binary was built with the concurrent feature (feature unification): build it in its own cargo invocation");
    let args: Vec<String> = std::env::args().collect();
    let thorough = args.iter().any(|a| a == "thorough");
    let out = args.iter().position(|a| a == "--out").map(|i| args[i + 1].clone()).expect("--out <file>");
    let mut lines = String::new();
    for s in concbody::scenarios(thorough) {
        let d = (s.run)();
        lines.push_str(&format!("{}\t{}\n", s.name, kit::hex(&d)));
    }
    std::fs::write(out, lines).expect("write reference digests");
}
