//! C14 — multi-threaded execution produces the same results as single-threaded (E3: controlled
//! scheduler). The real parallel code of winterfell runs on the rayon stand-in; the explorer owns the
//! pool size and the execution order of the tasks of every parallel region. Every explored schedule
//! must reproduce, bit for bit, the digests of the binary built WITHOUT the `concurrent` feature.
use std::collections::{BTreeMap, BTreeSet, HashMap};
use std::sync::Arc;

use kit::engine::sub_t;
use kit::{json, Args, Run, Sub};
use rayon::prelude::*;
use rayon::verif::{self, Controller, Order};

#[derive(Clone, Debug)]
struct Sched {
    pool: usize,
    default_order: Order,
    deviations: BTreeMap<usize, Order>,
    find_any_choice: usize,
}

impl Sched {
    fn controller(&self) -> Controller {
        Controller { pool: self.pool, default_order: self.default_order.clone(), deviations: self.deviations.clone(), find_any_choice: self.find_any_choice, regions: vec![] }
    }
    fn json(&self) -> kit::Value {
        json!({"pool": self.pool, "default_order": format!("{:?}", self.default_order), "deviations": self.deviations.iter().map(|(k, v)| format!("region {k}: {:?}", v)).collect::<Vec<_>>(), "find_any_choice": self.find_any_choice})
    }
}

fn permutations(n: usize) -> Vec<Vec<usize>> {
    fn rec(cur: &mut Vec<usize>, used: &mut Vec<bool>, n: usize, out: &mut Vec<Vec<usize>>) {
        if cur.len() == n {
            out.push(cur.clone());
            return;
        }
        for i in 0..n {
            if !used[i] {
                used[i] = true;
                cur.push(i);
                rec(cur, used, n, out);
                cur.pop();
                used[i] = false;
            }
        }
    }
    let mut out = vec![];
    rec(&mut vec![], &mut vec![false; n], n, &mut out);
    out
}

/// menu of orders for a region of k tasks (identity excluded)
fn menu(k: usize, thorough: bool) -> Vec<Order> {
    if k <= 1 {
        return vec![];
    }
    if k <= 4 {
        return permutations(k).into_iter().skip(1).map(Order::Perm).collect();
    }
    let mut m = vec![Order::Reverse];
    let mut r = 1;
    while r < k {
        m.push(Order::Rotate(r));
        r *= 2;
    }
    // every task for small regions; a spread of 16 (quick) / 64 (thorough) tasks for large ones
    let spread = if thorough { 64 } else { 16 };
    let picks: Vec<usize> = if k <= spread { (0..k).collect() } else { (0..spread).map(|i| i * k / spread).collect() };
    for i in picks.iter() {
        if *i != 0 {
            m.push(Order::First(*i));
        }
        if *i != k - 1 {
            m.push(Order::Last(*i));
        }
    }
    for i in picks.iter().take(16) {
        if i + 1 < k {
            m.push(Order::SwapAdjacent(*i));
        }
    }
    m
}

/// Runs a scenario body under a schedule. A panic of the body (the sequential build returned, so the multi-threaded
/// one must as well) is handed back with the regions executed so far.
fn run_under(s: &Sched, f: &(dyn Fn() -> Vec<u8> + Send + Sync)) -> (Result<Vec<u8>, kit::pan::PanicRec>, Vec<usize>) {
    verif::set(s.controller());
    let d = kit::pan::catch(f);
    let c = verif::take();
    (d, c.regions)
}

fn main() {
    let args = Args::parse();
    if args.prop != "C14" {
        kit::engine::die("conc_shim serves C14 only");
    }
    let real_arg = args.rest.iter().position(|a| a == "--real").map(|i| args.rest[i + 1].clone());
    let ref_path = args.rest.iter().position(|a| a == "--ref").map(|i| args.rest[i + 1].clone()).unwrap_or_else(|| kit::engine::die("--ref <file with the sequential digests> is required"));
    if !concbody::CONCURRENT {
        kit::engine::die("conc_shim was built without the concurrent feature");
    }
    let run = Run::new(args, "model_checking");
    let thorough = run.tier().is_thorough();
    run.rule("scenario bodies (FFT evaluate/interpolate/coset evaluation/degree inference, twiddles, power series, accumulation helpers, batch inversion with zeros, Merkle trees, FRI leaf hashing / folding / commit phase / proof, segmented LDE + row commitments + column transforms, full proofs incl. auxiliary segment and Lagrange column; sizes on both sides of the 1024-element / 8192-row thresholds; 64- and 128-bit fields, extensions, Blake3/Sha3/Rescue) run on the rayon stand-in: ALL pool sizes 1..=64 x {identity, reversed task order in every region}; then deviation bounding over regions: for pools {1,2,3,8,64} (quick: 3; the costliest scenarios - Rescue hashing, 8192-step and 2048x17 shapes: 3 and 64) each single region (thorough: each pair of regions on the small scenarios) takes every order of its menu (all permutations up to 4 tasks; otherwise reverse, rotations by powers of two, 'task i first' / 'task i last' for every task of regions up to 16 (quick) / 64 (thorough) tasks and a spread of that many tasks for larger regions, adjacent swaps) with all other regions at identity; the nonce search returns each of the first three satisfying candidates; oracle: the digest of all deterministic outputs equals the digest computed by the binary built without the concurrent feature (nonce and query openings excluded, produced proofs must verify); a schedule = one state, an executed task = one transition, every run compared with the sequential build = one trace validated");
    run.assume("tasks contain no synchronisation of their own, so tasks are the atomic steps of a cooperative scheduler; intra-task interleavings (unsynchronised conflicting accesses through raw pointers) are outside this engine and are the business of the free-running complement: the same bodies on the real rayon pool, natively over pool sizes and (thorough) under miri's data-race detector - a sample of OS schedules, reported separately in the evidence notes");
    // ---- reference digests from the sequential build
    let txt = std::fs::read_to_string(&ref_path).unwrap_or_else(|e| kit::engine::die(&format!("cannot read {ref_path}: {e}")));
    let reference: HashMap<String, String> = txt.lines().filter_map(|l| l.split_once('\t')).map(|(a, b)| (a.to_string(), b.to_string())).collect();
    // ---- canary: the controller must really permute (an order-dependent closure shows >= 2 outcomes)
    {
        let order_seen = |o: Order| {
            verif::set(Controller { pool: 4, default_order: o, ..Default::default() });
            let log = std::sync::Mutex::new(vec![]);
            let v: Vec<usize> = (0..8).collect();
            v.par_iter().for_each(|i| log.lock().unwrap().push(*i));
            let _ = verif::take();
            log.into_inner().unwrap()
        };
        let outs: BTreeSet<Vec<usize>> = [Order::Identity, Order::Reverse, Order::Rotate(3), Order::First(5)].into_iter().map(order_seen).collect();
        run.require(outs.len() >= 4, "canary: the rayon stand-in does not permute task orders");
        run.note("canary_distinct_orders", json!(outs.len()));
    }
    // ---- free-running complement (real rayon, OS scheduler; miri data-race detector in thorough): results
    // are produced by the driver before this binary starts and folded into the verdict here
    if let Some(real_path) = real_arg {
        let txt = std::fs::read_to_string(&real_path).unwrap_or_else(|e| kit::engine::die(&format!("cannot read {real_path}: {e}")));
        let (mut native_runs, mut miri_runs) = (0u64, 0u64);
        let mut pools: BTreeSet<String> = BTreeSet::new();
        for (ln, l) in txt.lines().enumerate() {
            let Ok(v) = kit::serde_json::from_str::<kit::Value>(l) else { continue };
            if v["kind"] == "native" {
                native_runs += 1;
                pools.insert(v["pool"].as_str().unwrap_or("?").to_string());
                if v["ok"] != true {
                    let sc = v["scenario"].as_str().unwrap_or("?").to_string();
                    let fam = sc.rsplitn(2, '/').last().unwrap_or(&sc).to_string();
                    run.add_violation("free_running/native", ln as u64, &format!("{fam}: a free-running run on the real rayon pool produces a result different from the single-threaded one"), v.clone());
                }
            } else if v["kind"] == "miri" {
                miri_runs += 1;
                if v["ub"].as_u64().unwrap_or(0) > 0 || v["rc"].as_i64().unwrap_or(0) != 0 || v["ok"] != true {
                    run.add_violation("free_running/miri", ln as u64, &format!("{}: miri reports undefined behaviour (data race) or a different result on the real rayon pool", v["scenario"].as_str().unwrap_or("?")), v.clone());
                }
            } else if v["kind"] == "machinery" {
                kit::engine::die(&format!("free-running pass failed: {}", v["what"]));
            }
        }
        run.add_counts(native_runs + miri_runs, native_runs + miri_runs, 0, 0, native_runs + miri_runs);
        run.add_class("free-running native run on real rayon compared with the sequential build", native_runs);
        run.add_class("miri run (data-race detector) on real rayon", miri_runs);
        run.note("free_running_complement", json!({"native_runs": native_runs, "pool_sizes": pools.into_iter().collect::<Vec<_>>(), "miri_runs": miri_runs, "role": "supplementary sampling of OS schedules; the deciding step is the exhaustive schedule exploration on the stand-in"}));
    }
    let scenarios: Vec<Arc<concbody::Scenario>> = concbody::scenarios(thorough).into_iter().map(Arc::new).collect();
    let mut subs: Vec<Arc<dyn Sub>> = vec![];
    for sc in scenarios {
        let Some(want) = reference.get(&sc.name).cloned() else {
            run.require(false, &format!("no sequential reference digest for scenario {}", sc.name));
            continue;
        };
        let heavy = sc.name.starts_with("prove/");
        // ---- schedules of this scenario
        let mut scheds: Vec<Sched> = vec![];
        for pool in 1..=64usize {
            if heavy && !thorough && !(pool <= 9 || pool % 7 == 0 || pool >= 63) {
                continue;
            }
            for o in [Order::Identity, Order::Reverse] {
                scheds.push(Sched { pool, default_order: o, deviations: BTreeMap::new(), find_any_choice: 0 });
            }
        }
        // the costliest scenarios (Rescue hashing, the largest shapes) deviate under two pool sizes only
        let costly = ["rp64", "n8192", "2048x17", "4096x33", "128x100"].iter().any(|t| sc.name.contains(t));
        let dev_pools: Vec<usize> = if !thorough { vec![3] } else if costly { vec![3, 64] } else { vec![1, 2, 3, 8, 64] };
        for &pool in dev_pools.iter() {
            let base = Sched { pool, default_order: Order::Identity, deviations: BTreeMap::new(), find_any_choice: 0 };
            let (res, regions) = run_under(&base, &*sc.run);
            if let Err(p) = res {
                run.add_violation(
                    &format!("schedules/{}", sc.name),
                    pool as u64,
                    &format!("{}: the multi-threaded build panics where the single-threaded one returns ({})", scenario_class(&sc.name), p.class()),
                    json!({"scenario": sc.name, "schedule": base.json(), "regions_before_the_panic": regions.len(), "panic": p.msg}),
                );
                continue;
            }
            for (r, k) in regions.iter().enumerate() {
                let m = menu(*k, thorough && !heavy);
                // heavy scenarios: a thinner menu per region
                let wide = ["x20", "x50", "x100", "x33"].iter().any(|t| sc.name.ends_with(t));
                let m: Vec<Order> = if (heavy || wide) && !thorough { m.into_iter().take(6).collect() } else { m };
                for o in m {
                    let mut s = base.clone();
                    s.deviations.insert(r, o);
                    scheds.push(s);
                }
            }
            // two deviating regions at once (small scenarios, thorough)
            if thorough && !heavy && regions.len() <= 24 && pool <= 3 {
                for r1 in 0..regions.len() {
                    for r2 in r1 + 1..regions.len() {
                        if regions[r1] > 1 && regions[r2] > 1 {
                            for (o1, o2) in [(Order::Reverse, Order::Reverse), (Order::Rotate(1), Order::Reverse), (Order::Reverse, Order::Rotate(1))] {
                                let mut s = base.clone();
                                s.deviations.insert(r1, o1);
                                s.deviations.insert(r2, o2);
                                scheds.push(s);
                            }
                        }
                    }
                }
            }
        }
        if heavy {
            for choice in 1..3 {
                scheds.push(Sched { pool: 5, default_order: Order::Identity, deviations: BTreeMap::new(), find_any_choice: choice });
                scheds.push(Sched { pool: 8, default_order: Order::Reverse, deviations: BTreeMap::new(), find_any_choice: choice });
            }
        }
        let scheds = Arc::new(scheds);
        let (s1, s2) = (scheds.clone(), scheds.clone());
        let (sc1, name) = (sc.clone(), sc.name.clone());
        let name2 = name.clone();
        subs.push(sub_t(
            &format!("schedules/{}", sc.name),
            scheds.len() as u64,
            300,
            true,
            move |idx, out| {
                let s = &s1[idx as usize];
                let (d, regions) = run_under(s, &*sc1.run);
                let d = match d {
                    Ok(d) => d,
                    Err(p) => {
                        out.violation(
                            format!("{}: the multi-threaded build panics where the single-threaded one returns ({})", scenario_class(&name), p.class()),
                            json!({"scenario": name, "schedule": s.json(), "regions_before_the_panic": regions.len(), "panic": p.msg}),
                        );
                        return;
                    },
                };
                out.states(1);
                out.transitions(regions.iter().map(|k| *k as u64).sum());
                out.traces(1);
                let got = kit::hex(&d);
                if got == want {
                    out.nontrivial();
                    out.class(&format!("{name}: identical to the single-threaded result"));
                } else {
                    let text = String::from_utf8_lossy(&d).to_string();
                    out.violation(
                        format!("{}: a schedule of the multi-threaded build produces a result different from the single-threaded one", scenario_class(&name)),
                        json!({"scenario": name, "schedule": s.json(), "regions": regions, "digest": got, "sequential_digest": want, "note": if text.starts_with("proof not") { text } else { String::new() }}),
                    );
                    out.class(&format!("{name}: DIFFERENT from the single-threaded result"));
                }
            },
            move |idx| json!({"scenario": name2, "schedule": s2[idx as usize].json()}),
        ));
    }
    run.go(subs)
}

fn scenario_class(name: &str) -> String {
    // scenario family without the size
    let parts: Vec<&str> = name.split('/').collect();
    parts[..parts.len().saturating_sub(1).max(1)].join("/")
}
