//! C07 (base fields) and C08 (extension fields).
//!
//! E1: complete enumeration of operand tuples over declared alphabets (boundary classes taken both as
//!     residues and as internal images, plus seed-derived members), every result compared with the
//!     reference arithmetic of `kit::refmath`.
//! E2: explicit-state reachability over internal representations: states are raw images, transitions
//!     are the public operations; in every reached state the element must denote the reference
//!     residue and be indistinguishable (==, bytes, hashes) from the canonical element of that residue.
use std::sync::Arc;

use crypto::{hashers, ElementHasher};
use kit::engine::{bfs, sub, sub_t};
use kit::refmath::{self as rm, Ctx, El};
use kit::rng::Rng;
use kit::{json, pan, Args, CaseOut, Run, Sub, Value};
use math::fields::{f128, f62, f64 as g64, CubeExtension, QuadExtension};
use math::{ExtensibleField, ExtensionOf, FieldElement, StarkField};
use utils::{Deserializable, Serializable, SliceReader};

// ================================================================================================
// field adapters
// ================================================================================================

trait Fld: StarkField + ExtensibleField<2> + ExtensibleField<3> + 'static {
    const NAME: &'static str;
    const P: u128;
    /// exclusive upper bound of the documented legal internal images
    const IMG_LIMIT: u128;
    /// internal value = residue * 2^64 mod p
    const MONT: bool;
    const HAS_CUBIC: bool;
    /// the widest integer the plain constructor accepts
    const NEW_MAX: u128;
    fn new_u(v: u128) -> Self;
    fn from_img(img: u128) -> Self;
    fn int(&self) -> u128;
    fn hashes(x: &[Self]) -> Vec<Vec<u8>>;
    fn pi(v: u128) -> Self::PositiveInteger;

    fn img(&self) -> u128 {
        let b = self.as_bytes();
        let mut a = [0u8; 16];
        a[..b.len()].copy_from_slice(b);
        u128::from_le_bytes(a)
    }
    fn res_of_img(img: u128) -> u128 {
        if Self::MONT {
            let r = (1u128 << 64) % Self::P;
            rm::mulm(img % Self::P, rm::invm(r, Self::P), Self::P)
        } else {
            img % Self::P
        }
    }
}

impl Fld for g64::BaseElement {
    const NAME: &'static str = "f64";
    const P: u128 = rm::P64;
    const IMG_LIMIT: u128 = rm::P64;
    const MONT: bool = true;
    const HAS_CUBIC: bool = true;
    const NEW_MAX: u128 = u64::MAX as u128;
    fn new_u(v: u128) -> Self {
        g64::BaseElement::new(v as u64)
    }
    fn from_img(img: u128) -> Self {
        g64::BaseElement::from_mont(img as u64)
    }
    fn int(&self) -> u128 {
        StarkField::as_int(self) as u128
    }
    fn pi(v: u128) -> u64 {
        v as u64
    }
    fn hashes(x: &[Self]) -> Vec<Vec<u8>> {
        vec![
            hashers::Blake3_256::<Self>::hash_elements(x).to_bytes(),
            hashers::Sha3_256::<Self>::hash_elements(x).to_bytes(),
            hashers::Rp64_256::hash_elements(x).to_bytes(),
            hashers::RpJive64_256::hash_elements(x).to_bytes(),
        ]
    }
}

impl Fld for f62::BaseElement {
    const NAME: &'static str = "f62";
    const P: u128 = rm::P62;
    const IMG_LIMIT: u128 = 2 * rm::P62;
    const MONT: bool = true;
    const HAS_CUBIC: bool = true;
    const NEW_MAX: u128 = u64::MAX as u128;
    fn new_u(v: u128) -> Self {
        f62::BaseElement::new(v as u64)
    }
    fn from_img(img: u128) -> Self {
        // the documented internal range is [0, 2M); the only public way to an arbitrary image is the
        // zero-copy view over raw memory
        let raw = [(img as u64)];
        let bytes = unsafe { std::slice::from_raw_parts(raw.as_ptr() as *const u8, 8) };
        let els = unsafe { <Self as FieldElement>::bytes_as_elements(bytes) }.expect("aligned 8 bytes");
        els[0]
    }
    fn int(&self) -> u128 {
        StarkField::as_int(self) as u128
    }
    fn pi(v: u128) -> u64 {
        v as u64
    }
    fn hashes(x: &[Self]) -> Vec<Vec<u8>> {
        vec![
            hashers::Blake3_256::<Self>::hash_elements(x).to_bytes(),
            hashers::Blake3_192::<Self>::hash_elements(x).to_bytes(),
            hashers::Rp62_248::hash_elements(x).to_bytes(),
        ]
    }
}

impl Fld for f128::BaseElement {
    const NAME: &'static str = "f128";
    const P: u128 = rm::P128;
    const IMG_LIMIT: u128 = rm::P128;
    const MONT: bool = false;
    const HAS_CUBIC: bool = false;
    const NEW_MAX: u128 = u128::MAX;
    fn new_u(v: u128) -> Self {
        f128::BaseElement::new(v)
    }
    fn from_img(img: u128) -> Self {
        f128::BaseElement::new(img)
    }
    fn int(&self) -> u128 {
        StarkField::as_int(self)
    }
    fn pi(v: u128) -> u128 {
        v
    }
    fn hashes(x: &[Self]) -> Vec<Vec<u8>> {
        vec![
            hashers::Blake3_256::<Self>::hash_elements(x).to_bytes(),
            hashers::Sha3_256::<Self>::hash_elements(x).to_bytes(),
        ]
    }
}

/// extension adapters: build from / take apart into base coefficients without going through the
/// slice reinterpretation functions (those are under test themselves)
trait Ext<B: Fld>: FieldElement<BaseField = B> + ExtensionOf<B> + 'static {
    const DEG: usize;
    fn build(c: &[B]) -> Self;
    fn coeffs(&self) -> Vec<B>;
    fn to_ref(&self) -> El {
        let mut e = [0u128; 3];
        for (i, c) in self.coeffs().iter().enumerate() {
            e[i] = c.int();
        }
        e
    }
    fn from_ref(e: &El) -> Self {
        let v: Vec<B> = (0..Self::DEG).map(|i| B::new_u(e[i])).collect();
        Self::build(&v)
    }
}
impl<B: Fld> Ext<B> for B {
    const DEG: usize = 1;
    fn build(c: &[B]) -> Self {
        c[0]
    }
    fn coeffs(&self) -> Vec<B> {
        vec![*self]
    }
}
impl<B: Fld> Ext<B> for QuadExtension<B> {
    const DEG: usize = 2;
    fn build(c: &[B]) -> Self {
        QuadExtension::new(c[0], c[1])
    }
    fn coeffs(&self) -> Vec<B> {
        self.to_base_elements().to_vec()
    }
}
impl<B: Fld> Ext<B> for CubeExtension<B> {
    const DEG: usize = 3;
    fn build(c: &[B]) -> Self {
        CubeExtension::new(c[0], c[1], c[2])
    }
    fn coeffs(&self) -> Vec<B> {
        self.to_base_elements().to_vec()
    }
}

// ================================================================================================
// alphabets
// ================================================================================================

/// one alphabet member: how it is constructed and which residue it denotes (by the reference)
#[derive(Clone, Copy, Debug)]
struct Mem {
    /// true: constructed from an internal image; false: from an integer through the constructor
    image: bool,
    raw: u128,
    res: u128,
}

fn mk<B: Fld>(m: &Mem) -> B {
    if m.image {
        B::from_img(m.raw)
    } else {
        B::new_u(m.raw)
    }
}

fn dedup(mut v: Vec<u128>) -> Vec<u128> {
    let mut out = vec![];
    for x in v.drain(..) {
        if !out.contains(&x) {
            out.push(x);
        }
    }
    out
}

/// boundary integers (as given to the constructor; may exceed p where the constructor reduces)
fn residue_ints<B: Fld>(seed: u64, n_random: usize) -> Vec<u128> {
    let p = B::P;
    let mut v: Vec<u128> = vec![0, 1, 2, 3, 7, p - 1, p - 2, (p - 1) / 2, (p + 1) / 2, 1 << 31, (1 << 32) - 1, 1 << 32, (1 << 32) + 1];
    for k in 0..3u128 {
        v.push((1u128 << 62) - 1 + k);
        v.push((1u128 << 63) - 1 + k);
    }
    let g = (1u128 << 64) - (1u128 << 32);
    for k in 0..4u128 {
        v.push(g - 1 + k);
    }
    v.push((1u128 << 64) - 1);
    v.push((1u128 << 64) - 2);
    if B::NEW_MAX > u64::MAX as u128 {
        v.extend([1u128 << 64, (1u128 << 64) + 1, 1u128 << 127, u128::MAX, u128::MAX - 1, p + 1, p, (1u128 << 88) - 45, 45u128 << 40]);
    } else {
        v.extend([p, p + 1, 2 * p - 1, 2 * p, 2 * p + 1, 3 * p, 3 * p + 1]);
    }
    let mut rng = Rng::labelled(seed, &format!("res-{}", B::NAME));
    for _ in 0..n_random {
        v.push(rng.next_u128() % p);
    }
    dedup(v.into_iter().filter(|x| *x <= B::NEW_MAX).collect())
}

fn image_ints<B: Fld>(seed: u64, n_random: usize) -> Vec<u128> {
    if !B::MONT {
        return vec![];
    }
    let p = B::P;
    let l = B::IMG_LIMIT;
    let mut v: Vec<u128> = vec![0, 1, 2, (1 << 32) - 1, 1 << 32, (1 << 32) + 1, p - 1, p - 2, (p - 1) / 2, (p + 1) / 2, l - 1, l - 2, 0x7FFFFFFF80000001, 1 << 62, (1 << 62) - 1, (1 << 62) + 1, p, p + 1, 1 << 63];
    // images of small residues: R mod p, 2R mod p (the element "one" and "two")
    let r = (1u128 << 64) % p;
    v.push(r);
    v.push(rm::addm(r, r, p));
    v.push(rm::negm(r, p));
    let mut rng = Rng::labelled(seed, &format!("img-{}", B::NAME));
    for _ in 0..n_random {
        v.push(rng.next_u128() % l);
    }
    dedup(v.into_iter().filter(|x| *x < l).collect())
}

fn alphabet<B: Fld>(seed: u64, n_random: usize) -> Vec<Mem> {
    let mut a: Vec<Mem> = residue_ints::<B>(seed, n_random).into_iter().map(|raw| Mem { image: false, raw, res: raw % B::P }).collect();
    a.extend(image_ints::<B>(seed, n_random).into_iter().map(|raw| Mem { image: true, raw, res: B::res_of_img(raw) }));
    a
}

fn memj(m: &Mem) -> Value {
    json!({"constructed_from": if m.image {"internal image"} else {"integer"}, "raw": format!("{:#x}", m.raw), "residue": format!("{:#x}", m.res)})
}

// ================================================================================================
// observation of one element: everything the property lets a user see
// ================================================================================================

/// Checks that `x` denotes `res`: as_int, ==/!= against canonical elements, serialized bytes,
/// round trip, hashes. Returns the first disagreement.
fn observe<B: Fld>(x: &B, res: u128) -> Option<String> {
    let p = B::P;
    if x.int() != res {
        return Some(format!("as_int gives {:#x}, expected {:#x}", x.int(), res));
    }
    let canon = B::new_u(res);
    if !(*x == canon) || !(canon == *x) || (*x != canon) {
        return Some(format!("element (image {:#x}) is not == to the canonical element of its residue {:#x}", x.img(), res));
    }
    let other = B::new_u(rm::addm(res, 1, p));
    if *x == other {
        return Some("element compares equal to the canonical element of residue+1".into());
    }
    let bytes = x.to_bytes();
    let mut want = res.to_le_bytes().to_vec();
    want.truncate(B::ELEMENT_BYTES);
    if bytes != want {
        return Some(format!("serialized bytes {} differ from canonical little-endian residue {}", kit::hex(&bytes), kit::hex(&want)));
    }
    match B::read_from(&mut SliceReader::new(&bytes)) {
        Ok(y) if y == *x && y.int() == res => {},
        Ok(y) => return Some(format!("deserialized element denotes {:#x}", y.int())),
        Err(e) => return Some(format!("own serialization does not parse: {e}")),
    }
    if B::hashes(&[*x]) != B::hashes(&[canon]) {
        return Some(format!("element (image {:#x}) hashes differently from the canonical element of residue {:#x}", x.img(), res));
    }
    None
}

/// cheap variant used inside large products: residue + equality with canonical only
fn observe_light<B: Fld>(x: &B, res: u128) -> Option<String> {
    if x.int() != res {
        return Some(format!("as_int gives {:#x}, expected {:#x}", x.int(), res));
    }
    let canon = B::new_u(res);
    if *x != canon {
        return Some(format!("element (image {:#x}) != canonical element of residue {:#x}", x.img(), res));
    }
    None
}

// ================================================================================================
// C07 sub-spaces
// ================================================================================================

fn c07_subs<B: Fld>(run: &Arc<Run>) -> Vec<Arc<dyn Sub>> {
    let tier = run.tier();
    let seed = run.seed();
    let alpha = Arc::new(alphabet::<B>(seed, tier.pick(6, 16)));
    let n = alpha.len() as u64;
    let p = B::P;
    let mut subs: Vec<Arc<dyn Sub>> = vec![];

    // ---- all ordered pairs: + - * / and comparison
    {
        let (a1, a2) = (alpha.clone(), alpha.clone());
        subs.push(sub(
            &format!("{}.pairs", B::NAME),
            n * n,
            move |idx, out| {
                let (ma, mb) = (a1[(idx / n) as usize], a1[(idx % n) as usize]);
                let (a, b) = (mk::<B>(&ma), mk::<B>(&mb));
                out.nontrivial();
                let ops: [(&str, B, u128); 4] = [
                    ("add", a + b, rm::addm(ma.res, mb.res, p)),
                    ("sub", a - b, rm::subm(ma.res, mb.res, p)),
                    ("mul", a * b, rm::mulm(ma.res, mb.res, p)),
                    ("div", a / b, rm::mulm(ma.res, rm::invm(mb.res, p), p)),
                ];
                for (name, got, want) in ops {
                    if let Some(why) = observe_light(&got, want) {
                        out.violation(format!("{}.{}: result disagrees with integer arithmetic mod p ({})", B::NAME, name, classify(&why)), json!({"a": memj(&ma), "b": memj(&mb), "why": why}));
                    }
                }
                // assigning forms
                let mut t = a;
                t += b;
                let mut u = a;
                u -= b;
                let mut v = a;
                v *= b;
                let mut w = a;
                w /= b;
                if t != a + b || u != a - b || v != a * b || w != a / b {
                    out.violation(format!("{}: assigning operator differs from binary operator", B::NAME), json!({"a": memj(&ma), "b": memj(&mb)}));
                }
                let eq = a == b;
                if eq != (ma.res == mb.res) {
                    out.violation(
                        format!("{}.eq: == disagrees with equality of residues", B::NAME),
                        json!({"a": memj(&ma), "b": memj(&mb), "eq": eq}),
                    );
                }
                out.class(if ma.image || mb.image { "pair with internal-image operand" } else { "pair of residues" });
            },
            move |idx| json!({"a": memj(&a2[(idx / n) as usize]), "b": memj(&a2[(idx % n) as usize]), "ops": "add sub mul div == and assigning forms"}),
        ));
    }

    // ---- singles: unary operations and every observation
    {
        let (a1, a2) = (alpha.clone(), alpha.clone());
        subs.push(sub_t(
            &format!("{}.singles", B::NAME),
            n,
            5,
            true,
            move |idx, out| {
                let m = a1[idx as usize];
                let x = mk::<B>(&m);
                out.nontrivial();
                if let Some(why) = observe(&x, m.res) {
                    out.violation(format!("{}.observe: {}", B::NAME, classify(&why)), json!({"x": memj(&m), "why": why}));
                }
                let r = m.res;
                let un: Vec<(&str, B, u128)> = vec![
                    ("neg", -x, rm::negm(r, p)),
                    ("double", x.double(), rm::addm(r, r, p)),
                    ("square", x.square(), rm::mulm(r, r, p)),
                    ("cube", x.cube(), rm::mulm(rm::mulm(r, r, p), r, p)),
                    ("inv", x.inv(), rm::invm(r, p)),
                    ("conjugate", x.conjugate(), r),
                ];
                for (name, got, want) in un {
                    if let Some(why) = observe(&got, want) {
                        out.violation(format!("{}.{}: {}", B::NAME, name, classify(&why)), json!({"x": memj(&m), "why": why}));
                    }
                }
                // x * inv(x) = 1 for x != 0
                if r != 0 && x * x.inv() != B::ONE {
                    out.violation(format!("{}.inv: x*inv(x) != 1", B::NAME), json!({"x": memj(&m)}));
                }
                // conversions out
                let as_u128: u128 = B::int(&x);
                if format!("{}", x) != format!("{}", r) || as_u128 != r {
                    out.violation(format!("{}.display: decimal rendering is not the residue", B::NAME), json!({"x": memj(&m), "shown": format!("{}", x)}));
                }
                // conversions in, from the residue
                let bytes = {
                    let mut w = r.to_le_bytes().to_vec();
                    w.truncate(B::ELEMENT_BYTES);
                    w
                };
                match B::try_from(bytes.as_slice()) {
                    Ok(y) if y.int() == r => {},
                    _ => out.violation(format!("{}.try_from_bytes: canonical bytes refused or misread", B::NAME), json!({"x": memj(&m)})),
                }
                match B::from_random_bytes(&bytes) {
                    Some(y) if y.int() == r => {},
                    _ => out.violation(format!("{}.from_random_bytes: canonical bytes refused or misread", B::NAME), json!({"x": memj(&m)})),
                }
                if let Ok(y) = B::try_from(r) {
                    if y.int() != r {
                        out.violation(format!("{}.try_from_u128: wrong residue", B::NAME), json!({"x": memj(&m)}));
                    }
                } else {
                    out.violation(format!("{}.try_from_u128: residue below p refused", B::NAME), json!({"x": memj(&m)}));
                }
                if r <= u64::MAX as u128 {
                    match B::try_from(r as u64) {
                        Ok(y) if y.int() == r => {},
                        _ => out.violation(format!("{}.try_from_u64: residue below p refused or misread", B::NAME), json!({"x": memj(&m)})),
                    }
                }
                // zero-copy views agree with serialization for canonical fields and with the image otherwise
                let arr = [x, x];
                let eb = B::elements_as_bytes(&arr);
                if eb.len() != 2 * B::ELEMENT_BYTES || &eb[..B::ELEMENT_BYTES] != x.as_bytes() {
                    out.violation(format!("{}.elements_as_bytes: wrong length or content", B::NAME), json!({"x": memj(&m)}));
                }
                if B::IS_CANONICAL && x.as_bytes() != x.to_bytes().as_slice() {
                    out.violation(format!("{}.as_bytes: canonical field whose memory differs from its serialization", B::NAME), json!({"x": memj(&m)}));
                }
                let back = unsafe { B::bytes_as_elements(eb) };
                match back {
                    Ok(s) if s.len() == 2 && s[0] == x && s[0].int() == r => {},
                    _ => out.violation(format!("{}.bytes_as_elements: round trip of the zero-copy view fails", B::NAME), json!({"x": memj(&m)})),
                }
            },
            move |idx| json!({"x": memj(&a2[idx as usize]), "ops": "neg double square cube inv conjugate conversions serialization hashes"}),
        ));
    }

    // ---- dense sweep of the data-dependent unary operations (inversion above all: its reduction loops take a
    // branch only for a few operands in a million, which no boundary class predicts): every residue of
    // [1, 2^k], [p - 2^k, p - 1], every 2^i + j with |j| <= 32, and 2^k seed-derived residues
    {
        // the 62-bit field inverts with a binary GCD whose reduction loops are data dependent; the other two invert by
        // exponentiation (no data-dependent branches), a smaller sweep suffices there
        let k: u32 = if B::NAME == "f62" { tier.pick(23, 25) } else { tier.pick(18, 20) };
        let block = 1u64 << 12;
        let span = 1u64 << k;
        let pows: Vec<u128> = {
            let mut v = vec![];
            let bits = 128 - (p - 1).leading_zeros();
            for i in 0..bits {
                for j in -32i128..=32 {
                    let b = 1u128 << i;
                    let x = if j >= 0 { b.checked_add(j as u128) } else { b.checked_sub((-j) as u128) };
                    if let Some(x) = x {
                        if x > 0 && x < p {
                            v.push(x);
                        }
                    }
                }
            }
            v
        };
        let npow = pows.len() as u64;
        let total = 3 * span + npow;
        let pows = Arc::new(pows);
        subs.push(sub_t(
            &format!("{}.unary_sweep", B::NAME),
            (total + block - 1) / block,
            60,
            true,
            move |cidx, out| {
                let hi = ((cidx + 1) * block).min(total);
                let mut rng = Rng::labelled(seed, &format!("sweep-{}-{cidx}", B::NAME));
                for idx in cidx * block..hi {
                    let r: u128 = if idx < span {
                        idx as u128 + 1
                    } else if idx < 2 * span {
                        p - 1 - (idx - span) as u128
                    } else if idx < 3 * span {
                        rng.next_u128() % p
                    } else {
                        pows[(idx - 3 * span) as usize]
                    };
                    let x = B::new_u(r);
                    let inv = x.inv();
                    if inv.int() != rm::invm(r, p) || x * inv != B::ONE {
                        out.violation(format!("{}.inv: x*inv(x) != 1 or inv differs from the reference inverse", B::NAME), json!({"x": format!("{:#x}", r), "got": format!("{:#x}", inv.int())}));
                    }
                    if (B::ONE / x).int() != rm::invm(r, p) {
                        out.violation(format!("{}.div: 1/x differs from the reference inverse", B::NAME), json!({"x": format!("{:#x}", r)}));
                    }
                    if x.square().int() != rm::mulm(r, r, p) || x.double().int() != rm::addm(r, r, p) || (-x).int() != rm::negm(r, p) || x.cube().int() != rm::mulm(rm::mulm(r, r, p), r, p) {
                        out.violation(format!("{}.unary: square / double / neg / cube differs from integer arithmetic mod p", B::NAME), json!({"x": format!("{:#x}", r)}));
                    }
                }
                out.evals(hi - cidx * block - 1);
                out.nontrivial_n(hi - cidx * block);
            },
            move |cidx| json!({"residues": format!("sweep block {cidx} of [1,2^{k}] ++ [p-2^{k},p-1] ++ 2^{k} seeded ++ 2^i+j")}),
        ));
    }

    // ---- exponentiation
    {
        let exps: Vec<u128> = {
            let mut e: Vec<u128> = vec![0, 1, 2, 3, 7, 8, 63, 64, (1 << 32) - 1, 1 << 32, (1 << 32) + 1, p - 2, p - 1, p, (p - 1) / 2, 1 << 62, (1 << 63) + 1, u64::MAX as u128, 10540996611094048183, 0xAAAA_AAAA_AAAA_AAAA];
            if B::NEW_MAX > u64::MAX as u128 {
                e.extend([u128::MAX, 1 << 127, (1 << 64) + 1]);
            }
            let lim = if B::NEW_MAX > u64::MAX as u128 { u128::MAX } else { u64::MAX as u128 };
            dedup(e.into_iter().filter(|x| *x <= lim).collect())
        };
        let ne = exps.len() as u64;
        let exps = Arc::new(exps);
        let (a1, a2, e1, e2) = (alpha.clone(), alpha.clone(), exps.clone(), exps.clone());
        subs.push(sub(
            &format!("{}.exp", B::NAME),
            n * ne,
            move |idx, out| {
                let m = a1[(idx / ne) as usize];
                let e = e1[(idx % ne) as usize];
                let x = mk::<B>(&m);
                out.nontrivial();
                let want = rm::powm(m.res, e, p);
                for (name, got) in [("exp", x.exp(B::pi(e))), ("exp_vartime", x.exp_vartime(B::pi(e)))] {
                    if let Some(why) = observe_light(&got, want) {
                        out.violation(format!("{}.{}: {}", B::NAME, name, classify(&why)), json!({"x": memj(&m), "e": format!("{:#x}", e), "why": why}));
                    }
                }
            },
            move |idx| json!({"x": memj(&a2[(idx / ne) as usize]), "exponent": format!("{:#x}", e2[(idx % ne) as usize])}),
        ));
    }

    // ---- conversions from out-of-range and malformed inputs
    {
        let ints: Vec<u128> = dedup(vec![0, 1, p - 1, p, p + 1, 2 * p.min(u128::MAX / 2), u64::MAX as u128, (u64::MAX as u128) + 1, u128::MAX, 1 << 64, p.wrapping_add(p - 1)]);
        let ni = ints.len() as u64;
        let ints = Arc::new(ints);
        let i2 = ints.clone();
        subs.push(sub(
            &format!("{}.conv", B::NAME),
            ni + 18 + 6,
            move |idx, out| {
                out.nontrivial();
                if idx < ni {
                    let v = ints[idx as usize];
                    // TryFrom<u128>: accepted iff v < p
                    let r = B::try_from(v);
                    let okv = r.as_ref().map(|y| y.int()).ok();
                    if (v < p) != r.is_ok() || (v < p && okv != Some(v)) {
                        out.violation(format!("{}.try_from_u128: accepts exactly values below p", B::NAME), json!({"v": format!("{:#x}", v), "accepted": r.is_ok()}));
                    }
                    if v <= u64::MAX as u128 {
                        let r = B::try_from(v as u64);
                        let okv = r.as_ref().map(|y| y.int()).ok();
                        if (v < p) != r.is_ok() || (v < p && okv != Some(v)) {
                            out.violation(format!("{}.try_from_u64: accepts exactly values below p", B::NAME), json!({"v": format!("{:#x}", v), "accepted": r.is_ok()}));
                        }
                    }
                    // bytes / deserialization: accepted iff v < p (when v fits the element width)
                    let fits = B::ELEMENT_BYTES == 16 || v <= u64::MAX as u128;
                    if fits {
                        let mut bytes = v.to_le_bytes().to_vec();
                        bytes.truncate(B::ELEMENT_BYTES);
                        let a = B::try_from(bytes.as_slice()).map(|y| y.int()).ok();
                        let b = B::read_from(&mut SliceReader::new(&bytes)).map(|y| y.int()).ok();
                        let c = B::from_random_bytes(&bytes).map(|y| y.int());
                        let want = if v < p { Some(v) } else { None };
                        if a != want || b != want || c != want {
                            out.violation(format!("{}.from_bytes: byte decoders accept exactly canonical residues", B::NAME), json!({"v": format!("{:#x}", v), "try_from": a.is_some(), "read_from": b.is_some(), "from_random_bytes": c.is_some()}));
                        }
                    }
                } else if idx < ni + 18 {
                    // byte slices of every length 0..=17: only ELEMENT_BYTES is accepted by TryFrom<&[u8]>
                    let len = (idx - ni) as usize;
                    let bytes = vec![1u8; len];
                    let r = B::try_from(bytes.as_slice());
                    if r.is_ok() != (len == B::ELEMENT_BYTES) {
                        out.violation(format!("{}.try_from_bytes: accepts a slice of the wrong length", B::NAME), json!({"len": len}));
                    }
                    let r = pan::catch(|| B::read_from(&mut SliceReader::new(&bytes)));
                    match r {
                        Ok(r) => {
                            if r.is_ok() != (len >= B::ELEMENT_BYTES) {
                                out.violation(format!("{}.read_from: short input accepted / sufficient input refused", B::NAME), json!({"len": len}));
                            }
                        },
                        Err(pr) => out.violation(format!("{}.read_from: panic {}", B::NAME, pr.class()), json!({"len": len})),
                    }
                    if len < B::ELEMENT_BYTES {
                        let y = B::from_bytes_with_padding(&bytes);
                        let mut w = [0u8; 16];
                        w[..len].copy_from_slice(&bytes);
                        if y.int() != u128::from_le_bytes(w) % p {
                            out.violation(format!("{}.from_bytes_with_padding: wrong value", B::NAME), json!({"len": len}));
                        }
                    }
                } else {
                    let k = idx - ni - 18;
                    let (got, want): (u128, u128) = match k {
                        0 => (B::from(0u8).int(), 0),
                        1 => (B::from(u8::MAX).int(), 255),
                        2 => (B::from(u16::MAX).int(), 65535),
                        3 => (B::from(u32::MAX).int(), u32::MAX as u128),
                        4 => (B::from(1u32 << 31).int(), 1 << 31),
                        _ => (B::from(1u8).int(), 1),
                    };
                    if got != want {
                        out.violation(format!("{}.from_small_int: wrong value", B::NAME), json!({"k": k}));
                    }
                }
            },
            move |idx| if idx < ni { json!({"integer": format!("{:#x}", i2[idx as usize])}) } else { json!({"conversion case": idx - ni}) },
        ));
    }

    // ---- published constants
    subs.push(sub(
        &format!("{}.constants", B::NAME),
        1,
        move |_idx, out| {
            out.nontrivial_n(2);
            let mut bad = |what: &str| out.violation(format!("{}.constants: {}", B::NAME, what), json!({}));
            let modulus: u128 = {
                let le = B::get_modulus_le_bytes();
                let mut a = [0u8; 16];
                a[..le.len()].copy_from_slice(&le);
                u128::from_le_bytes(a)
            };
            if modulus != p || B::pi(p) != B::MODULUS {
                bad("MODULUS / get_modulus_le_bytes is not the documented prime");
            }
            if 128 - (p - 1).leading_zeros() != B::MODULUS_BITS {
                bad("MODULUS_BITS is not the bit length of the prime");
            }
            if B::ZERO.int() != 0 || B::ONE.int() != 1 || B::ELEMENT_BYTES != std::mem::size_of::<B>() {
                bad("ZERO / ONE / ELEMENT_BYTES");
            }
            let ta = B::TWO_ADICITY;
            if (p - 1) % (1u128 << ta) != 0 || ((p - 1) >> ta) % 2 != 1 {
                bad("TWO_ADICITY is not the exact power of two dividing p-1");
            }
            let r = B::TWO_ADIC_ROOT_OF_UNITY.int();
            if rm::powm(r, 1u128 << ta, p) != 1 || rm::powm(r, 1u128 << (ta - 1), p) != p - 1 {
                bad("TWO_ADIC_ROOT_OF_UNITY does not have order exactly 2^TWO_ADICITY");
            }
            for k in 1..=ta {
                let w = B::get_root_of_unity(k).int();
                if rm::powm(w, 1u128 << k, p) != 1 || rm::powm(w, 1u128 << (k - 1), p) != p - 1 {
                    bad("get_root_of_unity(k) does not have order exactly 2^k");
                    break;
                }
            }
            // generator: g^((p-1)/q) != 1 for every prime q | p-1 (factorisations checked here by multiplication)
            let factors: &[u128] = match B::NAME {
                "f64" => &[2, 3, 5, 17, 257, 65537],
                "f62" => &[2, 13, 17, 37957],
                _ => &[2, 29, 181, 286619, 11394379, 18053749339],
            };
            let g = B::GENERATOR.int();
            {
                let mut rest = p - 1;
                for q in factors {
                    while rest % q == 0 {
                        rest /= q;
                    }
                }
                if rest != 1 {
                    bad("harness: factorisation of p-1 incomplete");
                }
                for q in factors {
                    if rm::powm(g, (p - 1) / q, p) == 1 {
                        bad("GENERATOR is not a generator of the multiplicative group");
                    }
                }
            }
            // root of unity is the generator raised to (p-1)/2^ta
            if rm::powm(g, (p - 1) >> ta, p) != r {
                out.class("root of unity is not generator^((p-1)/2^k) (allowed)");
            }
        },
        |_| json!({"constants": "modulus, bits, two-adicity, root of unity orders for every k, generator"}),
    ));

    // ---- f64 only: mul_small, exp7, from_mont/inner round trip
    if B::NAME == "f64" {
        let smalls: Vec<u32> = vec![0, 1, 2, 3, 7, 1 << 16, (1 << 31) - 1, 1 << 31, (1 << 31) + 1, u32::MAX - 1, u32::MAX];
        let ns = smalls.len() as u64;
        let (a1, a2, s2) = (alpha.clone(), alpha.clone(), smalls.clone());
        subs.push(sub(
            "f64.mul_small",
            n * ns,
            move |idx, out| {
                let m = a1[(idx / ns) as usize];
                let k = smalls[(idx % ns) as usize];
                let x = mk::<g64::BaseElement>(&m);
                out.nontrivial();
                let got = x.mul_small(k);
                let want = rm::mulm(m.res, k as u128, rm::P64);
                if let Some(why) = observe(&got, want) {
                    out.violation(format!("f64.mul_small: {}", classify(&why)), json!({"x": memj(&m), "k": k, "why": why, "result_image": format!("{:#x}", got.inner())}));
                }
                let e7 = x.exp7();
                if let Some(why) = observe_light(&e7, rm::powm(m.res, 7, rm::P64)) {
                    out.violation(format!("f64.exp7: {}", classify(&why)), json!({"x": memj(&m), "why": why}));
                }
                if g64::BaseElement::from_mont(x.inner()) != x {
                    out.violation("f64.from_mont(inner) is not the identity", json!({"x": memj(&m)}));
                }
            },
            move |idx| json!({"x": memj(&a2[(idx / ns) as usize]), "k": s2[(idx % ns) as usize]}),
        ));
    }
    subs
}

/// squeeze concrete numbers out of a reason so that it can serve as a finding class
fn classify(why: &str) -> String {
    let mut s = String::new();
    let mut in_hex = false;
    let mut chars = why.chars().peekable();
    while let Some(c) = chars.next() {
        if c == '0' && chars.peek() == Some(&'x') {
            in_hex = true;
            s.push('#');
            chars.next();
            continue;
        }
        if in_hex && c.is_ascii_hexdigit() {
            continue;
        }
        in_hex = false;
        if c.is_ascii_digit() {
            if !s.ends_with('#') {
                s.push('#');
            }
            continue;
        }
        s.push(c);
    }
    s
}

// ================================================================================================
// C07 E2: reachability of internal representations
// ================================================================================================

#[derive(Clone, Copy, Debug)]
struct RState {
    img: u128,
    res: u128,
    /// history: index of the initial alphabet member, then operation indices (for the counterexample)
    hist: [u8; 7],
    hlen: u8,
}

#[derive(Clone, Copy, Debug)]
enum ROp {
    Neg,
    Double,
    Square,
    Inv,
    MulSmall(u32),
    Add(usize),
    Sub(usize),
    RSub(usize),
    Mul(usize),
    AddNegSelf,
    SubSelf,
}

fn c07_reach<B: Fld>(run: &Arc<Run>) {
    let tier = run.tier();
    let alpha = Arc::new(alphabet::<B>(run.seed(), tier.pick(4, 6)));
    let seconds: Arc<Vec<Mem>> = Arc::new({
        // second operands: a covering subset of the alphabet
        let keep = tier.pick(24, 24);
        let step = (alpha.len() / keep).max(1);
        alpha.iter().step_by(step).cloned().collect()
    });
    let mut ops: Vec<ROp> = vec![ROp::Neg, ROp::Double, ROp::Square, ROp::Inv, ROp::AddNegSelf, ROp::SubSelf];
    if B::NAME == "f64" {
        for k in [0u32, 1, 2, 3, 1 << 31, u32::MAX] {
            ops.push(ROp::MulSmall(k));
        }
    }
    for i in 0..seconds.len() {
        ops.extend([ROp::Add(i), ROp::Sub(i), ROp::RSub(i), ROp::Mul(i)]);
    }
    assert!(ops.len() < 256 && alpha.len() < 256);
    let ops = Arc::new(ops);
    let init: Vec<RState> = alpha
        .iter()
        .enumerate()
        .map(|(i, m)| {
            let x = mk::<B>(m);
            let mut hist = [0u8; 7];
            hist[0] = i as u8;
            RState { img: x.img(), res: m.res, hist, hlen: 1 }
        })
        .collect();
    let p = B::P;
    let depth = tier.pick(2, 3);
    let render = {
        let (alpha, ops, seconds) = (alpha.clone(), ops.clone(), seconds.clone());
        move |s: &RState| -> Vec<String> {
            let m = &alpha[s.hist[0] as usize];
            let mut v = vec![format!("{}({:#x})", if m.image { "from_internal_image" } else { "new" }, m.raw)];
            for k in 1..s.hlen as usize {
                let op = ops[s.hist[k] as usize];
                v.push(match op {
                    ROp::Add(i) | ROp::Sub(i) | ROp::RSub(i) | ROp::Mul(i) => format!("{:?} with operand {}({:#x})", op, if seconds[i].image { "from_internal_image" } else { "new" }, seconds[i].raw),
                    _ => format!("{:?}", op),
                });
            }
            v
        }
    };
    let render2 = render.clone();
    let (ops2, seconds2) = (ops.clone(), seconds.clone());
    let stats = kit::engine::bfs_r(
        run,
        &format!("{}.reach", B::NAME),
        init,
        depth,
        tier.pick(2_000_000, 120_000_000),
        3,
        move |s: &RState, expand: bool, out: &mut CaseOut| {
            let x = B::from_img(s.img);
            // invariant in this state
            out.nontrivial();
            if let Some(why) = observe(&x, s.res) {
                out.violation(
                    format!("{}.reach: a reachable representation is distinguishable from its residue ({})", B::NAME, classify(&why)),
                    json!({"history": render(s), "image": format!("{:#x}", s.img), "why": why}),
                );
                return vec![]; // do not expand broken states
            }
            if !expand {
                return vec![];
            }
            let r = s.res;
            let mut succ = Vec::with_capacity(ops2.len());
            for (oi, op) in ops2.iter().enumerate() {
                let (y_img, res): (u128, u128) = match *op {
                    ROp::Neg => ((-x).img(), rm::negm(r, p)),
                    ROp::Double => (x.double().img(), rm::addm(r, r, p)),
                    ROp::Square => (x.square().img(), rm::mulm(r, r, p)),
                    ROp::Inv => (x.inv().img(), rm::invm(r, p)),
                    ROp::AddNegSelf => ((x + (-x)).img(), 0),
                    ROp::SubSelf => ((x - x).img(), 0),
                    ROp::MulSmall(k) => {
                        let g = g64::BaseElement::from_mont(s.img as u64);
                        (g.mul_small(k).inner() as u128, rm::mulm(r, k as u128, p))
                    },
                    ROp::Add(i) => ((x + mk::<B>(&seconds2[i])).img(), rm::addm(r, seconds2[i].res, p)),
                    ROp::Sub(i) => ((x - mk::<B>(&seconds2[i])).img(), rm::subm(r, seconds2[i].res, p)),
                    ROp::RSub(i) => ((mk::<B>(&seconds2[i]) - x).img(), rm::subm(seconds2[i].res, r, p)),
                    ROp::Mul(i) => ((x * mk::<B>(&seconds2[i])).img(), rm::mulm(r, seconds2[i].res, p)),
                };
                let mut hist = s.hist;
                hist[s.hlen as usize] = oi as u8;
                succ.push(RState { img: y_img, res, hist, hlen: s.hlen + 1 });
            }
            out.evals(succ.len() as u64);
            succ
        },
        |s: &RState| (s.img, s.res),
        move |s: &RState| json!({"history": render2(s), "image": format!("{:#x}", s.img), "residue": format!("{:#x}", s.res), "replay": {"img": format!("{:x}", s.img), "res": format!("{:x}", s.res), "hist": s.hist[..s.hlen as usize].to_vec()}}),
        |v: &Value| {
            let r = &v["replay"];
            let img = u128::from_str_radix(r["img"].as_str()?, 16).ok()?;
            let res = u128::from_str_radix(r["res"].as_str()?, 16).ok()?;
            let h: Vec<u8> = r["hist"].as_array()?.iter().filter_map(|x| x.as_u64().map(|y| y as u8)).collect();
            let mut hist = [0u8; 7];
            hist[..h.len().min(7)].copy_from_slice(&h[..h.len().min(7)]);
            Some(RState { img, res, hist, hlen: h.len().min(7) as u8 })
        },
    );
    run.note(&format!("reach:{}", B::NAME), json!({"depth_checked": stats.depth_completed, "states": stats.states, "operations": ops.len()}));
}

// ================================================================================================
// C08
// ================================================================================================

fn base_coeff_alphabet<B: Fld>(seed: u64, size: usize) -> Vec<Mem> {
    let p = B::P;
    let mut v: Vec<Mem> = vec![];
    let res = |raw: u128| Mem { image: false, raw, res: raw % p };
    for r in [0u128, 1, p - 1, 2, (p - 1) / 2, (1 << 32) - 1] {
        v.push(res(r));
    }
    if B::MONT {
        // boundary internal images: largest legal image, the image just below/above the modulus
        for raw in [B::IMG_LIMIT - 1, p - 1, (1u128 << 32) - 1, if B::IMG_LIMIT > p { p } else { 1u128 << 32 }] {
            v.push(Mem { image: true, raw, res: B::res_of_img(raw) });
        }
    } else {
        for r in [p - 2, (p + 1) / 2, (1u128 << 64) - 1, 1u128 << 64] {
            v.push(res(r));
        }
    }
    let mut rng = Rng::labelled(seed, &format!("ext-{}", B::NAME));
    while v.len() < size {
        v.push(res(rng.next_u128() % p));
    }
    v.truncate(size);
    v
}

fn ext_elems<B: Fld, E: Ext<B>>(alpha: &[Mem]) -> Vec<(E, El)> {
    let n = alpha.len();
    let total = n.pow(E::DEG as u32);
    (0..total)
        .map(|mut i| {
            let mut cs = vec![];
            let mut r = [0u128; 3];
            for k in 0..E::DEG {
                let m = &alpha[i % n];
                i /= n;
                cs.push(mk::<B>(m));
                r[k] = m.res;
            }
            (E::build(&cs), r)
        })
        .collect()
}

fn elj(e: &El, deg: usize) -> Value {
    json!(e[..deg].iter().map(|c| format!("{:#x}", c)).collect::<Vec<_>>())
}

fn ext_obs<B: Fld, E: Ext<B>>(x: &E, want: &El) -> Option<String> {
    let got = x.to_ref();
    if got != *want {
        return Some(format!("got {:?} want {:?}", elj(&got, E::DEG), elj(want, E::DEG)));
    }
    if *x != E::from_ref(want) {
        return Some("result is not == to the canonical element of the same coefficients".into());
    }
    None
}

fn c08_subs<B: Fld, E: Ext<B>>(run: &Arc<Run>) -> Vec<Arc<dyn Sub>> {
    let tier = run.tier();
    let asize = match (E::DEG, tier.is_thorough()) {
        (2, false) => 10,
        (2, true) => 16,
        (3, false) => 7,
        (_, _) => 12,
    };
    let alpha = base_coeff_alphabet::<B>(run.seed(), asize);
    let elems: Arc<Vec<(E, El)>> = Arc::new(ext_elems::<B, E>(&alpha));
    let n = elems.len() as u64;
    let ctx = Ctx::ext(B::P, E::DEG);
    let name = format!("{}^{}", B::NAME, E::DEG);
    let mut subs: Vec<Arc<dyn Sub>> = vec![];

    // ---- all ordered pairs (case = first operand, inner loop = every second operand)
    {
        let (e1, e2, nm) = (elems.clone(), elems.clone(), name.clone());
        subs.push(sub_t(
            &format!("{name}.pairs"),
            n,
            60,
            true,
            move |idx, out| {
                let (a, ra) = e1[idx as usize];
                let inv_ref_cache: Option<El> = None;
                let _ = inv_ref_cache;
                let ca = a.conjugate();
                for (b, rb) in e1.iter() {
                    let checks: [(&str, E, El); 3] = [("add", a + *b, ctx.add(&ra, rb)), ("sub", a - *b, ctx.sub(&ra, rb)), ("mul", a * *b, ctx.mul(&ra, rb))];
                    for (op, got, want) in checks {
                        if let Some(why) = ext_obs::<B, E>(&got, &want) {
                            out.violation(format!("{nm}.{op}: disagrees with polynomial arithmetic modulo the irreducible"), json!({"a": elj(&ra, E::DEG), "b": elj(rb, E::DEG), "why": why}));
                        }
                    }
                    // conjugation is multiplicative and additive
                    let cb = b.conjugate();
                    if (a * *b).conjugate() != ca * cb || (a + *b).conjugate() != ca + cb {
                        out.violation(format!("{nm}.conjugate: not a ring homomorphism"), json!({"a": elj(&ra, E::DEG), "b": elj(rb, E::DEG)}));
                    }
                    if (a == *b) != (ra == *rb) {
                        out.violation(format!("{nm}.eq: == disagrees with coefficient equality"), json!({"a": elj(&ra, E::DEG), "b": elj(rb, E::DEG)}));
                    }
                }
                out.evals(e1.len() as u64 - 1);
                out.nontrivial_n(e1.len() as u64);
            },
            move |idx| json!({"a": elj(&e2[idx as usize].1, E::DEG), "b": "every element of the alphabet product", "ops": "add sub mul == conjugate-homomorphism"}),
        ));
    }
    // ---- division: every (a, b) with b from the whole alphabet, a from a covering subset
    {
        let (e1, e2, nm) = (elems.clone(), elems.clone(), name.clone());
        let stride = tier.pick(7u64, 3u64);
        subs.push(sub_t(
            &format!("{name}.div"),
            n,
            60,
            true,
            move |idx, out| {
                let (b, rb) = e1[idx as usize];
                let rinv = ctx.inv(&rb);
                let mut k = idx % stride;
                let mut cnt = 0;
                while k < e1.len() as u64 {
                    let (a, ra) = e1[k as usize];
                    let want = ctx.mul(&ra, &rinv);
                    if let Some(why) = ext_obs::<B, E>(&(a / b), &want) {
                        out.violation(format!("{nm}.div: disagrees with a * b^-1"), json!({"a": elj(&ra, E::DEG), "b": elj(&rb, E::DEG), "why": why}));
                    }
                    let mut t = a;
                    t /= b;
                    if t != a / b {
                        out.violation(format!("{nm}.div_assign differs from div"), json!({"a": elj(&ra, E::DEG), "b": elj(&rb, E::DEG)}));
                    }
                    k += stride;
                    cnt += 1;
                }
                out.evals(cnt);
                out.nontrivial_n(cnt);
            },
            move |idx| json!({"b (divisor)": elj(&e2[idx as usize].1, E::DEG), "a": "every stride-th element"}),
        ));
    }
    // ---- singles
    {
        let (e1, e2, nm) = (elems.clone(), elems.clone(), name.clone());
        let balpha: Arc<Vec<Mem>> = Arc::new(alpha.clone());
        subs.push(sub_t(
            &format!("{name}.singles"),
            n,
            20,
            true,
            move |idx, out| {
                let (x, rx) = e1[idx as usize];
                out.nontrivial();
                let d = E::DEG;
                let mut bad = |what: &str, extra: Value| out.violation(format!("{nm}.{what}"), json!({"x": elj(&rx, d), "info": extra}));
                // squaring fast path, doubling, negation
                if let Some(w) = ext_obs::<B, E>(&x.square(), &ctx.mul(&rx, &rx)) {
                    bad("square: fast path disagrees with the definition", json!(w));
                }
                if x.square() != x * x {
                    bad("square: differs from x*x", json!(null));
                }
                if let Some(w) = ext_obs::<B, E>(&x.double(), &ctx.add(&rx, &rx)) {
                    bad("double", json!(w));
                }
                if let Some(w) = ext_obs::<B, E>(&(-x), &ctx.neg(&rx)) {
                    bad("neg", json!(w));
                }
                if let Some(w) = ext_obs::<B, E>(&x.cube(), &ctx.mul(&ctx.mul(&rx, &rx), &rx)) {
                    bad("cube", json!(w));
                }
                // inversion
                let xi = x.inv();
                if let Some(w) = ext_obs::<B, E>(&xi, &ctx.inv(&rx)) {
                    bad("inv: disagrees with the reference inverse (zero maps to zero)", json!(w));
                }
                if !ctx.is_zero(&rx) && x * xi != E::ONE {
                    bad("inv: x * inv(x) != 1 for a non-zero x", json!(null));
                }
                // conjugation = Frobenius x -> x^p, an automorphism of order deg fixing exactly the base field
                let c = x.conjugate();
                if let Some(w) = ext_obs::<B, E>(&c, &ctx.frobenius(&rx)) {
                    bad("conjugate: is not the Frobenius map x -> x^p", json!(w));
                }
                let mut t = x;
                for _ in 0..d {
                    t = t.conjugate();
                }
                if t != x {
                    bad("conjugate: applying it degree-many times is not the identity", json!(null));
                }
                let in_base = rx[1] == 0 && rx[2] == 0;
                if (c == x) != in_base {
                    bad("conjugate: fixes an element outside the base field or moves a base element", json!(null));
                }
                // multiplication by base elements and the embedding
                for m in balpha.iter() {
                    let b = mk::<B>(m);
                    if let Some(w) = ext_obs::<B, E>(&x.mul_base(b), &ctx.mul_base(&rx, m.res)) {
                        bad("mul_base", json!(w));
                    }
                    let eb = E::from(b);
                    if eb.to_ref() != [m.res, 0, 0] {
                        bad("from(base): embedding does not place the base element in coefficient 0", json!(null));
                    }
                    if x * eb != x.mul_base(b) {
                        bad("mul_base differs from multiplication by the embedded element", json!(null));
                    }
                }
                // coefficient access
                for i in 0..d {
                    if x.base_element(i).int() != rx[i] {
                        bad("base_element(i)", json!(i));
                    }
                }
                // exponentiation through the generic square-and-multiply
                for e in [0u128, 1, 2, 3, 5, 8, 65537] {
                    if let Some(w) = ext_obs::<B, E>(&x.exp(<E as FieldElement>::PositiveInteger::from(e as u64)), &ctx.pow(&rx, e)) {
                        bad("exp", json!({"e": e, "why": w}));
                    }
                }
                // serialization round trip and canonical bytes
                let bytes = x.to_bytes();
                let mut want = vec![];
                for i in 0..d {
                    let mut w = rx[i].to_le_bytes().to_vec();
                    w.truncate(B::ELEMENT_BYTES);
                    want.extend(w);
                }
                if bytes != want {
                    bad("to_bytes: not the concatenation of canonical coefficient bytes", json!(null));
                }
                match E::read_from(&mut SliceReader::new(&bytes)) {
                    Ok(y) if y == x => {},
                    _ => bad("read_from(to_bytes) is not the identity", json!(null)),
                }
                match E::try_from(bytes.as_slice()) {
                    Ok(y) if y == x => {},
                    _ => bad("try_from(bytes) of own serialization fails", json!(null)),
                }
                // slice reinterpretation both ways preserves every value
                let arr = [x, x.conjugate(), -x];
                let bs = E::slice_as_base_elements(&arr);
                let flat: Vec<u128> = bs.iter().map(|b| b.int()).collect();
                let wantflat: Vec<u128> = arr.iter().flat_map(|e| e.to_ref()[..d].to_vec()).collect();
                if bs.len() != 3 * d || flat != wantflat {
                    bad("slice_as_base_elements: wrong layout", json!(null));
                }
                let back = E::slice_from_base_elements(bs);
                if back.len() != 3 || back[0] != arr[0] || back[1] != arr[1] || back[2] != arr[2] {
                    bad("slice_from_base_elements(slice_as_base_elements(v)) != v", json!(null));
                }
                let raw = E::elements_as_bytes(&arr);
                if raw.len() != 3 * E::ELEMENT_BYTES {
                    bad("elements_as_bytes: wrong length", json!(null));
                }
                match unsafe { E::bytes_as_elements(raw) } {
                    Ok(s) if s.len() == 3 && s[0] == arr[0] && s[2] == arr[2] => {},
                    _ => bad("bytes_as_elements(elements_as_bytes(v)) != v", json!(null)),
                }
            },
            move |idx| json!({"x": elj(&e2[idx as usize].1, E::DEG), "ops": "square double neg cube inv conjugate mul_base embedding exp serialization slice views"}),
        ));
    }
    // ---- dense inversion sweep: the inverse of an extension element goes through a base-field inversion of its
    // norm, a pseudo-random value - rare operand-dependent defects of that inversion only show on many elements.
    // Elements (i, i*K1 + 1 [, i*K2 + 2]) for i in [1, 2^k]; oracle: x * inv(x) = 1 and (1/x) * x = 1.
    {
        let k: u32 = if B::NAME == "f62" { tier.pick(23, 26) } else { tier.pick(16, 20) };
        let total = 1u64 << k;
        let block = 1u64 << 13;
        let nm = name.clone();
        let p = B::P;
        subs.push(sub_t(
            &format!("{name}.inversion_sweep"),
            total / block,
            60,
            true,
            move |cidx, out| {
                for i in cidx * block + 1..=(cidx + 1) * block {
                    let i = i as u128;
                    let c: Vec<B> = [i % p, (i * 0x9E37_79B9_7F4A_7C15 + 1) % p, (i * 0xC2B2_AE3D_27D4_EB4F + 2) % p][..E::DEG].iter().map(|r| B::new_u(*r)).collect();
                    let x = E::build(&c);
                    let inv = x.inv();
                    if x * inv != E::ONE || (E::ONE / x) * x != E::ONE {
                        out.violation(format!("{nm}.inv: x * inv(x) != 1 (dense sweep)"), json!({"x": c.iter().map(|b| format!("{:#x}", b.int())).collect::<Vec<_>>()}));
                    }
                }
                out.evals(block - 1);
                out.nontrivial_n(block);
            },
            move |cidx| json!({"elements": format!("(i, i*K1+1[, i*K2+2]) for i in {}..={}", cidx * block + 1, (cidx + 1) * block)}),
        ));
    }
    subs
}

// ================================================================================================

fn main() {
    let args = Args::parse();
    let prop = args.prop.clone();
    match prop.as_str() {
        "C07" => {
            let run = Run::new(args, "model_checking");
            run.rule("E1: every tuple of the declared alphabets (boundary integers given to the constructor incl. values >= p, legal internal images incl. the extremes of the documented range, seed-derived residues) for every public operation of the three base fields, compared with big-integer arithmetic mod p on as_int / == / bytes / hashes; a pair or single is non-trivial when it was executed against the reference (distinct by enumeration index, alphabets de-duplicated). E2: breadth-first reachability over internal representations under all public operations; a state is (raw image, reference residue), de-duplicated on exactly that pair (equal image => equal futures since elements are plain values)");
            run.assume("reference arithmetic (u128 / num-bigint) is correct");
            run.assume("operand spaces of 2^62..2^128 values are covered by boundary-class alphabets plus seed-derived members, not by all values");
            run.assume("internal images are built with from_mont (f64) and the public unsafe zero-copy view (f62) inside the documented ranges [0,M) and [0,2M); Montgomery radix 2^64 as documented");
            let mut subs = vec![];
            subs.extend(c07_subs::<g64::BaseElement>(&run));
            subs.extend(c07_subs::<f62::BaseElement>(&run));
            subs.extend(c07_subs::<f128::BaseElement>(&run));
            if let Some(p) = run.args.replay.clone() {
                // returns only for a level of the reachability search, which the search itself replays
                run.try_replay(&subs, &p);
            } else {
                for s in subs {
                    run.explore(s);
                }
            }
            c07_reach::<g64::BaseElement>(&run);
            c07_reach::<f62::BaseElement>(&run);
            c07_reach::<f128::BaseElement>(&run);
            run.finish()
        },
        "C08" => {
            let run = Run::new(args, "exploration");
            run.rule("every ordered pair of extension elements whose coefficients range over a base-coefficient alphabet (0, 1, p-1, 2, (p-1)/2, 2^32-1, boundary internal images, seed-derived residues) in every position, for add/sub/mul/==/conjugation-homomorphism; every element for square/inv/conjugate/mul_base/embedding/exp/serialization/slice views; every divisor x a covering set of dividends; oracle: schoolbook polynomial arithmetic modulo the documented irreducible polynomial, inverse by Gaussian elimination, Frobenius by exponentiation; distinct by enumeration index over a de-duplicated alphabet");
            run.assume("reference arithmetic (u128 / num-bigint) is correct; irreducible polynomials as documented: x^2-x-1 (f62, f128), x^2-x+2 (f64), x^3+2x+2 (f62), x^3-x-1 (f64)");
            let mut subs = vec![];
            subs.extend(c08_subs::<g64::BaseElement, QuadExtension<g64::BaseElement>>(&run));
            subs.extend(c08_subs::<f62::BaseElement, QuadExtension<f62::BaseElement>>(&run));
            subs.extend(c08_subs::<f128::BaseElement, QuadExtension<f128::BaseElement>>(&run));
            subs.extend(c08_subs::<g64::BaseElement, CubeExtension<g64::BaseElement>>(&run));
            subs.extend(c08_subs::<f62::BaseElement, CubeExtension<f62::BaseElement>>(&run));
            if <f128::BaseElement as ExtensibleField<3>>::is_supported() || CubeExtension::<f128::BaseElement>::is_supported() {
                run.add_violation("f128^3", 0, "f128: cubic extension reported as supported", json!({}));
            }
            run.go(subs)
        },
        other => kit::engine::die(&format!("fields binary does not serve {other}")),
    }
}
