//! C10 — Merkle openings verify for committed leaves and only for them.
//!
//! Positive direction: every tree of depth 1..=4 (exhaustively: all non-empty position subsets, all
//! orderings of small subsets), deeper trees on structured/seeded families; single and batch openings
//! verify, decompress into exactly the naive paths and re-compress to the same opening.
//! Negative direction: for every opening of the small trees, every single-element and every shape
//! mutation must be answered with an error — never Ok, never a panic.
//! Oracle: naive recomputation of the tree from the leaves; an opening for (root, positions) is
//! acceptable iff it is, as a value, the opening the committed tree yields for those positions.
use std::sync::Arc;

use crypto::{hashers, BatchMerkleProof, Digest, ElementHasher, Hasher, MerkleTree};
use kit::engine::sub_t;
use kit::{json, pan, Args, CaseOut, Run, Sub, Value};
use math::fields::{f128, f62, f64 as g64};
use utils::{Serializable, SliceReader};

fn leaves_for<H: Hasher>(n: usize, tree_id: u8) -> Vec<H::Digest> {
    (0..n).map(|i| H::hash(&[i as u8, (i >> 8) as u8, tree_id, 0x4c])).collect()
}

/// levels[0] = leaves, levels[k] = nodes k levels above, last = [root]
fn naive_levels<H: Hasher>(leaves: &[H::Digest]) -> Vec<Vec<H::Digest>> {
    let mut levels = vec![leaves.to_vec()];
    while levels.last().unwrap().len() > 1 {
        let prev = levels.last().unwrap();
        let next: Vec<H::Digest> = prev.chunks(2).map(|c| H::merge(&[c[0], c[1]])).collect();
        levels.push(next);
    }
    levels
}

/// [leaf, sibling leaf, sibling of parent, ...] — the documented layout of a single opening
fn naive_path<H: Hasher>(levels: &[Vec<H::Digest>], index: usize) -> Vec<H::Digest> {
    let mut p = vec![levels[0][index]];
    let mut i = index;
    for lvl in levels.iter().take(levels.len() - 1) {
        p.push(lvl[i ^ 1]);
        i >>= 1;
    }
    p
}

fn clone_proof<H: Hasher>(p: &BatchMerkleProof<H>) -> BatchMerkleProof<H> {
    BatchMerkleProof { leaves: p.leaves.clone(), nodes: p.nodes.clone(), depth: p.depth }
}

fn same<H: Hasher>(a: &BatchMerkleProof<H>, b: &BatchMerkleProof<H>) -> bool {
    a.leaves == b.leaves && a.nodes == b.nodes && a.depth == b.depth
}

fn junk<H: Hasher>(k: usize) -> H::Digest {
    H::hash(&[0xEE, k as u8, (k >> 8) as u8, 0x99, 0x77])
}

fn shape<H: Hasher>(p: &BatchMerkleProof<H>) -> Value {
    json!({"leaves": p.leaves.len(), "nodes": p.nodes.iter().map(|v| v.len()).collect::<Vec<_>>(), "depth": p.depth})
}

/// all permutations of a small vector
fn permutations(v: &[usize]) -> Vec<Vec<usize>> {
    if v.len() <= 1 {
        return vec![v.to_vec()];
    }
    let mut out = vec![];
    for i in 0..v.len() {
        let mut rest = v.to_vec();
        let x = rest.remove(i);
        for mut p in permutations(&rest) {
            p.insert(0, x);
            out.push(p);
        }
    }
    out
}

struct TreeCtx<H: Hasher> {
    leaves: Vec<H::Digest>,
    levels: Vec<Vec<H::Digest>>,
    tree: MerkleTree<H>,
}

fn ctx<H: Hasher>(depth: usize, tree_id: u8) -> TreeCtx<H> {
    let leaves = leaves_for::<H>(1 << depth, tree_id);
    let levels = naive_levels::<H>(&leaves);
    let tree = MerkleTree::<H>::new(leaves.clone()).expect("tree");
    TreeCtx { leaves, levels, tree }
}

/// must be Err; Ok or panic are violations
fn expect_reject<H: Hasher>(out: &mut CaseOut, hname: &str, what: &str, root: &H::Digest, pos: &[usize], proof: &BatchMerkleProof<H>, info: impl Fn() -> Value) {
    out.evals(1);
    match pan::catch(|| MerkleTree::<H>::verify_batch(root, pos, proof)) {
        Ok(Err(_)) => out.class("mutant rejected"),
        Ok(Ok(())) => out.violation(format!("{hname}: batch opening accepted after mutation: {what}"), info()),
        Err(p) => out.violation(format!("{hname}: batch verification panics on mutation: {what} ({})", p.class()), info()),
    }
    // decompression of a hostile opening must not panic either
    if let Err(p) = pan::catch(|| clone_proof(proof).into_paths(pos)) {
        out.violation(format!("{hname}: into_paths panics on mutation: {what} ({})", p.class()), info());
    }
}

fn positive<H: Hasher>(out: &mut CaseOut, hname: &str, t: &TreeCtx<H>, pos: &[usize], sorted: bool) -> Option<BatchMerkleProof<H>> {
    let root = *t.tree.root();
    let d = || json!({"hasher": hname, "leaves": t.leaves.len(), "positions": pos});
    if root != *t.levels.last().unwrap().first().unwrap() {
        out.violation(format!("{hname}: tree root differs from the naive recomputation"), d());
    }
    let proof = match pan::catch(|| t.tree.prove_batch(pos)) {
        Ok(Ok(p)) => p,
        Ok(Err(e)) => {
            out.violation(format!("{hname}: prove_batch refuses distinct in-range positions ({:?})", e), d());
            return None;
        },
        Err(p) => {
            out.violation(format!("{hname}: prove_batch panics ({})", p.class()), d());
            return None;
        },
    };
    out.evals(4);
    match pan::catch(|| MerkleTree::<H>::verify_batch(&root, pos, &proof)) {
        Ok(Ok(())) => {},
        Ok(Err(e)) => out.violation(format!("{hname}: honest batch opening is rejected ({:?})", e), d()),
        Err(p) => out.violation(format!("{hname}: verify_batch panics on an honest opening ({})", p.class()), d()),
    }
    // claimed leaves are the committed ones, in query order
    let want_leaves: Vec<H::Digest> = pos.iter().map(|i| t.leaves[*i]).collect();
    if proof.leaves != want_leaves || proof.depth as usize != t.levels.len() - 1 {
        out.violation(format!("{hname}: batch opening carries wrong leaves or depth"), d());
    }
    // decompression = the individual naive paths (= what prove() returns)
    match pan::catch(|| clone_proof(&proof).into_paths(pos)) {
        Ok(Ok(paths)) => {
            for (k, i) in pos.iter().enumerate() {
                let np = naive_path::<H>(&t.levels, *i);
                let single = t.tree.prove(*i).ok();
                if paths[k] != np || single.as_ref() != Some(&np) {
                    out.violation(format!("{hname}: into_paths / prove disagree with the naive path"), d());
                    break;
                }
                if MerkleTree::<H>::verify(root, *i, &np).is_err() {
                    out.violation(format!("{hname}: honest single opening is rejected"), d());
                    break;
                }
            }
            // re-compression gives the same opening (for ascending positions: as a value)
            match pan::catch(|| BatchMerkleProof::<H>::from_paths(&paths, pos)) {
                Ok(re) => {
                    let mut sp = pos.to_vec();
                    sp.sort();
                    if sorted && !same(&re, &proof) {
                        out.violation(format!("{hname}: from_paths(into_paths(opening)) differs from the opening"), json!({"positions": pos, "opening": shape(&proof), "recompressed": shape(&re)}));
                    }
                    if MerkleTree::<H>::verify_batch(&root, &sp, &re).is_err() {
                        out.violation(format!("{hname}: re-compressed opening does not verify"), d());
                    }
                },
                Err(p) => out.violation(format!("{hname}: from_paths panics on honest paths ({})", p.class()), d()),
            }
        },
        Ok(Err(e)) => out.violation(format!("{hname}: into_paths fails on an honest opening ({:?})", e), d()),
        Err(p) => out.violation(format!("{hname}: into_paths panics on an honest opening ({})", p.class()), d()),
    }
    // node (de)serialization
    let bytes = proof.serialize_nodes();
    let mut rd = SliceReader::new(&bytes);
    match BatchMerkleProof::<H>::deserialize(&mut rd, proof.leaves.clone(), proof.depth) {
        Ok(p2) if same(&p2, &proof) && !utils::ByteReader::has_more_bytes(&rd) => {},
        _ => out.violation(format!("{hname}: deserialize(serialize_nodes(opening)) differs from the opening"), d()),
    }
    out.nontrivial();
    Some(proof)
}

fn negative<H: Hasher>(out: &mut CaseOut, hname: &str, t: &TreeCtx<H>, pos: &[usize], proof: &BatchMerkleProof<H>) {
    let root = *t.tree.root();
    let n = t.leaves.len();
    let info = |m: &BatchMerkleProof<H>| {
        let s = shape(m);
        let p = pos.to_vec();
        move || json!({"positions": p, "leaves_in_tree": n, "mutant": s})
    };
    // 1. every claimed leaf replaced
    for k in 0..proof.leaves.len() {
        for repl in [t.leaves[(pos[k] + 1) % n], junk::<H>(k)] {
            if repl == proof.leaves[k] {
                continue;
            }
            let mut m = clone_proof(proof);
            m.leaves[k] = repl;
            expect_reject(out, hname, "a claimed leaf replaced", &root, pos, &m, info(&m));
        }
    }
    // 2./3. every node replaced / deleted / duplicated in place
    for i in 0..proof.nodes.len() {
        for j in 0..proof.nodes[i].len() {
            let mut m = clone_proof(proof);
            m.nodes[i][j] = junk::<H>(i * 16 + j);
            expect_reject(out, hname, "a node replaced", &root, pos, &m, info(&m));
            let mut m = clone_proof(proof);
            m.nodes[i].remove(j);
            expect_reject(out, hname, "a node deleted", &root, pos, &m, info(&m));
            let mut m = clone_proof(proof);
            let x = m.nodes[i][j];
            m.nodes[i].insert(j, x);
            expect_reject(out, hname, "a node duplicated", &root, pos, &m, info(&m));
        }
        // 4. extra trailing node in every vector
        for extra in [junk::<H>(99), proof.nodes[i].last().cloned().unwrap_or(junk::<H>(98))] {
            let mut m = clone_proof(proof);
            m.nodes[i].push(extra);
            expect_reject(out, hname, "an unused node appended to a node vector", &root, pos, &m, info(&m));
        }
        // 7. last node moved to the next vector
        if i + 1 < proof.nodes.len() && !proof.nodes[i].is_empty() {
            let mut m = clone_proof(proof);
            let x = m.nodes[i].pop().unwrap();
            m.nodes[i + 1].push(x);
            expect_reject(out, hname, "a node moved to another vector", &root, pos, &m, info(&m));
        }
    }
    // 5. node vectors added / removed
    let mut m = clone_proof(proof);
    m.nodes.push(vec![]);
    expect_reject(out, hname, "an empty node vector appended", &root, pos, &m, info(&m));
    let mut m = clone_proof(proof);
    m.nodes.push(vec![junk::<H>(7)]);
    expect_reject(out, hname, "a node vector appended", &root, pos, &m, info(&m));
    let mut m = clone_proof(proof);
    m.nodes.pop();
    expect_reject(out, hname, "the last node vector removed", &root, pos, &m, info(&m));
    // 6. leaves added / removed
    let mut m = clone_proof(proof);
    m.leaves.push(junk::<H>(5));
    expect_reject(out, hname, "an unused leaf appended", &root, pos, &m, info(&m));
    let mut m = clone_proof(proof);
    m.leaves.push(t.leaves[pos[0]]);
    expect_reject(out, hname, "an unused leaf appended", &root, pos, &m, info(&m));
    let mut m = clone_proof(proof);
    m.leaves.pop();
    expect_reject(out, hname, "the last leaf removed", &root, pos, &m, info(&m));
    // 8. depth
    for d in [proof.depth.wrapping_sub(1), proof.depth + 1, 0u8, 62, 63, 64, 65, 255] {
        if d == proof.depth {
            continue;
        }
        let mut m = clone_proof(proof);
        m.depth = d;
        expect_reject(out, hname, &format!("depth changed to {}", if d < 62 { "a neighbouring value".to_string() } else { d.to_string() }), &root, pos, &m, info(&m));
    }
    // 9. positions
    let unq: Vec<usize> = (0..n).filter(|i| !pos.contains(i)).collect();
    let pinfo = |p: &[usize]| {
        let (a, b) = (pos.to_vec(), p.to_vec());
        move || json!({"honest_positions": a, "claimed_positions": b, "leaves_in_tree": n})
    };
    for k in 0..pos.len() {
        if let Some(u) = unq.first() {
            let mut p = pos.to_vec();
            p[k] = *u;
            expect_reject(out, hname, "a position replaced by an unqueried one", &root, &p, proof, pinfo(&p));
        }
        let mut p = pos.to_vec();
        p[k] = pos[k] + n;
        expect_reject(out, hname, "a position moved out of range (+number of leaves)", &root, &p, proof, pinfo(&p));
        for big in [usize::MAX, usize::MAX - 1, 1usize << (usize::BITS - 1), usize::MAX - n + 1 + pos[k]] {
            let mut p = pos.to_vec();
            p[k] = big;
            expect_reject(out, hname, "a position replaced by a huge value", &root, &p, proof, pinfo(&p));
        }
    }
    let mut p = pos.to_vec();
    p.push(pos[0]);
    expect_reject(out, hname, "a duplicated position", &root, &p, proof, pinfo(&p));
    if let Some(u) = unq.last() {
        let mut p = pos.to_vec();
        p.push(*u);
        expect_reject(out, hname, "an additional position", &root, &p, proof, pinfo(&p));
    }
    let mut p = pos.to_vec();
    p.push(usize::MAX);
    expect_reject(out, hname, "position usize::MAX", &root, &p, proof, pinfo(&p));
    if pos.len() > 1 {
        let mut p = pos.to_vec();
        p.swap(0, 1);
        expect_reject(out, hname, "two positions swapped without their leaves", &root, &p, proof, pinfo(&p));
        let p = pos[1..].to_vec();
        expect_reject(out, hname, "a position dropped", &root, &p, proof, pinfo(&p));
    }
    // 10. an out-of-range position smuggled in with a made-up leaf and a made-up path of every plausible length
    {
        let depth = proof.depth as usize;
        let mut lens = vec![0usize, 1, depth.saturating_sub(1), depth, depth + 1];
        lens.sort();
        lens.dedup();
        for q in [n, n + 1, 2 * n - 1, 2 * n] {
            for front in [false, true] {
                for &k in lens.iter() {
                    let mut m = clone_proof(proof);
                    let mut p = pos.to_vec();
                    if front {
                        p.insert(0, q);
                        m.leaves.insert(0, junk::<H>(q));
                    } else {
                        p.push(q);
                        m.leaves.push(junk::<H>(q));
                    }
                    m.nodes.push((0..k).map(|j| junk::<H>(q * 7 + j)).collect());
                    let (a, b, sh) = (pos.to_vec(), p.clone(), shape(&m));
                    expect_reject(out, hname, "an out-of-range position added together with a made-up leaf and path", &root, &p, &m, move || json!({"honest_positions": a, "claimed_positions": b, "leaves_in_tree": n, "mutant": sh}));
                }
            }
        }
    }
    expect_reject(out, hname, "empty position list", &root, &[], proof, pinfo(&[]));
    let many: Vec<usize> = (0..256).collect();
    expect_reject(out, hname, "256 positions", &root, &many, proof, pinfo(&[256]));
    // wrong root
    expect_reject(out, hname, "a different root", &junk::<H>(1), pos, proof, info(proof));
}

fn single_negative<H: Hasher>(out: &mut CaseOut, hname: &str, t: &TreeCtx<H>, index: usize) {
    let root = *t.tree.root();
    let n = t.leaves.len();
    let path = naive_path::<H>(&t.levels, index);
    let mut chk = |what: &str, idx: usize, p: &[H::Digest]| {
        out.evals(1);
        match pan::catch(|| MerkleTree::<H>::verify(root, idx, p)) {
            Ok(Err(_)) => {},
            Ok(Ok(())) => out.violation(format!("{hname}: single opening accepted after mutation: {what}"), json!({"index": idx, "honest_index": index, "leaves_in_tree": n, "path_len": p.len()})),
            Err(pr) => out.violation(format!("{hname}: single verification panics on mutation: {what} ({})", pr.class()), json!({"index": idx, "path_len": p.len()})),
        }
    };
    for k in 0..path.len() {
        let mut p = path.clone();
        p[k] = junk::<H>(k);
        chk("an element replaced", index, &p);
        let mut p = path.clone();
        p.remove(k);
        chk("an element removed", index, &p);
    }
    let mut p = path.clone();
    p.push(junk::<H>(3));
    chk("an element appended", index, &p);
    chk("path shortened to one element", index, &path[..1]);
    chk("empty path", index, &[]);
    for other in 0..n {
        if other != index {
            chk("a different in-range index", other, &path);
        }
    }
    chk("index moved out of range (+number of leaves)", index + n, &path);
    chk("index moved out of range (+2*number of leaves)", index + 2 * n, &path);
    chk("index usize::MAX", usize::MAX, &path);
    out.nontrivial();
}

fn mask_positions(mask: u64) -> Vec<usize> {
    (0..64).filter(|b| mask >> b & 1 == 1).collect()
}

fn subs_for<H: ElementHasher + 'static>(hname: &'static str, max_exhaustive_depth: usize, deep: Vec<usize>, run: &Arc<Run>) -> Vec<Arc<dyn Sub>>
where
    H::Digest: 'static,
{
    let mut subs: Vec<Arc<dyn Sub>> = vec![];
    // ---- exhaustive: all non-empty subsets of trees with 2..=2^max leaves
    for depth in 1..=max_exhaustive_depth {
        let n = 1usize << depth;
        let cases = (1u64 << n) - 1;
        let tctx = Arc::new(ctx::<H>(depth, depth as u8));
        subs.push(sub_t(
            &format!("{hname}.depth{depth}.all_subsets"),
            cases,
            60,
            true,
            move |idx, out| {
                let t = &*tctx;
                let pos = mask_positions(idx + 1);
                if let Some(proof) = positive(out, hname, t, &pos, true) {
                    negative(out, hname, t, &pos, &proof);
                }
                // other orders of the position list: all of them for <= 4 positions, else the reverse and a rotation
                let orders: Vec<Vec<usize>> = if pos.len() <= 4 {
                    permutations(&pos).into_iter().skip(1).collect()
                } else {
                    let mut r = pos.clone();
                    r.reverse();
                    let mut rot = pos.clone();
                    rot.rotate_left(pos.len() / 2);
                    vec![r, rot]
                };
                let sorted_nodes = t.tree.prove_batch(&pos).map(|p| p.nodes.iter().map(|v| v.len()).sum::<usize>()).ok();
                for (oi, o) in orders.iter().enumerate() {
                    if let Some(proof) = positive(out, hname, t, o, false) {
                        // the opening of a permuted list is as small as the opening of the sorted list
                        let nn: usize = proof.nodes.iter().map(|v| v.len()).sum();
                        if Some(nn) != sorted_nodes {
                            out.violation(format!("{hname}: batch opening of a permuted position list carries a different number of nodes than the opening of the sorted list"), json!({"leaves": t.leaves.len(), "positions": o, "nodes": nn, "nodes_sorted": sorted_nodes}));
                        }
                        // forgeries against permuted lists: every order of up to 3 positions, three orders of larger lists
                        if o.len() <= 3 || oi < 3 {
                            negative(out, hname, t, o, &proof);
                        }
                    }
                }
                if pos.len() == 1 {
                    single_negative(out, hname, t, pos[0]);
                }
            },
            move |idx| json!({"hasher": hname, "leaves": n, "positions": mask_positions(idx + 1), "checks": "honest opening, all orders, every single-element and shape mutation"}),
        ));
    }
    // ---- deeper trees: all subsets of size <= 2, all contiguous runs, seeded families up to 255 positions
    let seed = run.seed();
    for depth in deep {
        if depth <= max_exhaustive_depth {
            continue;
        }
        let n = 1usize << depth;
        // enumerate (a, b) with a <= b: singletons and pairs
        let pairs = (n * (n + 1) / 2) as u64;
        let runs = (n * (n + 1) / 2) as u64; // contiguous [a..=b]
        let families = 64u64;
        let tctx = Arc::new(ctx::<H>(depth, depth as u8));
        subs.push(sub_t(
            &format!("{hname}.depth{depth}.structured"),
            pairs + runs + families,
            60,
            true,
            move |idx, out| {
                let t = &*tctx;
                let unrank = |mut k: u64| {
                    let mut a = 0usize;
                    loop {
                        let row = (n - a) as u64;
                        if k < row {
                            return (a, a + k as usize);
                        }
                        k -= row;
                        a += 1;
                    }
                };
                let pos: Vec<usize> = if idx < pairs {
                    let (a, b) = unrank(idx);
                    if a == b { vec![a] } else { vec![a, b] }
                } else if idx < pairs + runs {
                    let (a, b) = unrank(idx - pairs);
                    (a..=b).take(255).collect()
                } else {
                    let f = idx - pairs - runs;
                    let mut rng = kit::rng::Rng::labelled(seed, &format!("merkle-{depth}-{f}"));
                    let want = [1usize, 2, 3, 17, 64, 128, 254, 255][(f % 8) as usize].min(n);
                    let mut set = std::collections::BTreeSet::new();
                    while set.len() < want {
                        set.insert(rng.below(n as u64) as usize);
                    }
                    set.into_iter().collect()
                };
                if let Some(proof) = positive(out, hname, t, &pos, true) {
                    // mutations on the smaller structured cases only (cost)
                    if pos.len() <= 3 || (idx >= pairs + runs && pos.len() <= 64) {
                        negative(out, hname, t, &pos, &proof);
                    }
                }
                let mut r = pos.clone();
                r.reverse();
                if r != pos {
                    positive(out, hname, t, &r, false);
                }
            },
            move |idx| json!({"hasher": hname, "leaves": n, "case": idx, "families": "all singletons and pairs; all contiguous runs; 64 seed-derived sets of up to 255 positions"}),
        ));
    }
    // ---- argument validation of the prover side
    subs.push(sub_t(
        &format!("{hname}.prove_argument_validation"),
        1,
        30,
        true,
        move |_, out| {
            let t = ctx::<H>(3, 3);
            out.nontrivial();
            let bad: Vec<(&str, Vec<usize>)> = vec![("empty", vec![]), ("duplicate", vec![1, 1]), ("out of range", vec![8]), ("out of range max", vec![usize::MAX]), ("too many", (0..256).collect())];
            for (what, p) in bad {
                match pan::catch(|| t.tree.prove_batch(&p)) {
                    Ok(Err(_)) => {},
                    Ok(Ok(_)) => out.violation(format!("{hname}: prove_batch accepts an ill-formed position list ({what})"), json!({})),
                    Err(pr) => out.violation(format!("{hname}: prove_batch panics on an ill-formed position list ({what}: {})", pr.class()), json!({})),
                }
            }
            match pan::catch(|| t.tree.prove(8)) {
                Ok(Err(_)) => {},
                _ => out.violation(format!("{hname}: prove accepts or panics on an out-of-range index"), json!({})),
            }
            for n in [0usize, 1, 3, 6] {
                match pan::catch(|| MerkleTree::<H>::new(leaves_for::<H>(n, 0))) {
                    Ok(Err(_)) => {},
                    _ => out.violation(format!("{hname}: MerkleTree::new accepts or panics on {n} leaves"), json!({})),
                }
            }
        },
        |_| json!({"checks": "empty / duplicate / out-of-range / too many positions; non-power-of-two leaf counts"}),
    ));
    subs
}

fn main() {
    let args = Args::parse();
    if args.prop != "C10" {
        kit::engine::die("merkle binary serves C10 only");
    }
    let run = Run::new(args, "exploration");
    run.rule("trees of 2,4,8,16 leaves: every non-empty position subset (65535 for 16 leaves) with every order of subsets of size <= 4 and two orders of larger ones; deeper trees (32..1024 leaves): all singletons and pairs, all contiguous runs, 64 seed-derived sets of up to 255 positions; for every opening of the exhaustive trees (sorted list, every order of up to 3 positions, up to three orders of larger lists) every single-element mutation (each leaf, each node) and every shape mutation (node deleted / duplicated / appended / moved, node vector or leaf added / removed, depth -1,+1,0,62..65,255, positions replaced / out of range / huge (2^63, 2^64-1, 2^64-n+p) / duplicated / added / dropped / swapped / empty / 256, wrong root); single paths: each element replaced / removed, appended, truncated to 0/1, every other index, out-of-range indexes; Blake3_256 exhaustively to 16 leaves, the other five hashers to 8 leaves; a case is non-trivial when the honest opening was produced and verified (distinct by enumeration index)");
    run.assume("hash functions are collision-free on the harness' distinct leaves; the canonical opening for (tree, positions) is the value prove_batch returns, whose sufficiency is established by naive recomputation (verify, into_paths == naive paths)");
    let thorough = run.tier().is_thorough();
    let mut subs = vec![];
    subs.extend(subs_for::<hashers::Blake3_256<g64::BaseElement>>("blake3_256", 4, if thorough { vec![5, 6, 7, 8, 10] } else { vec![5, 8] }, &run));
    let small = if thorough { 4 } else { 3 };
    subs.extend(subs_for::<hashers::Blake3_192<f62::BaseElement>>("blake3_192", small, if thorough { vec![6] } else { vec![] }, &run));
    subs.extend(subs_for::<hashers::Sha3_256<f128::BaseElement>>("sha3_256", small, if thorough { vec![5] } else { vec![] }, &run));
    subs.extend(subs_for::<hashers::Rp64_256>("rp64_256", 3, if thorough { vec![5] } else { vec![] }, &run));
    subs.extend(subs_for::<hashers::Rp62_248>("rp62_248", 3, if thorough { vec![4] } else { vec![] }, &run));
    subs.extend(subs_for::<hashers::RpJive64_256>("rpjive64_256", 3, if thorough { vec![4] } else { vec![] }, &run));
    let _ = (Digest::as_bytes(&junk::<hashers::Rp64_256>(0)), Serializable::to_bytes(&0u8));
    run.go(subs)
}
