//! C09 (FFT / interpolation / LDE equal direct evaluation) and C20 (polynomial and batch utilities).
mod c20;

use std::sync::Arc;

use crypto::{hashers, ElementHasher, MerkleTree};
use glue::{elj, from_refs, rand_el, root_of_unity, to_refs, Elt, Fld, B128, B62, B64};
use kit::engine::sub_t;
use kit::refmath::{mulm, powm, Ctx, El};
use kit::rng::Rng;
use kit::{json, pan, Args, CaseOut, Run, Sub};
use math::fft;
use math::fields::QuadExtension;
use math::{FieldElement, StarkField};
use prover::matrix::{ColMatrix, RowMatrix};
use prover::StarkDomain;

/// offsets: 1, the field generator, a seed-derived value
fn offsets<B: Fld>(seed: u64) -> Vec<u128> {
    let mut rng = Rng::labelled(seed, "fft-offset");
    vec![1, B::GENERATOR.int(), 2 + rng.next_u128() % (B::P - 3)]
}

fn ref_pows(base: u128, n: usize, p: u128) -> Vec<u128> {
    let mut v = Vec::with_capacity(n);
    let mut x = 1u128;
    for _ in 0..n {
        v.push(x);
        x = mulm(x, base, p);
    }
    v
}

/// natural-order evaluation points offset * w^i for a domain of size n
fn ref_domain<B: Fld>(n: usize, offset: u128) -> Vec<u128> {
    let w = root_of_unity::<B>(n.ilog2());
    ref_pows(w, n, B::P).into_iter().map(|x| mulm(x, offset, B::P)).collect()
}

fn first_diff<E: Elt>(got: &[E], want: &[El]) -> Option<usize>
where
    E::BaseField: Fld,
{
    if got.len() != want.len() {
        return Some(usize::MAX);
    }
    (0..got.len()).find(|i| got[*i].to_ref() != want[*i])
}

// ================================================================================================
// C09: transforms on the monomial basis
// ================================================================================================

fn c09_monomials<E: Elt>(run: &Arc<Run>) -> Vec<Arc<dyn Sub>>
where
    E::BaseField: Fld,
{
    type Bf<E> = <E as FieldElement>::BaseField;
    let tier = run.tier();
    let seed = run.seed();
    let max_log = tier.pick(11u32, 12u32);
    let ctx = E::ctx();
    let p = ctx.p;
    let name = E::tname();
    let mut subs: Vec<Arc<dyn Sub>> = vec![];
    // --- case = (log n, j): the monomial c*x^j through evaluate / interpolate (offset 1 and others)
    let mut cases: Vec<(u32, usize)> = vec![];
    for log_n in 1..=max_log {
        let n = 1usize << log_n;
        // all j for n <= 256; for larger n every j of a covering set (all j would cost n^2 per size):
        // 0, 1, n-1, n/2, powers of two, and a stride through the rest
        if n <= tier.pick(256, 512) {
            cases.extend((0..n).map(|j| (log_n, j)));
        } else {
            let mut js: Vec<usize> = vec![0, 1, 2, 3, n - 1, n - 2, n / 2, n / 2 - 1, n / 2 + 1];
            let mut k = 4;
            while k < n {
                js.extend([k, k - 1, k + 1]);
                k *= 2;
            }
            let stride = tier.pick(97, 13);
            js.extend((0..n).step_by(stride));
            js.sort();
            js.dedup();
            cases.extend(js.into_iter().filter(|j| *j < n).map(|j| (log_n, j)));
        }
    }
    let cases = Arc::new(cases);
    let c2 = cases.clone();
    let nm = name.clone();
    subs.push(sub_t(
        &format!("{name}.fft.monomials"),
        cases.len() as u64,
        120,
        true,
        move |idx, out| {
            let (log_n, j) = cases[idx as usize];
            let n = 1usize << log_n;
            let mut rng = Rng::labelled(seed, &format!("mono-{log_n}-{j}"));
            let c = rand_el(&mut rng, &ctx);
            let cre = E::from_ref(&c);
            let twiddles = fft::get_twiddles::<Bf<E>>(n);
            let inv_twiddles = fft::get_inv_twiddles::<Bf<E>>(n);
            if twiddles.len() != n / 2 || inv_twiddles.len() != n / 2 {
                out.violation(format!("{nm}: twiddle table has the wrong length"), json!({"n": n}));
            }
            let mut poly = vec![E::ZERO; n];
            poly[j] = cre;
            let w = root_of_unity::<Bf<E>>(log_n);
            let d = || json!({"field": nm, "n": n, "monomial_degree": j, "coefficient": elj(&c, E::DEG)});
            // evaluate_poly: expected c * w^(i*j)
            let wj = powm(w, j as u128, p);
            let want: Vec<El> = ref_pows(wj, n, p).iter().map(|x| ctx.mul_base(&c, *x)).collect();
            let mut ev = poly.clone();
            fft::evaluate_poly(&mut ev, &twiddles);
            if let Some(i) = first_diff(&ev, &want) {
                out.violation(format!("{nm}: evaluate_poly differs from direct evaluation"), json!({"case": d(), "first_wrong_point": i}));
            }
            // interpolation inverts evaluation exactly
            let mut back = ev.clone();
            fft::interpolate_poly(&mut back, &inv_twiddles);
            if back != poly {
                out.violation(format!("{nm}: interpolate_poly(evaluate_poly(p)) != p"), d());
            }
            // degree inference
            if fft::infer_degree(&ev, <Bf<E>>::ONE) != j {
                out.violation(format!("{nm}: infer_degree reports a wrong degree"), d());
            }
            // with offsets and blowups
            let blowups: Vec<usize> = if n <= 64 { vec![1, 2, 4, 8, 16, 32, 64, 128] } else if n <= 512 { vec![1, 2, 8] } else { vec![1, 2] };
            for (oi, off) in offsets::<Bf<E>>(seed).into_iter().enumerate() {
                for &b in blowups.iter() {
                    // thin the product for large n: all offsets with blowup 2, all blowups with the generator
                    if n > 64 && !(b == 2 || oi == 1) {
                        continue;
                    }
                    let big = n * b;
                    if big.ilog2() > <Bf<E>>::TWO_ADICITY {
                        continue;
                    }
                    let dom = ref_domain::<Bf<E>>(big, off);
                    let want: Vec<El> = dom.iter().map(|x| ctx.mul_base(&c, powm(*x, j as u128, p))).collect();
                    let mut pc = poly.clone();
                    let got = fft::evaluate_poly_with_offset(&mut pc, &twiddles, <Bf<E>>::mk(off), b);
                    out.evals(1);
                    if let Some(i) = first_diff(&got, &want) {
                        out.violation(format!("{nm}: evaluate_poly_with_offset differs from direct evaluation"), json!({"case": d(), "offset": format!("{:#x}", off), "blowup": b, "first_wrong_point": i}));
                    }
                    if b == 1 {
                        let mut back = got.clone();
                        fft::interpolate_poly_with_offset(&mut back, &inv_twiddles, <Bf<E>>::mk(off));
                        if back != poly {
                            out.violation(format!("{nm}: interpolate_poly_with_offset does not invert evaluation"), json!({"case": d(), "offset": format!("{:#x}", off)}));
                        }
                        if fft::infer_degree(&got, <Bf<E>>::mk(off)) != j {
                            out.violation(format!("{nm}: infer_degree (with offset) reports a wrong degree"), d());
                        }
                    }
                }
            }
            out.nontrivial();
        },
        move |idx| json!({"n": 1usize << c2[idx as usize].0, "monomial_degree": c2[idx as usize].1, "checks": "evaluate, interpolate, infer_degree, offsets x blowups"}),
    ));

    // --- dense polynomials (boundary coefficients, random) against Horner, zero polynomial, permute_index
    let max_dense = tier.pick(9u32, 11u32);
    let nm = name.clone();
    subs.push(sub_t(
        &format!("{name}.fft.dense"),
        (max_dense as u64) * 3,
        120,
        true,
        move |idx, out| {
            let log_n = (idx / 3) as u32 + 1;
            let kind = idx % 3;
            let n = 1usize << log_n;
            let mut rng = Rng::labelled(seed, &format!("dense-{log_n}-{kind}"));
            let coeffs: Vec<El> = (0..n)
                .map(|i| match kind {
                    0 => {
                        let b = [0u128, 1, p - 1, (1u128 << 32) - 1, 1u128 << 32][i % 5];
                        let mut e = [0u128; 3];
                        for k in 0..E::DEG {
                            e[k] = [b, p - 1, 1][(i + k) % 3].min(p - 1);
                        }
                        e[0] = b;
                        e
                    },
                    1 => rand_el(&mut rng, &ctx),
                    _ => Ctx::ZERO,
                })
                .collect();
            let poly: Vec<E> = from_refs(&coeffs);
            let tw = fft::get_twiddles::<Bf<E>>(n);
            let off = offsets::<Bf<E>>(seed)[(idx % 3) as usize];
            let b = if n <= 256 { 4 } else { 2 };
            let dom = ref_domain::<Bf<E>>(n * b, off);
            let want: Vec<El> = dom.iter().map(|x| ctx.poly_eval(&coeffs, &[*x, 0, 0])).collect();
            let mut pc = poly.clone();
            let got = fft::evaluate_poly_with_offset(&mut pc, &tw, <Bf<E>>::mk(off), b);
            if let Some(i) = first_diff(&got, &want) {
                out.violation(format!("{nm}: evaluate_poly_with_offset differs from Horner evaluation on a dense polynomial"), json!({"n": n, "kind": kind, "first_wrong_point": i}));
            }
            if kind == 2 && fft::infer_degree(&got[..n], <Bf<E>>::mk(off)) != 0 {
                out.violation(format!("{nm}: infer_degree of the zero polynomial is not 0"), json!({"n": n}));
            }
            // degree inference with trailing zero coefficients
            if kind == 1 {
                for deg in [0usize, 1, n / 2, n - 2] {
                    if deg >= n {
                        continue;
                    }
                    let mut c2 = coeffs.clone();
                    for c in c2.iter_mut().skip(deg + 1) {
                        *c = Ctx::ZERO;
                    }
                    if ctx.is_zero(&c2[deg]) {
                        c2[deg] = Ctx::ONE;
                    }
                    let mut pe: Vec<E> = from_refs(&c2);
                    fft::evaluate_poly(&mut pe, &tw);
                    if fft::infer_degree(&pe, <Bf<E>>::ONE) != deg {
                        out.violation(format!("{nm}: infer_degree reports a wrong degree for a dense polynomial"), json!({"n": n, "degree": deg}));
                    }
                }
            }
            // permute_index is bit reversal and an involution
            for i in 0..n {
                let r = fft::permute_index(n, i);
                let want = (i as u64).reverse_bits() >> (64 - log_n);
                if r as u64 != want || fft::permute_index(n, r) != i {
                    out.violation("permute_index is not the bit-reversal involution", json!({"n": n, "i": i}));
                    break;
                }
            }
            out.nontrivial();
        },
        |idx| json!({"n": 1usize << (idx / 3 + 1), "coefficients": (["boundary", "seed-derived", "zero"][(idx % 3) as usize])}),
    ));
    subs
}

// ================================================================================================
// C09: column-batched, segmented variants
// ================================================================================================

fn eval_matrix<E: Elt, const N: usize>(polys: &ColMatrix<E>, blowup: usize, over: Option<u128>) -> RowMatrix<E>
where
    E::BaseField: Fld,
{
    match over {
        None => RowMatrix::evaluate_polys::<N>(polys, blowup),
        Some(off) => {
            let tw = fft::get_twiddles::<E::BaseField>(polys.num_rows());
            let dom = StarkDomain::from_twiddles(tw, blowup, <E::BaseField as Fld>::mk(off));
            RowMatrix::evaluate_polys_over::<N>(polys, &dom)
        },
    }
}

fn c09_matrices<E: Elt, H: ElementHasher<BaseField = E::BaseField> + 'static>(run: &Arc<Run>) -> Vec<Arc<dyn Sub>>
where
    E::BaseField: Fld,
    H::Digest: 'static,
{
    type Bf<E> = <E as FieldElement>::BaseField;
    let tier = run.tier();
    let seed = run.seed();
    let ctx = E::ctx();
    let name = E::tname();
    let mut widths: Vec<usize> = (1..=40).collect();
    widths.extend([63, 64, 65, 127, 128, 129, 254, 255]);
    if E::DEG > 1 {
        widths.retain(|w| w * E::DEG <= 255 * 3);
    }
    let seg_widths: Vec<usize> = vec![1, 2, 8, 16];
    let nw = widths.len() as u64;
    let ns = seg_widths.len() as u64;
    let (w2, s2) = (widths.clone(), seg_widths.clone());
    let nm = name.clone();
    vec![sub_t(
        &format!("{name}.matrix.lde"),
        nw * ns,
        120,
        true,
        move |idx, out| {
            let ncols = widths[(idx / ns) as usize];
            let seg = seg_widths[(idx % ns) as usize];
            let n = if tier.is_thorough() && ncols <= 40 { 16usize } else { 8 };
            let blowup = [2usize, 4, 8][(ncols + seg) % 3];
            let mut rng = Rng::labelled(seed, &format!("mat-{ncols}-{seg}"));
            // column c: polynomial with seed-derived coefficients; column 0 boundary coefficients
            let cols_ref: Vec<Vec<El>> = (0..ncols).map(|c| (0..n).map(|i| if c == 0 { [[0u128, 1, ctx.p - 1][i % 3], 0, 0] } else { rand_el(&mut rng, &ctx) }).collect()).collect();
            let cols: Vec<Vec<E>> = cols_ref.iter().map(|c| from_refs(c)).collect();
            let polys = ColMatrix::new(cols.clone());
            let d = || json!({"field": nm, "columns": ncols, "segment_width": seg, "poly_size": n, "blowup": blowup});
            for over in [None, Some(offsets::<Bf<E>>(seed)[2])] {
                let off = over.unwrap_or(<Bf<E>>::GENERATOR.int());
                let res = pan::catch(|| match seg {
                    1 => eval_matrix::<E, 1>(&polys, blowup, over),
                    2 => eval_matrix::<E, 2>(&polys, blowup, over),
                    8 => eval_matrix::<E, 8>(&polys, blowup, over),
                    _ => eval_matrix::<E, 16>(&polys, blowup, over),
                });
                let m = match res {
                    Ok(m) => m,
                    Err(p) => {
                        out.violation(format!("{nm}: segmented evaluation panics ({})", p.class()), d());
                        continue;
                    },
                };
                let big = n * blowup;
                let dom = ref_domain::<Bf<E>>(big, off);
                if m.num_rows() != big || m.num_cols() != ncols {
                    out.violation(format!("{nm}: segmented evaluation returns a matrix of the wrong shape"), json!({"case": d(), "rows": m.num_rows(), "cols": m.num_cols()}));
                    continue;
                }
                let mut bad = None;
                'outer: for r in 0..big {
                    let x = [dom[r], 0, 0];
                    let row = m.row(r);
                    for c in 0..ncols {
                        let want = ctx.poly_eval(&cols_ref[c], &x);
                        if row[c].to_ref() != want || m.get(c, r).to_ref() != want {
                            bad = Some((r, c));
                            break 'outer;
                        }
                    }
                }
                out.evals((big * ncols) as u64);
                if let Some((r, c)) = bad {
                    out.violation(format!("{nm}: segmented LDE cell differs from Horner evaluation"), json!({"case": d(), "row": r, "column": c, "explicit_domain": over.is_some()}));
                }
                // row commitments hash the rows in natural order
                if seg == 8 && ncols <= 65 {
                    let tree: MerkleTree<H> = m.commit_to_rows::<H>();
                    let leaves: Vec<H::Digest> = (0..big).map(|r| H::hash_elements(m.row(r))).collect();
                    let naive = MerkleTree::<H>::new(leaves).unwrap();
                    if tree.root() != naive.root() {
                        out.violation(format!("{nm}: commit_to_rows does not commit to the rows in order"), d());
                    }
                }
            }
            // column-major counterpart
            if seg == 1 {
                let tw = fft::get_twiddles::<Bf<E>>(n);
                let off = offsets::<Bf<E>>(seed)[2];
                let dom = StarkDomain::from_twiddles(tw, blowup, <Bf<E>>::mk(off));
                let ev = polys.evaluate_columns_over(&dom);
                let rd = ref_domain::<Bf<E>>(n * blowup, off);
                let mut ok = ev.num_rows() == n * blowup && ev.num_cols() == ncols;
                if ok {
                    for c in 0..ncols {
                        for r in (0..n * blowup).step_by(3) {
                            if ev.get(c, r).to_ref() != ctx.poly_eval(&cols_ref[c], &[rd[r], 0, 0]) {
                                ok = false;
                            }
                        }
                    }
                }
                if !ok {
                    out.violation(format!("{nm}: ColMatrix::evaluate_columns_over differs from Horner evaluation"), d());
                }
                // the same over a domain built from an AIR whose constraint-evaluation domain is SMALLER than its LDE
                // domain (degree-2 constraints: blowup 2 for constraint evaluation) - the two blowups must not be mixed up
                if blowup >= 4 && n * blowup <= 4096 && n >= 8 {
                    let opts = air::ProofOptions::new(1, blowup, 0, air::FieldExtension::None, 2, 0);
                    let mock = <MockAir<Bf<E>> as air::Air>::new(air::TraceInfo::new(1, n), (), opts);
                    let dom = StarkDomain::new(&mock);
                    let goff = <Bf<E> as Fld>::int(&<Bf<E> as math::StarkField>::GENERATOR);
                    let rd = ref_domain::<Bf<E>>(n * blowup, goff);
                    let ev = polys.evaluate_columns_over(&dom);
                    let mut ok = ev.num_rows() == n * blowup && ev.num_cols() == ncols && dom.ce_domain_size() < dom.lde_domain_size();
                    if ok {
                        for c in 0..ncols {
                            for r in (0..n * blowup).step_by(5) {
                                if ev.get(c, r).to_ref() != ctx.poly_eval(&cols_ref[c], &[rd[r], 0, 0]) {
                                    ok = false;
                                }
                            }
                        }
                    }
                    if !ok {
                        out.violation(format!("{nm}: ColMatrix::evaluate_columns_over differs from Horner evaluation over the LDE domain of an AIR-built StarkDomain"), d());
                    }
                    let m = RowMatrix::evaluate_polys_over::<8>(&polys, &dom);
                    if m.num_rows() != n * blowup {
                        out.violation(format!("{nm}: RowMatrix::evaluate_polys_over has the wrong number of rows over an AIR-built StarkDomain"), d());
                    }
                }
                // interpolation of columns inverts evaluation over the trace domain
                let td = ref_domain::<Bf<E>>(n, 1);
                let evals: Vec<Vec<E>> = cols_ref.iter().map(|c| from_refs::<E>(&td.iter().map(|x| ctx.poly_eval(c, &[*x, 0, 0])).collect::<Vec<_>>())).collect();
                let em = ColMatrix::new(evals);
                let ip = em.interpolate_columns();
                for c in 0..ncols {
                    if to_refs(ip.get_column(c)) != cols_ref[c] {
                        out.violation(format!("{nm}: ColMatrix::interpolate_columns does not invert evaluation"), d());
                        break;
                    }
                }
                let z = rand_el(&mut rng, &ctx);
                let at = polys.evaluate_columns_at(E::from_ref(&z));
                for c in 0..ncols {
                    if at[c].to_ref() != ctx.poly_eval(&cols_ref[c], &z) {
                        out.violation(format!("{nm}: ColMatrix::evaluate_columns_at differs from Horner evaluation"), d());
                        break;
                    }
                }
            }
            out.nontrivial();
        },
        move |idx| json!({"columns": w2[(idx / ns) as usize], "segment_width": s2[(idx % ns) as usize]}),
    )]
}

/// minimal AIR: one column, one degree-2 transition constraint (constraint-evaluation blowup 2), one assertion
struct MockAir<B: math::StarkField>(air::AirContext<B>);

impl<B: math::StarkField + math::ExtensibleField<2> + math::ExtensibleField<3>> air::Air for MockAir<B> {
    type BaseField = B;
    type PublicInputs = ();
    type GkrProof = ();
    type GkrVerifier = ();
    fn new(trace_info: air::TraceInfo, _pub_inputs: (), options: air::ProofOptions) -> Self {
        MockAir(air::AirContext::new(trace_info, vec![air::TransitionConstraintDegree::new(2)], 1, options))
    }
    fn context(&self) -> &air::AirContext<B> {
        &self.0
    }
    fn evaluate_transition<E: FieldElement<BaseField = B>>(&self, _frame: &air::EvaluationFrame<E>, _periodic_values: &[E], _result: &mut [E]) {}
    fn get_assertions(&self) -> Vec<air::Assertion<B>> {
        vec![]
    }
}

fn main() {
    let args = Args::parse();
    match args.prop.clone().as_str() {
        "C09" => {
            let run = Run::new(args, "exploration");
            run.rule("for each of f64, f62, f128 and a quadratic extension of each: every monomial c*x^j (all j for n <= 256/512, a covering set of j for larger n) of every size 2^1..2^11 (2^12 thorough) through evaluate_poly, interpolate_poly, infer_degree and evaluate_poly_with_offset for offsets {1, generator, seeded} x blowups {1..128} (n <= 64) / {1,2,8} / {1,2}, expected values computed in closed form (offset*w^i)^j with reference arithmetic - the transforms are linear, so agreement on the monomial basis settles every polynomial of that size; dense boundary/seeded/zero polynomials against Horner evaluation; segmented RowMatrix evaluation for every column count 1..=40 and {63,64,65,127,128,129,254,255} x segment widths {1,2,8,16}, every cell compared with Horner evaluation, with the default and an explicit domain; ColMatrix evaluation/interpolation; row commitment order; distinct by enumeration index");
            run.assume("the domain generator is the library's root of unity of the given order (its order is checked by C07); reference arithmetic as in C07/C08; linearity of the transforms over the field (field laws are C07/C08's business)");
            let mut subs = vec![];
            subs.extend(c09_monomials::<B64>(&run));
            subs.extend(c09_monomials::<B62>(&run));
            subs.extend(c09_monomials::<B128>(&run));
            subs.extend(c09_monomials::<QuadExtension<B64>>(&run));
            subs.extend(c09_monomials::<QuadExtension<B128>>(&run));
            subs.extend(c09_matrices::<B64, hashers::Blake3_256<B64>>(&run));
            subs.extend(c09_matrices::<B62, hashers::Rp62_248>(&run));
            subs.extend(c09_matrices::<B128, hashers::Sha3_256<B128>>(&run));
            subs.extend(c09_matrices::<QuadExtension<B64>, hashers::Rp64_256>(&run));
            subs.extend(c09_matrices::<math::fields::CubeExtension<B62>, hashers::Blake3_192<B62>>(&run));
            run.go(subs)
        },
        "C20" => {
            let run = Run::new(args, "exploration");
            c20::describe(&run);
            let mut subs = vec![];
            subs.extend(c20::subs::<B64>(&run));
            subs.extend(c20::subs::<B62>(&run));
            subs.extend(c20::subs::<B128>(&run));
            subs.extend(c20::subs::<QuadExtension<B64>>(&run));
            subs.extend(c20::subs::<math::fields::CubeExtension<B62>>(&run));
            run.go(subs)
        },
        other => kit::engine::die(&format!("polyfft binary does not serve {other}")),
    }
}

#[allow(dead_code)]
fn unused(_: &mut CaseOut) {}
