//! C20 — polynomial arithmetic and batch utilities against a schoolbook reference.
use std::sync::Arc;

use glue::{elj, from_refs, rand_el, to_refs, Elt, Fld};
use kit::engine::sub_t;
use kit::refmath::{Ctx, El};
use kit::rng::Rng;
use kit::{json, pan, CaseOut, Run, Sub, Value};
use math::{polynom, FieldElement};

pub fn describe(run: &Arc<Run>) {
    run.rule("for f64, f62, f128, a quadratic (f64) and a cubic (f62) extension: all 781 polynomials of length 0..=4 over a 5-member coefficient alphabet {0,1,2,p-1,seeded}: all ordered pairs for add/sub/mul/div inside the documented preconditions (q*d+r = a, deg r < deg d), every polynomial for scalar multiplication, evaluation, degree, trimming; synthetic division by x^a-b for a in 1..=4 and b in {1,2,p-1,seeded} incl. repeated division; every root list of length <= 3 for syn_div_roots_in_place and poly_from_roots; interpolate / interpolate_batch on every point set of size 1..=5 from a 7-point alphabet (interpolation inverts evaluation, equals the Lagrange reference); batch_inversion on all vectors of length <= 6 over {0,1,p-1,seeded} and on lengths 1023,1024,1025,2048 with a zero at every single position; power series for n in {0,1,2,1023,1024,1025,2049} x 5 bases with and without offset; add_in_place / mul_acc around the 1024 threshold; distinct by enumeration index");
    run.assume("inputs for which the documentation promises a panic (division by a higher-degree or zero divisor, syn_div with a = 0 or b = 0, empty operands of mul) are excluded by an explicit precondition predicate; reference = schoolbook arithmetic of kit::refmath");
}

fn alphabet<E: Elt>(seed: u64) -> Vec<El>
where
    E::BaseField: Fld,
{
    let ctx = E::ctx();
    let p = ctx.p;
    let mut rng = Rng::labelled(seed, &format!("c20-{}", E::tname()));
    let mut top = [p - 1, 0, 0];
    if E::DEG > 1 {
        top[1] = 1;
    }
    if E::DEG > 2 {
        top[2] = p - 1;
    }
    vec![Ctx::ZERO, Ctx::ONE, [2, 0, 0], top, rand_el(&mut rng, &ctx)]
}

/// idx -> polynomial of length 0..=4 over the alphabet (all 781 of them)
fn poly_by_index(mut idx: usize, alpha: &[El]) -> Vec<El> {
    let a = alpha.len();
    let mut len = 0;
    let mut block = 1;
    while idx >= block {
        idx -= block;
        block *= a;
        len += 1;
    }
    (0..len)
        .map(|_| {
            let c = alpha[idx % a];
            idx /= a;
            c
        })
        .collect()
}

fn pj(p: &[El], deg: usize) -> Value {
    json!(p.iter().map(|c| elj(c, deg)).collect::<Vec<_>>())
}

fn chk<T>(out: &mut CaseOut, name: &str, what: &str, r: Result<T, pan::PanicRec>, info: impl Fn() -> Value) -> Option<T> {
    match r {
        Ok(v) => Some(v),
        Err(p) => {
            out.violation(format!("{name}: {what} panics on an input inside its documented domain ({})", p.class()), info());
            None
        },
    }
}

pub fn subs<E: Elt>(run: &Arc<Run>) -> Vec<Arc<dyn Sub>>
where
    E::BaseField: Fld,
{
    let seed = run.seed();
    let ctx = E::ctx();
    let name = E::tname();
    let alpha = Arc::new(alphabet::<E>(seed));
    let npoly = 781usize;
    let mut subs: Vec<Arc<dyn Sub>> = vec![];

    // ---- all ordered pairs of polynomials
    {
        let (al, nm) = (alpha.clone(), name.clone());
        let al2 = alpha.clone();
        subs.push(sub_t(
            &format!("{name}.poly.pairs"),
            npoly as u64,
            120,
            true,
            move |idx, out| {
                let ar = poly_by_index(idx as usize, &al);
                let a: Vec<E> = from_refs(&ar);
                for j in 0..npoly {
                    let br = poly_by_index(j, &al);
                    let b: Vec<E> = from_refs(&br);
                    let info = || json!({"a": pj(&ar, E::DEG), "b": pj(&br, E::DEG)});
                    if let Some(s) = chk(out, &nm, "add", pan::catch(|| polynom::add(&a, &b)), info) {
                        if to_refs(&s) != ctx.poly_add(&ar, &br) {
                            out.violation(format!("{nm}: polynom::add differs from the coefficient-wise sum"), info());
                        }
                    }
                    if let Some(s) = chk(out, &nm, "sub", pan::catch(|| polynom::sub(&a, &b)), info) {
                        if to_refs(&s) != ctx.poly_sub(&ar, &br) {
                            out.violation(format!("{nm}: polynom::sub differs from the coefficient-wise difference"), info());
                        }
                    }
                    if !a.is_empty() && !b.is_empty() {
                        if let Some(m) = chk(out, &nm, "mul", pan::catch(|| polynom::mul(&a, &b)), info) {
                            if to_refs(&m) != ctx.poly_mul(&ar, &br) {
                                out.violation(format!("{nm}: polynom::mul differs from the schoolbook product"), info());
                            }
                        }
                    }
                    // division inside the documented preconditions
                    let b_zero = ctx.poly_is_zero(&br);
                    if !br.is_empty() && !b_zero && !ar.is_empty() && ctx.poly_degree(&br) <= ctx.poly_degree(&ar) && !(ctx.poly_is_zero(&ar) && ctx.poly_degree(&br) > 0) {
                        if let Some(q) = chk(out, &nm, "div", pan::catch(|| polynom::div(&a, &b)), info) {
                            let (qr, rr) = ctx.poly_divrem(&ar, &br);
                            let q = to_refs(&q);
                            // q*b + r = a with deg r < deg b
                            let back = ctx.poly_add(&ctx.poly_mul(&q, &br), &rr);
                            if !ctx.poly_eq(&q, &qr) || !ctx.poly_eq(&back, &ar) {
                                out.violation(format!("{nm}: polynom::div violates quotient*divisor + remainder = dividend"), info());
                            }
                        }
                    }
                }
                out.evals(npoly as u64 - 1);
                out.nontrivial_n(npoly as u64);
            },
            move |idx| json!({"a": pj(&poly_by_index(idx as usize, &al2), E::DEG), "b": "each of the 781 polynomials"}),
        ));
    }

    // ---- every polynomial: unary operations, evaluation, synthetic division, roots
    {
        let (al, nm) = (alpha.clone(), name.clone());
        let al2 = alpha.clone();
        subs.push(sub_t(
            &format!("{name}.poly.singles"),
            npoly as u64,
            120,
            true,
            move |idx, out| {
                let pr = poly_by_index(idx as usize, &al);
                let p: Vec<E> = from_refs(&pr);
                let info = || json!({"p": pj(&pr, E::DEG)});
                out.nontrivial();
                if polynom::degree_of(&p) != ctx.poly_degree(&pr) {
                    out.violation(format!("{nm}: degree_of is wrong"), info());
                }
                if to_refs(&polynom::remove_leading_zeros(&p)) != ctx.poly_trim(&pr) {
                    out.violation(format!("{nm}: remove_leading_zeros is wrong"), info());
                }
                for k in al.iter() {
                    let s = polynom::mul_by_scalar(&p, E::from_ref(k));
                    let want: Vec<El> = pr.iter().map(|c| ctx.mul(c, k)).collect();
                    if to_refs(&s) != want {
                        out.violation(format!("{nm}: mul_by_scalar is wrong"), info());
                    }
                    // evaluation (Horner) at every alphabet point
                    let x = E::from_ref(k);
                    if polynom::eval(&p, x).to_ref() != ctx.poly_eval(&pr, k) {
                        out.violation(format!("{nm}: polynom::eval differs from the reference evaluation"), json!({"p": pj(&pr, E::DEG), "x": elj(k, E::DEG)}));
                    }
                }
                let xs: Vec<E> = from_refs(&al);
                let many = polynom::eval_many(&p, &xs);
                for (i, k) in al.iter().enumerate() {
                    if many[i].to_ref() != ctx.poly_eval(&pr, k) {
                        out.violation(format!("{nm}: polynom::eval_many differs from the reference evaluation"), info());
                    }
                }
                // synthetic division by x^a - b
                for a in 1..=4usize {
                    if pr.len() <= a {
                        continue;
                    }
                    for b in al.iter().skip(1) {
                        let mut div = vec![Ctx::ZERO; a + 1];
                        div[0] = ctx.neg(b);
                        div[a] = Ctx::ONE;
                        let sinfo = || json!({"p": pj(&pr, E::DEG), "a": a, "b": elj(b, E::DEG)});
                        if let Some(q) = chk(out, &nm, "syn_div", pan::catch(|| polynom::syn_div(&p, a, E::from_ref(b))), sinfo) {
                            let (qr, _) = ctx.poly_divrem(&pr, &div);
                            if q.len() != p.len() || !ctx.poly_eq(&to_refs(&q), &qr) {
                                out.violation(format!("{nm}: syn_div differs from long division by x^a - b"), sinfo());
                            }
                            // in-place variant and a second division of the quotient
                            let mut ip = p.clone();
                            polynom::syn_div_in_place(&mut ip, a, E::from_ref(b));
                            if ip != q {
                                out.violation(format!("{nm}: syn_div_in_place differs from syn_div"), sinfo());
                            }
                            if q.len() > a {
                                let q2 = polynom::syn_div(&q, a, E::from_ref(b));
                                let (q2r, _) = ctx.poly_divrem(&qr, &div);
                                if !ctx.poly_eq(&to_refs(&q2), &q2r) {
                                    out.violation(format!("{nm}: repeated syn_div differs from repeated long division"), sinfo());
                                }
                            }
                        }
                    }
                }
                // division by a list of roots, and expansion from roots
                let roots_alpha: Vec<El> = al.iter().skip(1).cloned().collect();
                let nr = roots_alpha.len();
                for len in 1..=3usize {
                    for code in 0..nr.pow(len as u32) {
                        let mut c = code;
                        let roots: Vec<El> = (0..len)
                            .map(|_| {
                                let r = roots_alpha[c % nr];
                                c /= nr;
                                r
                            })
                            .collect();
                        let mut prod = vec![Ctx::ONE];
                        for r in roots.iter() {
                            prod = ctx.poly_mul(&prod, &[ctx.neg(r), Ctx::ONE]);
                        }
                        let rinfo = || json!({"p": pj(&pr, E::DEG), "roots": pj(&roots, E::DEG)});
                        if idx == 0 {
                            // (once) expansion from roots
                            let e = polynom::poly_from_roots(&from_refs::<E>(&roots));
                            if to_refs(&e) != prod {
                                out.violation(format!("{nm}: poly_from_roots differs from the product of linear factors"), rinfo());
                            }
                        }
                        if pr.len() > len {
                            let mut ip = p.clone();
                            if chk(out, &nm, "syn_div_roots_in_place", pan::catch(|| polynom::syn_div_roots_in_place(&mut ip, &from_refs::<E>(&roots))), rinfo).is_some() {
                                let (qr, _) = ctx.poly_divrem(&pr, &prod);
                                if !ctx.poly_eq(&to_refs(&ip), &qr) {
                                    out.violation(format!("{nm}: syn_div_roots_in_place differs from long division by the product of the linear factors"), rinfo());
                                }
                            }
                        }
                    }
                }
            },
            move |idx| json!({"p": pj(&poly_by_index(idx as usize, &al2), E::DEG), "ops": "degree trim scalar eval syn_div roots"}),
        ));
    }

    // ---- interpolation on every point set of size 1..=5 from a 7-point alphabet
    {
        let nm = name.clone();
        let mut rng = Rng::labelled(seed, &format!("c20-pts-{}", E::tname()));
        let p = ctx.p;
        let mut pts: Vec<El> = vec![Ctx::ZERO, Ctx::ONE, [p - 1, 0, 0], [2, 0, 0], rand_el(&mut rng, &ctx), rand_el(&mut rng, &ctx), [(p - 1) / 2, 0, 0]];
        if E::DEG > 1 {
            pts[3][1] = 1;
        }
        let pts = Arc::new(pts);
        let masks: Vec<u32> = (1u32..128).filter(|m| m.count_ones() <= 5).collect();
        let masks = Arc::new(masks);
        let (m2, p2) = (masks.clone(), pts.clone());
        subs.push(sub_t(
            &format!("{name}.interpolate"),
            masks.len() as u64,
            60,
            true,
            move |idx, out| {
                let m = masks[idx as usize];
                let xs: Vec<El> = (0..7).filter(|b| m >> b & 1 == 1).map(|b| pts[b]).collect();
                let n = xs.len();
                out.nontrivial();
                let mut rng = Rng::labelled(seed, &format!("ys-{idx}"));
                for variant in 0..3 {
                    let ys: Vec<El> = match variant {
                        0 => (0..n).map(|_| rand_el(&mut rng, &ctx)).collect(),
                        1 => xs.iter().map(|x| ctx.mul(x, x)).collect(), // y = x^2: leading zeros when n > 3
                        _ => vec![Ctx::ZERO; n],
                    };
                    let info = || json!({"xs": pj(&xs, E::DEG), "ys": pj(&ys, E::DEG)});
                    let want = ctx.poly_interpolate(&xs, &ys);
                    let (xe, ye): (Vec<E>, Vec<E>) = (from_refs(&xs), from_refs(&ys));
                    for trim in [false, true] {
                        if let Some(got) = chk(out, &nm, "interpolate", pan::catch(|| polynom::interpolate(&xe, &ye, trim)), info) {
                            let g = to_refs(&got);
                            let shape_ok = if trim { g == ctx.poly_trim(&want) } else { g == want };
                            if !shape_ok {
                                out.violation(format!("{nm}: interpolate differs from Lagrange interpolation"), json!({"case": info(), "remove_leading_zeros": trim}));
                            }
                            // interpolation inverts evaluation
                            for (x, y) in xs.iter().zip(ys.iter()) {
                                if ctx.poly_eval(&g, x) != *y {
                                    out.violation(format!("{nm}: the interpolated polynomial does not pass through the given points"), info());
                                    break;
                                }
                            }
                        }
                    }
                    // batched interpolation on point sets of size 4
                    if n == 4 {
                        let xb: Vec<[E; 4]> = vec![xe.clone().try_into().unwrap(), xe.clone().try_into().unwrap()];
                        let mut y2 = ye.clone();
                        y2.reverse();
                        let yb: Vec<[E; 4]> = vec![ye.clone().try_into().unwrap(), y2.clone().try_into().unwrap()];
                        if let Some(got) = chk(out, &nm, "interpolate_batch", pan::catch(|| polynom::interpolate_batch(&xb, &yb)), info) {
                            let w2 = ctx.poly_interpolate(&xs, &to_refs(&y2));
                            if to_refs(&got[0]) != want || to_refs(&got[1]) != w2 {
                                out.violation(format!("{nm}: interpolate_batch differs from Lagrange interpolation"), info());
                            }
                        }
                    }
                }
            },
            move |idx| json!({"points": pj(&(0..7).filter(|b| m2[idx as usize] >> b & 1 == 1).map(|b| p2[b]).collect::<Vec<_>>(), E::DEG)}),
        ));
    }

    // ---- batch inversion: all short vectors, and long vectors with a zero at every position
    {
        let nm = name.clone();
        let mut rng = Rng::labelled(seed, &format!("c20-inv-{}", E::tname()));
        let vals: Arc<Vec<El>> = Arc::new(vec![Ctx::ZERO, Ctx::ONE, [ctx.p - 1, 0, 0], rand_el(&mut rng, &ctx)]);
        let short: u64 = (0..=6u32).map(|l| 4u64.pow(l)).sum();
        let longs: Vec<usize> = vec![1023, 1024, 1025, 2048];
        let long_cases: u64 = longs.iter().map(|l| *l as u64 + 1).sum();
        let v2 = vals.clone();
        subs.push(sub_t(
            &format!("{name}.batch_inversion"),
            short + long_cases,
            60,
            true,
            move |idx, out| {
                let vr: Vec<El> = if idx < short {
                    poly_by_index(idx as usize, &vals).into_iter().collect()
                } else {
                    // long vector of non-zero values with one zero (or none) at position k
                    let mut k = idx - short;
                    let mut len = 0;
                    for l in longs.iter() {
                        if k <= *l as u64 {
                            len = *l;
                            break;
                        }
                        k -= *l as u64 + 1;
                    }
                    (0..len).map(|i| if i as u64 == k { Ctx::ZERO } else { [(i as u128 * 7 + 3) % ctx.p, (i % 3) as u128 * (E::DEG > 1) as u128, 0] }).collect()
                };
                let v: Vec<E> = from_refs(&vr);
                out.nontrivial();
                let info = || json!({"len": vr.len(), "zeros_at": vr.iter().enumerate().filter(|(_, x)| ctx.is_zero(x)).map(|(i, _)| i).collect::<Vec<_>>()});
                if let Some(inv) = chk(out, &nm, "batch_inversion", pan::catch(|| math::batch_inversion(&v)), info) {
                    let mut ok = inv.len() == v.len();
                    if ok {
                        for (x, y) in vr.iter().zip(inv.iter()) {
                            let y = y.to_ref();
                            if ctx.is_zero(x) {
                                ok &= ctx.is_zero(&y);
                            } else {
                                ok &= ctx.mul(x, &y) == Ctx::ONE;
                            }
                        }
                    }
                    if !ok {
                        out.violation(format!("{nm}: batch_inversion: x * inv(x) != 1 for a non-zero x, or a zero is not preserved"), info());
                    }
                }
            },
            move |idx| json!({"case": idx, "values": pj(&v2, E::DEG)}),
        ));
    }

    // ---- power series, add_in_place, mul_acc
    {
        let nm = name.clone();
        let al = alpha.clone();
        let lens: Vec<usize> = vec![0, 1, 2, 1023, 1024, 1025, 2049];
        let l2 = lens.clone();
        subs.push(sub_t(
            &format!("{name}.series_and_accumulate"),
            (lens.len() * al.len()) as u64,
            60,
            true,
            move |idx, out| {
                let n = lens[idx as usize / al.len()];
                let b = al[idx as usize % al.len()];
                let s = al[(idx as usize + 3) % al.len()];
                out.nontrivial();
                let info = || json!({"n": n, "base": elj(&b, E::DEG), "offset": elj(&s, E::DEG)});
                let mut want = Vec::with_capacity(n);
                let mut x = Ctx::ONE;
                for _ in 0..n {
                    want.push(x);
                    x = ctx.mul(&x, &b);
                }
                if let Some(g) = chk(out, &nm, "get_power_series", pan::catch(|| math::get_power_series(E::from_ref(&b), n)), info) {
                    if to_refs(&g) != want {
                        out.violation(format!("{nm}: get_power_series differs from successive powers"), info());
                    }
                }
                if let Some(g) = chk(out, &nm, "get_power_series_with_offset", pan::catch(|| math::get_power_series_with_offset(E::from_ref(&b), E::from_ref(&s), n)), info) {
                    let w: Vec<El> = want.iter().map(|x| ctx.mul(x, &s)).collect();
                    if to_refs(&g) != w {
                        out.violation(format!("{nm}: get_power_series_with_offset differs from offset * successive powers"), info());
                    }
                }
                // accumulate: a[i] += b[i];  a[i] += c * f[i] with f in the base field
                let ar: Vec<El> = (0..n).map(|i| ctx.mul(&want[i], &s)).collect();
                let mut a: Vec<E> = from_refs(&ar);
                let bv: Vec<E> = from_refs(&want);
                math::add_in_place(&mut a, &bv);
                let w: Vec<El> = ar.iter().zip(want.iter()).map(|(x, y)| ctx.add(x, y)).collect();
                if to_refs(&a) != w {
                    out.violation(format!("{nm}: add_in_place differs from the element-wise sum"), info());
                }
                let f: Vec<E::BaseField> = (0..n).map(|i| <E::BaseField as Fld>::mk(i as u128 * 3 + 1)).collect();
                let mut a: Vec<E> = from_refs(&ar);
                math::mul_acc(&mut a, &f, E::from_ref(&s));
                let w: Vec<El> = (0..n).map(|i| ctx.add(&ar[i], &ctx.mul_base(&s, (i as u128 * 3 + 1) % ctx.p))).collect();
                if to_refs(&a) != w {
                    out.violation(format!("{nm}: mul_acc differs from a[i] + b[i]*c"), info());
                }
            },
            move |idx| json!({"n": l2[idx as usize / 5], "base_index": idx % 5}),
        ));
    }
    subs
}
