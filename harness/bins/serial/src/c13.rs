//! C13 — streaming reader (ReadAdapter) ≡ in-memory reader (SliceReader), explicit-state search
//! over operation histories.
//!
//! State      = (stream id, chunking id, operation history); the real adapter is rebuilt by
//!              re-execution for every transition (it borrows its source and cannot be copied).
//! Key        = (stream, chunking, bytes handed out by the source, number of source calls that
//!              returned 0, adapter internals through the verif hook: buf.len, pos, capacity, bytes
//!              buffered in the BufReader, guaranteed_eof, and the reference position). Two histories
//!              with equal keys have identical adapter internals, identical source state and identical
//!              remaining input, hence identical futures: merging them is sound (over-fine, not coarse).
//! Oracle     = SliceReader over the same bytes driven by the same history.
use std::io::Read;
use std::sync::Arc;

use kit::engine::bfs;
use kit::{json, pan, CaseOut, Run, Value};
use utils::{ByteReader, DeserializationError, ReadAdapter, SliceReader};

#[derive(Clone, Copy, Debug, PartialEq, Eq, Hash)]
pub enum Op {
    ReadU8,
    PeekU8,
    ReadBool,
    ReadU16,
    ReadU32,
    ReadU64,
    ReadU128,
    ReadUsize,
    HasMore,
    Slice(u32),
    Vec(u32),
    Str(u32),
    Eor(u32),
    Arr(u16),
    ManyU16(u32),
}

/// Size arguments are 32-bit in the operation alphabet; the three largest codes stand for sizes no input can
/// satisfy and that overflow `position + size`: 2^64 - 1, 2^64 - 8 and 2^63 (a length prefix is a `usize` read
/// from the untrusted stream itself, so a reader meets them).
pub const HUGE: [u32; 3] = [u32::MAX, u32::MAX - 1, u32::MAX - 2];
pub fn sz(n: u32) -> usize {
    match n {
        u32::MAX => usize::MAX,
        0xffff_fffe => usize::MAX - 7,
        0xffff_fffd => 1usize << 63,
        _ => n as usize,
    }
}

/// size arguments relative to the remaining input are resolved against the reference position
#[derive(Clone, Copy, Debug, PartialEq, Eq, Hash)]
pub enum Arg {
    Abs(u32),
    RemMinus1,
    Rem,
    RemPlus1,
}

#[derive(Clone, Debug, PartialEq, Eq)]
enum Val {
    U(u128),
    B(bool),
    Bytes(Vec<u8>),
    S(String),
    Many(Vec<u16>),
    Unit,
}

type R = Result<Val, DeserializationError>;

pub const ARRAY_SIZES: [u16; 10] = [0, 1, 2, 3, 8, 16, 17, 32, 255, 257];

fn arr<Rd: ByteReader, const N: usize>(r: &mut Rd) -> R {
    r.read_array::<N>().map(|a| Val::Bytes(a.to_vec()))
}

fn apply<Rd: ByteReader>(r: &mut Rd, op: Op) -> R {
    match op {
        Op::ReadU8 => r.read_u8().map(|v| Val::U(v as u128)),
        Op::PeekU8 => r.peek_u8().map(|v| Val::U(v as u128)),
        Op::ReadBool => r.read_bool().map(Val::B),
        Op::ReadU16 => r.read_u16().map(|v| Val::U(v as u128)),
        Op::ReadU32 => r.read_u32().map(|v| Val::U(v as u128)),
        Op::ReadU64 => r.read_u64().map(|v| Val::U(v as u128)),
        Op::ReadU128 => r.read_u128().map(Val::U),
        Op::ReadUsize => r.read_usize().map(|v| Val::U(v as u128)),
        Op::HasMore => Ok(Val::B(r.has_more_bytes())),
        Op::Slice(n) => r.read_slice(sz(n)).map(|s| Val::Bytes(s.to_vec())),
        Op::Vec(n) => r.read_vec(sz(n)).map(Val::Bytes),
        Op::Str(n) => r.read_string(sz(n)).map(Val::S),
        Op::Eor(n) => r.check_eor(sz(n)).map(|_| Val::Unit),
        Op::ManyU16(k) => r.read_many::<u16>(k as usize).map(Val::Many),
        Op::Arr(n) => match n {
            0 => arr::<Rd, 0>(r),
            1 => arr::<Rd, 1>(r),
            2 => arr::<Rd, 2>(r),
            3 => arr::<Rd, 3>(r),
            8 => arr::<Rd, 8>(r),
            16 => arr::<Rd, 16>(r),
            17 => arr::<Rd, 17>(r),
            32 => arr::<Rd, 32>(r),
            255 => arr::<Rd, 255>(r),
            257 => arr::<Rd, 257>(r),
            _ => unreachable!(),
        },
    }
}

/// how many bytes an operation consumes in the reference when it succeeds (to track the position)
fn ref_consumed(before: &SliceReader, _op: Op) -> usize {
    let _ = before;
    0
}

// ------------------------------------------------------------------------------------------------
// streams and chunkings
// ------------------------------------------------------------------------------------------------

pub const STREAM_LENS: [usize; 14] = [0, 1, 2, 3, 8, 9, 17, 40, 255, 256, 257, 300, 513, 700];

pub fn stream(id: usize) -> Vec<u8> {
    let len = STREAM_LENS[id % STREAM_LENS.len()];
    let variant = id / STREAM_LENS.len();
    let mut v: Vec<u8> = (0..len).map(|i| ((i * 37 + 11 + (i / 256) * 101) % 256) as u8).collect();
    match variant {
        0 => {},
        // prefixes that decode as a 1-, 2- and 9-byte size, booleans and non-booleans, ASCII for strings
        1 => {
            let pre: [u8; 16] = [0x01, 0x00, b'a', b'b', 0x02, 0x07, 0x00, 1, 2, 3, 4, 5, 6, 7, 8, 0x80];
            for (i, b) in pre.iter().enumerate() {
                if i < v.len() {
                    v[i] = *b;
                }
            }
        },
        _ => {
            for (i, b) in v.iter_mut().enumerate() {
                *b = b'a' + (i % 23) as u8; // all ASCII: read_string succeeds everywhere
            }
        },
    }
    v
}

/// chunking id -> size of the k-th chunk the source is willing to return
#[derive(Clone, Copy, Debug)]
pub enum Chunking {
    Whole,
    Fixed(usize),
    ShortFirst,
    Alternating,
    /// the first read returns 0 bytes although the stream is not at its end (an empty read before EOF)
    EmptyFirst,
    /// every second read returns 0 bytes, the others `k`
    EmptyEveryOther(usize),
    /// one empty read when the source is at byte `p`, whole chunks otherwise
    EmptyAt(usize),
}

pub const CHUNKINGS: [Chunking; 14] = [
    Chunking::Whole,
    Chunking::Fixed(1),
    Chunking::Fixed(2),
    Chunking::Fixed(3),
    Chunking::Fixed(7),
    Chunking::Fixed(16),
    Chunking::Fixed(255),
    Chunking::ShortFirst,
    Chunking::Alternating,
    Chunking::Fixed(100),
    Chunking::EmptyFirst,
    Chunking::EmptyEveryOther(3),
    Chunking::EmptyAt(4),
    Chunking::EmptyAt(256),
];

pub struct Source<'a> {
    data: &'a [u8],
    pos: usize,
    calls: usize,
    eof_returns: usize,
    /// empty reads handed out before the true end of the stream
    stalls: usize,
    chunking: Chunking,
}

impl<'a> Read for Source<'a> {
    fn read(&mut self, buf: &mut [u8]) -> std::io::Result<usize> {
        let want = match self.chunking {
            Chunking::Whole => usize::MAX,
            Chunking::Fixed(k) => k,
            Chunking::ShortFirst => {
                if self.calls == 0 {
                    1
                } else {
                    usize::MAX
                }
            },
            Chunking::Alternating => {
                if self.calls % 2 == 0 {
                    1
                } else {
                    5
                }
            },
            Chunking::EmptyFirst => {
                if self.calls == 0 {
                    0
                } else {
                    usize::MAX
                }
            },
            Chunking::EmptyEveryOther(k) => {
                if self.calls % 2 == 1 {
                    0
                } else {
                    k
                }
            },
            Chunking::EmptyAt(p) => {
                if self.pos == p && self.stalls == 0 {
                    0
                } else {
                    usize::MAX
                }
            },
        };
        if want == 0 && self.pos < self.data.len() && !buf.is_empty() {
            self.stalls += 1;
        }
        self.calls += 1;
        let n = want.min(buf.len()).min(self.data.len() - self.pos);
        buf[..n].copy_from_slice(&self.data[self.pos..self.pos + n]);
        self.pos += n;
        if n == 0 && !buf.is_empty() {
            self.eof_returns += 1;
        }
        Ok(n)
    }
}

// ------------------------------------------------------------------------------------------------
// state, step
// ------------------------------------------------------------------------------------------------

#[derive(Clone, Debug)]
pub struct St {
    stream: u8,
    chunk: u8,
    hist: Vec<Op>,
    key: Key,
    /// the history already produced an error (in both readers): kept as a terminal state
    dead: bool,
}

type Key = (u8, u8, usize, usize, (usize, usize, usize, usize, bool), usize, bool, usize);

fn opj(op: &Op) -> Value {
    json!(format!("{:?}", op))
}

struct Outcome {
    key: Key,
    dead: bool,
    /// (op index in history, description) of the first disagreement
    mismatch: Option<(String, Value)>,
    /// the adapter reported the end of the data early after the source had returned an empty read
    early: bool,
}

/// Rebuild both readers, run the history, compare every step.
fn execute(stream_id: u8, chunk_id: u8, hist: &[Op]) -> Outcome {
    let data = stream(stream_id as usize);
    let mut src = Source { data: &data, pos: 0, calls: 0, eof_returns: 0, stalls: 0, chunking: CHUNKINGS[chunk_id as usize] };
    let src_ptr: *const Source = &src;
    let mut mismatch = None;
    let mut dead = false;
    let mut errors = 0usize;
    let mut early = false;
    let mut ref_pos = 0usize;
    let vs;
    {
        let mut ad = ReadAdapter::new(&mut src);
        let mut rf = SliceReader::new(&data);
        for (i, op) in hist.iter().enumerate() {
            let want = apply(&mut rf, *op);
            let got = pan::catch(|| apply(&mut ad, *op));
            // SAFETY: read-only peek at counters of the source that the adapter borrows mutably; the
            // adapter is not executing at this point.
            let eof_seen = unsafe { (*src_ptr).eof_returns > (*src_ptr).stalls }; // an empty read before the end is a stall, not the end
            match got {
                Err(p) => {
                    mismatch = Some((format!("panic in ReadAdapter::{}: {}", opname(op), p.class()), json!({"step": i, "op": opj(op), "panic": p.msg})));
                    dead = true;
                    break;
                },
                Ok(got) => {
                    // A source that returned an empty read before the end of the stream has told the adapter
                    // (as `std::io::Read` defines it) that the stream is over: from then on an early end-of-data
                    // answer is legitimate - but never a wrong value, a success the in-memory reader does not
                    // have, or a panic. Such histories are not extended.
                    let stalled = unsafe { (*src_ptr).stalls > 0 };
                    let early_end = stalled
                        && match (&want, &got) {
                            (_, Err(e)) if want != got => format!("{:?}", e).contains("UnexpectedEOF"),
                            (Ok(Val::B(true)), Ok(Val::B(false))) => matches!(op, Op::HasMore),
                            _ => false,
                        };
                    if early_end {
                        early = true;
                        dead = true;
                        break;
                    }
                    let ok = match (op, &want, &got) {
                        // look-ahead may be optimistic until the end of the stream has been observed
                        (Op::Eor(_), Err(_), Ok(_)) => !eof_seen,
                        _ => want == got,
                    };
                    if !ok {
                        let kind = match (&want, &got) {
                            (Ok(_), Ok(_)) => "returns a different value than the in-memory reader",
                            (Ok(_), Err(_)) => "fails where the in-memory reader succeeds",
                            (Err(_), Ok(_)) => "succeeds where the in-memory reader fails",
                            (Err(_), Err(_)) => "fails with a different error than the in-memory reader",
                        };
                        mismatch = Some((
                            format!("ReadAdapter::{} {}", opname(op), kind),
                            json!({"step": i, "op": opj(op), "slice_reader": format!("{:?}", trunc(&want)), "read_adapter": format!("{:?}", trunc(&got))}),
                        ));
                        dead = true;
                        break;
                    }
                    // a failed operation consumes nothing the in-memory reader does not consume (both report the
                    // failure before or after the same successful partial reads), so the history goes on: what is
                    // available afterwards must still be reported and returned
                    if want.is_err() {
                        errors += 1;
                        // composite operations (a prefix or several items are consumed before the failure, or the
                        // in-memory reader refuses an over-long request up front) leave the position unspecified
                        let atomic = matches!(op, Op::ReadU8 | Op::PeekU8 | Op::ReadU16 | Op::ReadU32 | Op::ReadU64 | Op::ReadU128 | Op::Slice(_) | Op::Vec(_) | Op::Arr(_) | Op::Eor(_) | Op::HasMore);
                        // read_many consumes item by item in both readers alike (no up-front refusal in this version of the
                        // library), so the position behind its failure is defined as well - unless the source has stalled:
                        // then the adapter may have given up before the items the in-memory reader still consumed
                        let itemwise = matches!(op, Op::ManyU16(_)) && !stalled;
                        if !(atomic || itemwise) {
                            dead = true;
                            break;
                        }
                    }
                },
            }
        }
        // reference position = bytes consumed by the slice reader
        while rf.has_more_bytes() {
            // count remaining without consuming: SliceReader has no accessor, so measure via check_eor
            break;
        }
        let mut lo = 0usize;
        let mut hi = data.len();
        while lo < hi {
            let mid = (lo + hi + 1) / 2;
            if rf.check_eor(mid).is_ok() {
                lo = mid;
            } else {
                hi = mid - 1;
            }
        }
        ref_pos = data.len() - lo;
        vs = ad.verif_state();
    }
    let key = (stream_id, chunk_id, src.pos, src.eof_returns.min(2), vs, ref_pos, dead, errors.min(1));
    let _ = ref_consumed;
    Outcome { key, dead, mismatch, early }
}

fn trunc(r: &R) -> R {
    match r {
        Ok(Val::Bytes(b)) if b.len() > 12 => Ok(Val::Bytes(b[..12].to_vec())),
        o => o.clone(),
    }
}

fn opname(op: &Op) -> &'static str {
    match op {
        Op::ReadU8 => "read_u8",
        Op::PeekU8 => "peek_u8",
        Op::ReadBool => "read_bool",
        Op::ReadU16 => "read_u16",
        Op::ReadU32 => "read_u32",
        Op::ReadU64 => "read_u64",
        Op::ReadU128 => "read_u128",
        Op::ReadUsize => "read_usize",
        Op::HasMore => "has_more_bytes",
        Op::Slice(_) => "read_slice",
        Op::Vec(_) => "read_vec",
        Op::Str(_) => "read_string",
        Op::Eor(_) => "check_eor",
        Op::Arr(_) => "read_array",
        Op::ManyU16(_) => "read_many",
    }
}

fn alphabet(remaining: usize, thorough: bool) -> Vec<Op> {
    let mut ops = vec![Op::ReadU8, Op::PeekU8, Op::ReadBool, Op::ReadU16, Op::ReadU32, Op::ReadU64, Op::ReadU128, Op::ReadUsize, Op::HasMore];
    let mut sizes: Vec<u32> = vec![0, 1, 2, 15, 16, 17, 255, 256, 257, 300];
    for d in [-1i64, 0, 1] {
        let v = remaining as i64 + d;
        if v >= 0 {
            sizes.push(v as u32);
        }
    }
    sizes.sort();
    sizes.dedup();
    sizes.extend(HUGE);
    for n in sizes.iter() {
        ops.push(Op::Slice(*n));
        ops.push(Op::Eor(*n));
        if thorough || HUGE.contains(n) || [0u32, 1, 17, 256, 300].contains(n) || *n as i64 >= remaining as i64 - 1 {
            ops.push(Op::Vec(*n));
            ops.push(Op::Str(*n));
        }
    }
    for n in ARRAY_SIZES {
        ops.push(Op::Arr(n));
    }
    for k in [0u32, 1, 2, 150] {
        ops.push(Op::ManyU16(k));
    }
    ops
}

fn op_code(op: &Op) -> Value {
    let (t, a): (u8, u32) = match *op {
        Op::ReadU8 => (0, 0),
        Op::PeekU8 => (1, 0),
        Op::ReadBool => (2, 0),
        Op::ReadU16 => (3, 0),
        Op::ReadU32 => (4, 0),
        Op::ReadU64 => (5, 0),
        Op::ReadU128 => (6, 0),
        Op::ReadUsize => (7, 0),
        Op::HasMore => (8, 0),
        Op::Slice(n) => (9, n),
        Op::Vec(n) => (10, n),
        Op::Str(n) => (11, n),
        Op::Eor(n) => (12, n),
        Op::Arr(n) => (13, n as u32),
        Op::ManyU16(n) => (14, n),
    };
    json!([t, a])
}

fn op_decode(v: &Value) -> Option<Op> {
    let (t, a) = (v[0].as_u64()?, v[1].as_u64()? as u32);
    Some(match t {
        0 => Op::ReadU8,
        1 => Op::PeekU8,
        2 => Op::ReadBool,
        3 => Op::ReadU16,
        4 => Op::ReadU32,
        5 => Op::ReadU64,
        6 => Op::ReadU128,
        7 => Op::ReadUsize,
        8 => Op::HasMore,
        9 => Op::Slice(a),
        10 => Op::Vec(a),
        11 => Op::Str(a),
        12 => Op::Eor(a),
        13 => Op::Arr(a as u16),
        14 => Op::ManyU16(a),
        _ => return None,
    })
}

pub fn run(run: &Arc<Run>) {
    let tier = run.tier();
    let nstreams = tier.pick(STREAM_LENS.len() * 2, STREAM_LENS.len() * 3);
    let mut init = vec![];
    for s in 0..nstreams {
        for c in 0..CHUNKINGS.len() {
            let o = execute(s as u8, c as u8, &[]);
            init.push(St { stream: s as u8, chunk: c as u8, hist: vec![], key: o.key, dead: false });
        }
    }
    let thorough = tier.is_thorough();
    let depth = tier.pick(3, 5);
    let stats = kit::engine::bfs_r(
        run,
        "read_adapter",
        init,
        depth,
        tier.pick(3_000_000, 40_000_000),
        10,
        move |s: &St, expand: bool, out: &mut CaseOut| {
            if s.dead || !expand {
                return vec![];
            }
            let data_len = STREAM_LENS[s.stream as usize % STREAM_LENS.len()];
            let remaining = data_len - s.key.5;
            let mut succ = vec![];
            let ops = alphabet(remaining, thorough);
            for op in ops {
                let mut h = s.hist.clone();
                h.push(op);
                let o = execute(s.stream, s.chunk, &h);
                out.evals(1);
                out.traces(1);
                if let Some((sig, mut detail)) = o.mismatch {
                    detail["stream_len"] = json!(data_len);
                    detail["chunking"] = json!(format!("{:?}", CHUNKINGS[s.chunk as usize]));
                    detail["stream_variant"] = json!(s.stream as usize / STREAM_LENS.len());
                    detail["history"] = json!(h.iter().map(|o| format!("{:?}", o)).collect::<Vec<_>>());
                    out.violation(sig, detail);
                    out.class("mismatch");
                    continue;
                }
                out.nontrivial();
                out.class(if o.early { "end of data reported early after the source returned an empty read (allowed; no wrong value, no panic)" } else if o.dead { "history ends in an error of a composite operation agreed by both readers" } else if o.key.7 > 0 { "step agreed after an error agreed by both readers" } else { "step agreed" });
                succ.push(St { stream: s.stream, chunk: s.chunk, hist: h, key: o.key, dead: o.dead });
            }
            succ
        },
        |s: &St| s.key,
        |s: &St| json!({"stream_len": STREAM_LENS[s.stream as usize % STREAM_LENS.len()], "stream_variant": s.stream as usize / STREAM_LENS.len(), "chunking": format!("{:?}", CHUNKINGS[s.chunk as usize]), "history": s.hist.iter().map(|o| format!("{:?}", o)).collect::<Vec<_>>(), "replay": {"stream": s.stream, "chunk": s.chunk, "hist": s.hist.iter().map(op_code).collect::<Vec<_>>()}}),
        |v: &Value| {
            let r = &v["replay"];
            let (stream, chunk) = (r["stream"].as_u64()? as u8, r["chunk"].as_u64()? as u8);
            let hist: Vec<Op> = r["hist"].as_array()?.iter().map(op_decode).collect::<Option<Vec<_>>>()?;
            let o = execute(stream, chunk, &hist);
            Some(St { stream, chunk, hist, key: o.key, dead: false })
        },
    );
    run.require(stats.states > 1000, "C13: state space suspiciously small");
}
