//! C12 — serialization round trip for every serializable value, over every reader implementation.
//!
//! For each value x of each type: for reader in {SliceReader, Cursor, ReadAdapter over the whole
//! stream, ReadAdapter over 1-byte chunks, ReadAdapter over 7-byte chunks}:
//!   T::read_from(reader(x.to_bytes() ++ sentinel)) == x  and the next byte read is the sentinel
//!   (exactly the written bytes were consumed) and the reader over x.to_bytes() alone is exhausted.
//! "Everything the constructor accepts decodes" is the same loop driven from constructor arguments.
use std::collections::{BTreeMap, BTreeSet};
use std::io::{Cursor, Read};
use std::sync::Arc;

use air::proof::{Commitments, Context, OodFrame, Queries, TraceOodFrame};
use air::{FieldExtension, LagrangeKernelEvaluationFrame, ProofOptions, TraceInfo};
use crypto::{hashers, ElementHasher, Hasher, MerkleTree};
use fri::{DefaultProverChannel, FriOptions, FriProof, FriProver};
use kit::engine::{sub, sub_t};
use kit::rng::Rng;
use kit::{json, pan, CaseOut, Run, Sub, Value};
use math::fields::{f128, f62, f64 as g64, CubeExtension, QuadExtension};
use math::{FieldElement, StarkField};
use utils::{ByteReader, Deserializable, ReadAdapter, Serializable, SliceReader};

struct Chunked<'a> {
    data: &'a [u8],
    pos: usize,
    chunk: usize,
}
impl<'a> Read for Chunked<'a> {
    fn read(&mut self, buf: &mut [u8]) -> std::io::Result<usize> {
        let n = self.chunk.min(buf.len()).min(self.data.len() - self.pos);
        buf[..n].copy_from_slice(&self.data[self.pos..self.pos + n]);
        self.pos += n;
        Ok(n)
    }
}

const SENTINEL: [u8; 3] = [0xA5, 0x5A, 0xC3];

fn read_and_check<T: Deserializable + PartialEq, R: ByteReader>(r: &mut R, x: &T, sentinel: bool) -> Result<(), String> {
    let y = T::read_from(r).map_err(|e| format!("own encoding does not decode: {e}"))?;
    if y != *x {
        return Err("decoded value differs from the encoded one".into());
    }
    if sentinel {
        match r.read_u8() {
            Ok(b) if b == SENTINEL[0] => Ok(()),
            Ok(_) => Err("decoder consumed a different number of bytes than were written".into()),
            Err(_) => Err("decoder consumed more bytes than were written".into()),
        }
    } else if r.has_more_bytes() {
        Err("reader not exhausted after decoding exactly the written bytes".into())
    } else {
        Ok(())
    }
}

/// number of readers used by `roundtrip`
pub const READERS: u64 = 5;

/// Returns (reader name, reason) of the first failure.
fn roundtrip<T: Serializable + Deserializable + PartialEq>(x: &T) -> Result<(), (String, String)> {
    let bytes = match pan::catch(|| x.to_bytes()) {
        Ok(b) => b,
        Err(p) => return Err(("writer".into(), format!("to_bytes panics: {}", p.class()))),
    };
    let mut with_sent = bytes.clone();
    with_sent.extend_from_slice(&SENTINEL);
    for sentinel in [false, true] {
        let data: &[u8] = if sentinel { &with_sent } else { &bytes };
        let res: Vec<(&str, Result<Result<(), String>, pan::PanicRec>)> = vec![
            ("SliceReader", pan::catch(|| read_and_check(&mut SliceReader::new(data), x, sentinel))),
            ("Cursor", pan::catch(|| read_and_check(&mut Cursor::new(data.to_vec()), x, sentinel))),
            ("ReadAdapter(whole)", pan::catch(|| {
                let mut src = Chunked { data, pos: 0, chunk: usize::MAX };
                read_and_check(&mut ReadAdapter::new(&mut src), x, sentinel)
            })),
            ("ReadAdapter(1-byte chunks)", pan::catch(|| {
                let mut src = Chunked { data, pos: 0, chunk: 1 };
                read_and_check(&mut ReadAdapter::new(&mut src), x, sentinel)
            })),
            ("ReadAdapter(7-byte chunks)", pan::catch(|| {
                let mut src = Chunked { data, pos: 0, chunk: 7 };
                read_and_check(&mut ReadAdapter::new(&mut src), x, sentinel)
            })),
        ];
        for (name, r) in res {
            match r {
                Ok(Ok(())) => {},
                Ok(Err(why)) => return Err((name.to_string(), why)),
                Err(p) => return Err((name.to_string(), format!("panic: {}", p.class()))),
            }
        }
    }
    Ok(())
}

fn rt<T: Serializable + Deserializable + PartialEq>(out: &mut CaseOut, ty: &str, desc: impl FnOnce() -> Value, x: &T) {
    out.evals(2 * READERS - 1);
    match roundtrip(x) {
        Ok(()) => out.nontrivial(),
        Err((reader, why)) => out.violation(format!("{ty}: {why} [{}]", reader_class(&reader)), json!({"value": desc(), "reader": reader})),
    }
}

fn reader_class(r: &str) -> &str {
    if r.starts_with("ReadAdapter") {
        "ReadAdapter"
    } else {
        r
    }
}

// ------------------------------------------------------------------------------------------------

pub fn size_alphabet() -> Vec<u64> {
    let mut v: Vec<u64> = vec![0, 1, 2, 63, 64, 255, 256];
    for k in 1..=9u32 {
        let b = if 7 * k >= 64 { u64::MAX } else { 1u64 << (7 * k) };
        v.extend([b.wrapping_sub(1), b, b.wrapping_add(1)]);
    }
    v.extend([u64::MAX, u64::MAX - 1, 1 << 32, u32::MAX as u64]);
    v.sort();
    v.dedup();
    v
}

fn strings() -> Vec<String> {
    let mut v = vec![String::new(), "a".into(), "é".into(), "日本語".into(), "🦀".into(), "a\0b".into()];
    for n in [63usize, 64, 127, 128, 129, 16383, 16384, 16385] {
        v.push("x".repeat(n));
        v.push("é".repeat(n / 2));
    }
    v
}

fn generic_subs(run: &Arc<Run>) -> Vec<Arc<dyn Sub>> {
    let mut subs: Vec<Arc<dyn Sub>> = vec![];
    let _ = run;
    // ---- integers, including the variable-length size encoding
    let sizes = Arc::new(size_alphabet());
    let s2 = sizes.clone();
    subs.push(sub(
        "ints",
        sizes.len() as u64,
        move |idx, out| {
            let v = sizes[idx as usize];
            rt(out, "usize", || json!(v), &(v as usize));
            // documented vint64 length: 1 byte per 7 bits, 9 bytes from 2^56 on
            let want_len = if v >= 1 << 56 { 9 } else { ((64 - v.leading_zeros()).max(1) as usize + 6) / 7 };
            if (v as usize).to_bytes().len() != want_len {
                out.violation("usize: encoded length differs from the vint64 length", json!({"value": v, "len": (v as usize).to_bytes().len(), "want": want_len}));
            }
            rt(out, "u64", || json!(v), &v);
            rt(out, "u32", || json!(v as u32), &(v as u32));
            rt(out, "u16", || json!(v as u16), &(v as u16));
            rt(out, "u8", || json!(v as u8), &(v as u8));
            rt(out, "u128", || json!(format!("{}", (v as u128) << 64 | v as u128)), &((v as u128) << 64 | v as u128));
            rt(out, "Option<u64>", || json!(v), &Some(v));
            rt(out, "Option<usize>", || json!(v), &Some(v as usize));
            rt(out, "(u8,u16,u32,u64,u128,usize)", || json!(v), &(v as u8, v as u16, v as u32, v, v as u128, v as usize));
            rt(out, "(usize,)", || json!(v), &(v as usize,));
            rt(out, "(usize,usize)", || json!(v), &(v as usize, (v >> 1) as usize));
            rt(out, "(u8,u8,u8)", || json!(v), &(v as u8, 1u8, 2u8));
            rt(out, "(u16,u8,u8,u64)", || json!(v), &(v as u16, 1u8, 2u8, v));
            rt(out, "(u16,u8,u8,u64,u8)", || json!(v), &(v as u16, 1u8, 2u8, v, 9u8));
            rt(out, "[u64;3]", || json!(v), &[v, !v, v >> 3]);
            rt(out, "[u8;0]", || json!(v), &([] as [u8; 0]));
            rt(out, "()", || json!(null), &());
        },
        move |idx| json!({"integer": s2[idx as usize], "types": "usize u64 u32 u16 u8 u128 Option tuples arrays"}),
    ));
    // ---- strings
    let strs = Arc::new(strings());
    let st2 = strs.clone();
    subs.push(sub(
        "strings",
        strs.len() as u64,
        move |idx, out| {
            let s = strs[idx as usize].clone();
            let d = || json!({"len": s.len(), "head": s.chars().take(4).collect::<String>()});
            rt(out, "String", d, &s);
            rt(out, "Option<String>", d, &Some(s.clone()));
            rt(out, "Vec<String>", d, &vec![s.clone(), String::new(), s.clone()]);
            rt(out, "(String,u8)", d, &(s.clone(), 7u8));
            let mut m = BTreeMap::new();
            m.insert(1u16, s.clone());
            m.insert(65535u16, String::new());
            rt(out, "BTreeMap<u16,String>", d, &m);
            // str and String must encode identically
            if s.as_str().to_bytes() != s.to_bytes() {
                out.violation("str and String encode differently", d());
            }
        },
        move |idx| json!({"string_len": st2[idx as usize].len()}),
    ));
    // ---- collections
    let lens: Arc<Vec<usize>> = Arc::new(vec![0, 1, 2, 3, 127, 128, 129, 255, 256, 16383, 16384, 16385, 70000]);
    let l2 = lens.clone();
    subs.push(sub(
        "collections",
        lens.len() as u64,
        move |idx, out| {
            let n = lens[idx as usize];
            let d = || json!({"len": n});
            let v8: Vec<u8> = (0..n).map(|i| (i * 7 + 1) as u8).collect();
            let v16: Vec<u16> = (0..n).map(|i| (i * 257 + 3) as u16).collect();
            rt(out, "Vec<u8>", d, &v8);
            rt(out, "Vec<u16>", d, &v16);
            rt(out, "Vec<u64>", d, &v16.iter().map(|x| (*x as u64) << 40).collect::<Vec<u64>>());
            rt(out, "Option<Vec<u8>>", d, &Some(v8.clone()));
            rt(out, "Vec<Option<u32>>", d, &(0..n.min(2000)).map(|i| if i % 3 == 0 { None } else { Some(i as u32) }).collect::<Vec<_>>());
            rt(out, "Vec<Vec<u8>>", d, &vec![v8.clone(), vec![], v8.iter().rev().cloned().collect()]);
            rt(out, "Vec<(u8,u16)>", d, &(0..n.min(3000)).map(|i| (i as u8, i as u16)).collect::<Vec<_>>());
            rt(out, "Vec<usize>", d, &(0..n.min(3000)).map(|i| 1usize << (i % 63)).collect::<Vec<_>>());
            let set: BTreeSet<u32> = (0..n.min(20000) as u32).map(|i| i.wrapping_mul(2654435761)).collect();
            rt(out, "BTreeSet<u32>", d, &set);
            let map: BTreeMap<u16, Vec<u16>> = (0..n.min(300) as u16).map(|i| (i * 191, vec![i; (i % 5) as usize])).collect();
            rt(out, "BTreeMap<u16,Vec<u16>>", d, &map);
            let mm: BTreeMap<u8, BTreeMap<u8, String>> = (0..n.min(20) as u8).map(|i| (i, (0..i % 4).map(|j| (j, "v".repeat(j as usize))).collect())).collect();
            rt(out, "BTreeMap<u8,BTreeMap<u8,String>>", d, &mm);
            rt(out, "Vec<[u8;32]>", d, &(0..n.min(500)).map(|i| [i as u8; 32]).collect::<Vec<_>>());
        },
        move |idx| json!({"collection_len": l2[idx as usize]}),
    ));
    subs
}

// ------------------------------------------------------------------------------------------------
// field elements and digests
// ------------------------------------------------------------------------------------------------

fn field_vals<B: StarkField>(p: u128, seed: u64, make: impl Fn(u128) -> B) -> Vec<B> {
    let mut v: Vec<u128> = vec![0, 1, 2, p - 1, p - 2, (p - 1) / 2, (1 << 32) - 1, 1 << 32, (1 << 62) % p, ((1u128 << 64) - 1) % p, 255, 256];
    let mut rng = Rng::labelled(seed, "c12-field");
    for _ in 0..6 {
        v.push(rng.next_u128() % p);
    }
    v.into_iter().map(make).collect()
}

fn field_subs<B: StarkField + math::ExtensibleField<2> + math::ExtensibleField<3> + 'static>(name: &'static str, vals: Vec<B>, cubic: bool) -> Vec<Arc<dyn Sub>> {
    let vals = Arc::new(vals);
    let n = vals.len() as u64;
    let (v1, v2) = (vals.clone(), vals.clone());
    vec![sub(
        &format!("field.{name}"),
        n * n,
        move |idx, out| {
            let (a, b) = (v1[(idx / n) as usize], v1[(idx % n) as usize]);
            let d = || json!({"a": a.to_string(), "b": b.to_string()});
            rt(out, &format!("{name} element"), d, &a);
            rt(out, &format!("{name} quadratic element"), d, &QuadExtension::<B>::new(a, b));
            rt(out, &format!("Vec<{name} quadratic>"), d, &vec![QuadExtension::<B>::new(a, b), QuadExtension::<B>::new(b, a)]);
            if cubic {
                rt(out, &format!("{name} cubic element"), d, &CubeExtension::<B>::new(a, b, a + b));
                rt(out, &format!("Option<{name} cubic>"), d, &Some(CubeExtension::<B>::new(b, b, a)));
            }
            rt(out, &format!("[{name};4]"), d, &[a, b, a * b, a - b]);
            // a non-canonical encoding (>= modulus) must be refused, not wrapped
            let mut bytes = B::get_modulus_le_bytes();
            bytes.resize(B::ELEMENT_BYTES, 0);
            if B::read_from(&mut SliceReader::new(&bytes)).is_ok() {
                out.violation(format!("{name} element: the modulus itself decodes as an element"), json!({}));
            }
        },
        move |idx| json!({"a": v2[(idx / n) as usize].to_string(), "b": v2[(idx % n) as usize].to_string(), "types": "base, quadratic, cubic, arrays"}),
    )]
}

fn digest_sub<H: Hasher + 'static>(name: &'static str, extra: Vec<H::Digest>) -> Arc<dyn Sub>
where
    H::Digest: 'static,
{
    let mut ds: Vec<H::Digest> = vec![H::Digest::default()];
    for len in [0usize, 1, 7, 8, 31, 32, 33, 64, 200] {
        ds.push(H::hash(&vec![0xABu8; len]));
    }
    ds.push(H::merge(&[ds[1], ds[2]]));
    ds.push(H::merge_with_int(ds[1], u64::MAX));
    ds.extend(extra);
    let ds = Arc::new(ds);
    let d2 = ds.clone();
    sub(
        &format!("digest.{name}"),
        ds.len() as u64,
        move |idx, out| {
            let d = ds[idx as usize];
            let j = || json!(kit::hex(&d.to_bytes()));
            rt(out, &format!("{name} digest"), j, &d);
            rt(out, &format!("Vec<{name} digest>"), j, &vec![d, d]);
            rt(out, &format!("Option<{name} digest>"), j, &Some(d));
        },
        move |idx| json!({"digest": kit::hex(&d2[idx as usize].to_bytes())}),
    )
}

// ------------------------------------------------------------------------------------------------
// proof options / trace info / context
// ------------------------------------------------------------------------------------------------

fn options_sub(run: &Arc<Run>) -> Arc<dyn Sub> {
    // full product of all legal field values; case = (queries, blowup, grinding), inner loop = rest
    let blowups: [usize; 7] = [2, 4, 8, 16, 32, 64, 128];
    let quick = !run.tier().is_thorough();
    sub_t(
        "proof_options",
        255 * 7 * 33,
        30,
        true,
        move |idx, out| {
            let q = (idx % 255) as usize + 1;
            let b = blowups[((idx / 255) % 7) as usize];
            let g = (idx / (255 * 7)) as u32;
            for ext in [FieldExtension::None, FieldExtension::Quadratic, FieldExtension::Cubic] {
                for fold in [2usize, 4, 8, 16] {
                    for rem in [0usize, 1, 3, 7, 15, 31, 63, 127, 255] {
                        let o = ProofOptions::new(q, b, g, ext, fold, rem);
                        let d = || json!({"queries": q, "blowup": b, "grinding": g, "ext": format!("{:?}", ext), "folding": fold, "remainder_max_degree": rem});
                        if quick && (idx + fold as u64 + rem as u64) % 16 != 0 {
                            // quick tier: in-memory reader for every value, all readers on a lattice
                            out.evals(1);
                            match pan::catch(|| ProofOptions::read_from(&mut SliceReader::new(&o.to_bytes()))) {
                                Ok(Ok(y)) if y == o => out.nontrivial(),
                                Ok(_) => out.violation("ProofOptions: decoded value differs or is refused [SliceReader]", d()),
                                Err(p) => out.violation(format!("ProofOptions: panic: {} [SliceReader]", p.class()), d()),
                            }
                        } else {
                            rt(out, "ProofOptions", d, &o);
                        }
                    }
                }
            }
        },
        |idx| json!({"queries": idx % 255 + 1, "blowup_index": (idx / 255) % 7, "grinding": idx / (255 * 7), "inner": "3 extensions x 4 folding factors x 9 remainder degrees"}),
    )
}

fn metas() -> Vec<Vec<u8>> {
    vec![vec![], vec![0], vec![1, 2, 3, 4, 5, 6, 7], vec![9; 8], vec![0xFF; 255], vec![1; 256], vec![7; 65535]]
}

fn trace_info_sub(run: &Arc<Run>) -> Arc<dyn Sub> {
    // case = (main width, aux width) with main >= 1 and main + aux <= 255
    let pairs: Vec<(usize, usize)> = (1..=255usize).flat_map(|m| (0..=255 - m).map(move |a| (m, a))).collect();
    let pairs = Arc::new(pairs);
    let p2 = pairs.clone();
    let thorough = run.tier().is_thorough();
    sub_t(
        "trace_info",
        pairs.len() as u64,
        30,
        true,
        move |idx, out| {
            let (m, a) = pairs[idx as usize];
            let rands: Vec<usize> = if a == 0 { vec![0] } else { vec![0, 1, 255] };
            let exps: Vec<u32> = if thorough { vec![3, 4, 5, 16, 31, 32, 33, 62, 63] } else if (m + a) % 8 == 0 || m + a >= 254 || m == 1 { vec![3, 16, 63] } else { vec![3 + ((m + a) % 61) as u32] };
            let metas = metas();
            for r in rands {
                for e in exps.iter() {
                    // metadata alphabet in full on a lattice of widths, empty + 1 other elsewhere
                    let ms: Vec<&Vec<u8>> = if (m + a) % 16 == 0 || m + a == 255 || m == 1 { metas.iter().collect() } else { vec![&metas[0], &metas[(m + a) % metas.len()]] };
                    for meta in ms {
                        let d = || json!({"main": m, "aux": a, "aux_rands": r, "length": format!("2^{e}"), "meta_len": meta.len()});
                        match pan::catch(|| TraceInfo::new_multi_segment(m, a, r, 1usize << e, meta.clone())) {
                            Ok(ti) => rt(out, "TraceInfo", d, &ti),
                            Err(p) => out.violation(format!("TraceInfo: constructor refuses documented-legal arguments: {}", p.class()), d()),
                        }
                    }
                }
            }
        },
        move |idx| json!({"main_width": p2[idx as usize].0, "aux_width": p2[idx as usize].1, "inner": "aux rands {0,1,255} x lengths x metadata sizes {0,1,7,8,255,256,65535}"}),
    )
}

fn context_sub() -> Arc<dyn Sub> {
    let shapes: Vec<(usize, usize, usize, u32, usize)> = vec![
        (1, 0, 0, 3, 0),
        (255, 0, 0, 3, 0),
        (1, 254, 255, 10, 7),
        (8, 3, 0, 20, 65535),
        (100, 155, 1, 25, 1),
        (2, 1, 2, 24, 8),
    ];
    let opts: Vec<(usize, usize, u32, usize, usize)> = vec![(1, 2, 0, 2, 0), (255, 128, 32, 16, 255), (27, 8, 16, 4, 31), (3, 4, 0, 8, 3)];
    let n = (shapes.len() * opts.len() * 3 * 3) as u64;
    let (s2, o2) = (shapes.clone(), opts.clone());
    sub(
        "context",
        n,
        move |idx, out| {
            let mut i = idx as usize;
            let sh = shapes[i % shapes.len()];
            i /= shapes.len();
            let op = opts[i % opts.len()];
            i /= opts.len();
            let ext = [FieldExtension::None, FieldExtension::Quadratic, FieldExtension::Cubic][i % 3];
            i /= 3;
            let d = || json!({"trace": format!("{:?}", sh), "options": format!("{:?}", op), "ext": format!("{:?}", ext), "field": i});
            let ti = TraceInfo::new_multi_segment(sh.0, sh.1, sh.2, 1usize << sh.3, vec![3u8; sh.4]);
            let po = ProofOptions::new(op.0, op.1, op.2, ext, op.3, op.4);
            let ctx = match i {
                0 => pan::catch(|| Context::new::<g64::BaseElement>(ti.clone(), po.clone())),
                1 => pan::catch(|| Context::new::<f62::BaseElement>(ti.clone(), po.clone())),
                _ => pan::catch(|| Context::new::<f128::BaseElement>(ti.clone(), po.clone())),
            };
            match ctx {
                Ok(c) => rt(out, "Context", d, &c),
                Err(_) => out.class("context constructor refuses (LDE domain too big)"),
            }
        },
        move |idx| json!({"trace": format!("{:?}", s2[idx as usize % s2.len()]), "options": format!("{:?}", o2[(idx as usize / s2.len()) % o2.len()])}),
    )
}

// ------------------------------------------------------------------------------------------------
// commitments, queries, OOD frames, FRI proofs
// ------------------------------------------------------------------------------------------------

fn commitments_sub<H: Hasher + 'static>(name: &'static str) -> Arc<dyn Sub>
where
    H::Digest: 'static,
{
    let counts: Vec<(usize, usize)> = vec![(1, 0), (1, 1), (2, 0), (2, 5), (1, 31), (2, 40), (1, 200)];
    let c2 = counts.clone();
    sub(
        &format!("commitments.{name}"),
        counts.len() as u64,
        move |idx, out| {
            let (nt, nf) = counts[idx as usize];
            let dg = |i: usize| H::hash(&[i as u8, (i >> 8) as u8, 7]);
            let trace_roots: Vec<H::Digest> = (0..nt).map(dg).collect();
            let fri_roots: Vec<H::Digest> = (0..nf + 1).map(|i| dg(1000 + i)).collect();
            let d = || json!({"hasher": name, "trace_roots": nt, "fri_roots": nf + 1});
            let c = match pan::catch(|| Commitments::new::<H>(trace_roots.clone(), dg(500), fri_roots.clone())) {
                Ok(c) => c,
                Err(p) => return out.violation(format!("Commitments: constructor panics: {}", p.class()), d()),
            };
            rt(out, "Commitments", d, &c);
            // second-level decoding returns what went in
            match pan::catch(|| c.clone().parse::<H>(nt, nf)) {
                Ok(Ok((t, cr, f))) if t == trace_roots && cr == dg(500) && f == fri_roots => {},
                Ok(_) => out.violation("Commitments: parse() of an encoded value returns different digests", d()),
                Err(p) => out.violation(format!("Commitments: parse panics: {}", p.class()), d()),
            }
        },
        move |idx| json!({"hasher": name, "trace_roots": c2[idx as usize].0, "fri_layers": c2[idx as usize].1}),
    )
}

fn queries_sub<B, H>(name: &'static str, thorough: bool) -> Arc<dyn Sub>
where
    B: StarkField + 'static,
    H: ElementHasher<BaseField = B> + 'static,
    H::Digest: 'static,
{
    // (rows = number of unique queries, columns = values per query)
    let mut shapes: Vec<(usize, usize)> = vec![(1, 1), (1, 255), (255, 1), (2, 2), (27, 8), (254, 254), (255, 255), (254, 255), (255, 254), (128, 9), (3, 64)];
    if thorough {
        for r in [1usize, 2, 100, 253, 254, 255] {
            for c in [1usize, 7, 16, 200, 253, 254, 255] {
                if !shapes.contains(&(r, c)) {
                    shapes.push((r, c));
                }
            }
        }
    }
    let s2 = shapes.clone();
    sub_t(
        &format!("queries.{name}"),
        shapes.len() as u64,
        60,
        true,
        move |idx, out| {
            let (rows, cols) = shapes[idx as usize];
            let d = || json!({"hasher/field": name, "rows": rows, "columns": cols});
            let domain = 512usize;
            // committed table: row i = [i*cols + j]
            let table: Vec<Vec<B>> = (0..domain).map(|i| (0..cols).map(|j| B::from((i * cols + j) as u32)).collect()).collect();
            let leaves: Vec<H::Digest> = table.iter().map(|r| H::hash_elements(r)).collect();
            let tree = MerkleTree::<H>::new(leaves).unwrap();
            // distinct positions spread over the domain
            let mut pos: Vec<usize> = (0..rows).map(|i| (i * 2 + (i % 2) * 0 + (i / 200)) % domain).collect();
            pos.sort();
            pos.dedup();
            let mut extra = 1;
            while pos.len() < rows {
                if !pos.contains(&extra) {
                    pos.push(extra);
                }
                extra += 2;
            }
            pos.sort();
            let proof = tree.prove_batch(&pos).unwrap();
            let values: Vec<Vec<B>> = pos.iter().map(|p| table[*p].clone()).collect();
            let q = match pan::catch(|| Queries::new::<H, B>(crypto::BatchMerkleProof::<H> { leaves: proof.leaves.clone(), nodes: proof.nodes.clone(), depth: proof.depth }, values.clone())) {
                Ok(q) => q,
                Err(p) => return out.violation(format!("Queries: constructor panics: {}", p.class()), d()),
            };
            rt(out, "Queries", d, &q);
            match pan::catch(|| q.clone().parse::<H, B>(domain, rows, cols)) {
                Ok(Ok((mp, t))) => {
                    let same_rows = t.num_rows() == rows && (0..rows).all(|i| t.get_row(i) == values[i].as_slice());
                    if !same_rows || mp.nodes != proof.nodes || mp.leaves != proof.leaves || mp.depth != proof.depth {
                        out.violation("Queries: parse() returns a different opening or different values", d());
                    } else if MerkleTree::<H>::verify_batch(tree.root(), &pos, &mp).is_err() {
                        out.violation("Queries: the decoded opening no longer verifies", d());
                    }
                },
                Ok(Err(e)) => out.violation(format!("Queries: a value accepted by the constructor is refused by parse() ({})", squeeze(&e.to_string())), d()),
                Err(p) => out.violation(format!("Queries: parse() of a constructor-accepted value panics: {}", p.class()), d()),
            }
        },
        move |idx| json!({"hasher/field": name, "rows": s2[idx as usize].0, "columns": s2[idx as usize].1}),
    )
}

fn squeeze(s: &str) -> String {
    let mut o = String::new();
    for c in s.chars() {
        if c.is_ascii_digit() {
            if !o.ends_with('#') {
                o.push('#');
            }
        } else {
            o.push(c);
        }
    }
    o
}

fn ood_sub<E, H>(name: &'static str) -> Arc<dyn Sub>
where
    E: FieldElement + 'static,
    H: ElementHasher<BaseField = E::BaseField> + 'static,
{
    // (main width, aux width incl. lagrange column, lagrange frame size (0 = none), number of constraint evaluations)
    let mut shapes: Vec<(usize, usize, usize, usize)> = vec![];
    for m in [1usize, 2, 7, 8, 9, 128, 254, 255] {
        shapes.push((m, 0, 0, 1));
        shapes.push((m, 0, 0, 8));
    }
    for (m, a) in [(1usize, 1usize), (1, 254), (100, 155), (3, 2), (254, 1)] {
        shapes.push((m, a, 0, 2));
        shapes.push((m, a, 4, 2)); // with a Lagrange kernel frame of log2(8)+1 entries
        shapes.push((m, a, 33, 4));
    }
    let s2 = shapes.clone();
    sub(
        &format!("ood_frame.{name}"),
        shapes.len() as u64,
        move |idx, out| {
            let (m, a, lag, nev) = shapes[idx as usize];
            let d = || json!({"field": name, "main": m, "aux": a, "lagrange_frame": lag, "evaluations": nev});
            let el = |i: usize| E::from((i * 31 + 5) as u32);
            let aux_cols = if lag > 0 { a - 1 } else { a };
            let cur: Vec<E> = (0..m + aux_cols).map(|i| el(i)).collect();
            let nxt: Vec<E> = (0..m + aux_cols).map(|i| el(1000 + i)).collect();
            let lframe = if lag > 0 { Some(LagrangeKernelEvaluationFrame::new((0..lag).map(|i| el(5000 + i)).collect())) } else { None };
            let tf = TraceOodFrame::new(cur.clone(), nxt.clone(), m, lframe);
            let evals: Vec<E> = (0..nev).map(|i| el(9000 + i)).collect();
            let mut f = OodFrame::default();
            let r = pan::catch(|| {
                f.set_trace_states::<E, H>(&tf);
                f.set_constraint_evaluations(&evals);
            });
            if let Err(p) = r {
                return out.violation(format!("OodFrame: setters panic: {}", p.class()), d());
            }
            rt(out, "OodFrame", d, &f);
            match pan::catch(|| f.clone().parse::<E>(m, a, nev)) {
                Ok(Ok((t, e))) => {
                    let lag_ok = match (t.lagrange_kernel_frame(), lag) {
                        (None, 0) => true,
                        (Some(fr), n) if n > 0 => fr.inner().len() == n && fr.inner()[0] == el(5000),
                        _ => false,
                    };
                    if t.current_row() != cur.as_slice() || t.next_row() != nxt.as_slice() || e != evals || !lag_ok {
                        out.violation("OodFrame: parse() returns different rows / evaluations", d());
                    }
                },
                Ok(Err(e)) => out.violation(format!("OodFrame: an encoded frame is refused by parse() ({})", squeeze(&e.to_string())), d()),
                Err(p) => out.violation(format!("OodFrame: parse() panics: {}", p.class()), d()),
            }
        },
        move |idx| json!({"field": name, "shape(main,aux,lagrange,evals)": format!("{:?}", s2[idx as usize])}),
    )
}

fn fri_sub<B, E, H>(name: &'static str) -> Arc<dyn Sub>
where
    B: StarkField + 'static,
    E: FieldElement<BaseField = B> + 'static,
    H: ElementHasher<BaseField = B> + 'static,
    H::Digest: 'static,
{
    // (domain size, blowup, folding, remainder max degree, queries)
    let shapes: Vec<(usize, usize, usize, usize, usize)> = vec![
        (16, 2, 2, 0, 1),
        (16, 2, 2, 7, 3),    // zero layers, 8 coefficients
        (64, 4, 4, 0, 5),
        (256, 2, 2, 0, 20),  // many layers
        (512, 2, 2, 255, 9), // 256 remainder coefficients (the maximum)
        (1024, 4, 16, 3, 30),
        (512, 8, 8, 1, 255),
        (2048, 8, 4, 15, 40),
    ];
    let s2 = shapes.clone();
    sub_t(
        &format!("fri_proof.{name}"),
        shapes.len() as u64,
        60,
        true,
        move |idx, out| {
            let (n, blowup, fold, rem, nq) = shapes[idx as usize];
            let d = || json!({"field/hasher": name, "domain": n, "blowup": blowup, "folding": fold, "remainder_max_degree": rem, "queries": nq});
            let opts = FriOptions::new(blowup, fold, rem);
            // evaluations of a polynomial of degree < n/blowup over the coset
            let poly: Vec<E> = (0..n / blowup).map(|i| E::from((i * i + 3) as u32)).collect();
            let mut ev = poly.clone();
            ev.resize(n, E::ZERO);
            let tw = math::fft::get_twiddles::<B>(n);
            let mut evals = ev.clone();
            // evaluate over the coset offset*<w>
            let mut shifted = poly.clone();
            let off = opts.domain_offset::<B>();
            let mut f = B::ONE;
            for c in shifted.iter_mut() {
                *c = c.mul_base(f);
                f *= off;
            }
            shifted.resize(n, E::ZERO);
            evals.copy_from_slice(&shifted);
            math::fft::evaluate_poly(&mut evals, &tw);
            let mut channel = DefaultProverChannel::<E, H, crypto::DefaultRandomCoin<H>>::new(n, nq);
            let mut prover = FriProver::<B, E, _, H>::new(opts.clone());
            let proof: FriProof = match pan::catch(|| {
                prover.build_layers(&mut channel, evals.clone());
                let pos = channel.draw_query_positions(0);
                prover.build_proof(&pos)
            }) {
                Ok(p) => p,
                Err(p) => return out.violation(format!("FriProof: prover panics: {}", p.class()), d()),
            };
            out.class(&format!("fri proof with {} layers, {} remainder elements", proof.num_layers(), proof.num_remainder_elements::<E>()));
            rt(out, "FriProof", d, &proof);
            match proof.parse_remainder::<E>() {
                Ok(r) if r.len() == proof.num_remainder_elements::<E>() => {},
                _ => out.violation("FriProof: parse_remainder of an encoded proof fails", d()),
            }
        },
        move |idx| json!({"field/hasher": name, "shape(domain,blowup,folding,remainder,queries)": format!("{:?}", s2[idx as usize])}),
    )
}

pub fn subs(run: &Arc<Run>) -> Vec<Arc<dyn Sub>> {
    let seed = run.seed();
    let thorough = run.tier().is_thorough();
    let mut v = generic_subs(run);
    v.extend(field_subs::<g64::BaseElement>("f64", field_vals(kit::refmath::P64, seed, |x| g64::BaseElement::new(x as u64)), true));
    v.extend(field_subs::<f62::BaseElement>("f62", field_vals(kit::refmath::P62, seed, |x| f62::BaseElement::new(x as u64)), true));
    v.extend(field_subs::<f128::BaseElement>("f128", field_vals(kit::refmath::P128, seed, f128::BaseElement::new), false));
    // digests, including boundary limbs for the algebraic ones
    type D64 = <hashers::Rp64_256 as Hasher>::Digest;
    type DJ = <hashers::RpJive64_256 as Hasher>::Digest;
    type D62 = <hashers::Rp62_248 as Hasher>::Digest;
    let b64 = |x: u64| g64::BaseElement::new(x);
    let b62 = |x: u64| f62::BaseElement::new(x);
    let lim64 = [0u64, 1, (1 << 32) - 1, 1 << 32, 0xFFFF_FFFF_0000_0000];
    let lim62 = [0u64, 1, (1 << 32) - 1, 1 << 32, 4611624995532046336];
    let mut e64 = vec![];
    let mut ej = vec![];
    let mut e62 = vec![];
    for i in 0..lim64.len() {
        for j in 0..lim64.len() {
            e64.push(D64::new([b64(lim64[i]), b64(lim64[j]), b64(lim64[(i + j) % 5]), b64(lim64[(i * j) % 5])]));
            ej.push(DJ::new([b64(lim64[j]), b64(lim64[i]), b64(lim64[(i + j) % 5]), b64(lim64[(i * j) % 5])]));
            e62.push(D62::new([b62(lim62[i]), b62(lim62[j]), b62(lim62[(i + j) % 5]), b62(lim62[(i * j) % 5])]));
        }
    }
    v.push(digest_sub::<hashers::Blake3_256<g64::BaseElement>>("blake3_256", vec![]));
    v.push(digest_sub::<hashers::Blake3_192<g64::BaseElement>>("blake3_192", vec![]));
    v.push(digest_sub::<hashers::Sha3_256<f128::BaseElement>>("sha3_256", vec![]));
    v.push(digest_sub::<hashers::Rp64_256>("rp64_256", e64));
    v.push(digest_sub::<hashers::RpJive64_256>("rpjive64_256", ej));
    v.push(digest_sub::<hashers::Rp62_248>("rp62_248", e62));
    v.push(options_sub(run));
    v.push(trace_info_sub(run));
    v.push(context_sub());
    v.push(commitments_sub::<hashers::Blake3_256<g64::BaseElement>>("blake3_256"));
    v.push(commitments_sub::<hashers::Blake3_192<g64::BaseElement>>("blake3_192"));
    v.push(commitments_sub::<hashers::Rp64_256>("rp64_256"));
    v.push(commitments_sub::<hashers::Rp62_248>("rp62_248"));
    v.push(queries_sub::<g64::BaseElement, hashers::Blake3_256<g64::BaseElement>>("f64/blake3_256", thorough));
    v.push(queries_sub::<f128::BaseElement, hashers::Sha3_256<f128::BaseElement>>("f128/sha3_256", thorough));
    v.push(queries_sub::<g64::BaseElement, hashers::Rp64_256>("f64/rp64_256", false));
    v.push(queries_sub::<f62::BaseElement, hashers::Rp62_248>("f62/rp62_248", false));
    v.push(ood_sub::<g64::BaseElement, hashers::Blake3_256<g64::BaseElement>>("f64"));
    v.push(ood_sub::<QuadExtension<g64::BaseElement>, hashers::Rp64_256>("f64^2"));
    v.push(ood_sub::<CubeExtension<f62::BaseElement>, hashers::Rp62_248>("f62^3"));
    v.push(ood_sub::<QuadExtension<f128::BaseElement>, hashers::Blake3_192<f128::BaseElement>>("f128^2"));
    v.push(fri_sub::<g64::BaseElement, g64::BaseElement, hashers::Blake3_256<g64::BaseElement>>("f64/blake3_256"));
    v.push(fri_sub::<g64::BaseElement, CubeExtension<g64::BaseElement>, hashers::Rp64_256>("f64^3/rp64_256"));
    v.push(fri_sub::<f128::BaseElement, QuadExtension<f128::BaseElement>, hashers::Sha3_256<f128::BaseElement>>("f128^2/sha3_256"));
    v.push(fri_sub::<f62::BaseElement, f62::BaseElement, hashers::Rp62_248>("f62/rp62_248"));
    v
}
