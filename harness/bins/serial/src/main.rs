//! C12 (serialization round trip) and C13 (streaming reader equivalence).
mod c12;
mod c13;

use kit::{Args, Run};

fn main() {
    let args = Args::parse();
    match args.prop.clone().as_str() {
        "C13" => {
            let run = Run::new(args, "model_checking");
            run.rule("explicit-state BFS over operation histories on a fresh ReadAdapter for every (stream, chunking): all operations of the ByteReader alphabet with size arguments {0,1,2,15,16,17,255,256,257,300,remaining-1,remaining,remaining+1}; states de-duplicated on (stream, chunking, source position, EOF observations, adapter internals via the verif hook, reference position); a transition is non-trivial when both readers executed it and agreed; every transition is one trace validated against the implementation (the reference is SliceReader run in lock step)");
            run.assume("SliceReader is the reference semantics; 10 chunkings hand the stream out in non-empty pieces; 4 more return an empty read before the end of the stream (first read, every other read, at byte 4, at byte 256): std::io::Read defines an empty read as the end, so after one the adapter may report the end of the data early (UnexpectedEOF, has_more_bytes = false) - but it must never return a wrong value, succeed where the in-memory reader fails, or panic");
            run.assume("histories are not extended past their first error (the trait leaves the position unspecified)");
            c13::run(&run);
            run.finish()
        },
        "C12" => {
            let run = Run::new(args, "exploration");
            run.rule("every member of a boundary alphabet of every serializable type (sizes 0,1,2^7k-1,2^7k,2^7k+1 for k=1..9,u64::MAX; integers; options; strings incl. multi-byte; vectors/arrays/tuples/maps/sets nested two deep with lengths around the 1-,2-,3-byte size encodings; all pairs of boundary field values as base/quadratic/cubic elements; digests of all six hashers incl. boundary limbs; the full product of legal ProofOptions; every (main,aux) width pair with main+aux<=255 x aux-rands x lengths x metadata sizes for TraceInfo; contexts; commitments; query sets up to 255x255; OOD frames up to 255 columns with and without Lagrange frame; FRI proofs with 0..many layers and 1..256 remainder coefficients) is encoded and decoded through SliceReader, Cursor and ReadAdapter (whole, 1-byte and 7-byte chunk sources), with and without trailing sentinel bytes; non-trivial = the value was encoded and decoded and compared (distinct values by construction of the alphabets)");
            run.assume("values are built through the public constructors; equality is the type's own PartialEq");
            run.go(c12::subs(&run))
        },
        other => kit::engine::die(&format!("serde binary does not serve {other}")),
    }
}
