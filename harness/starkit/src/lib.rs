//! Shared STARK-level machinery: the SpecAir family, SpecProver, reference validity predicate,
//! recording coin, dispatch over (base field, hasher) pairs, proof byte-layout codec.
pub mod air;
pub mod codec;
pub mod prover;
pub mod reccoin;
pub mod spec;

use std::sync::Arc;

use ::air::proof::Proof;
use crypto::{hashers, DefaultRandomCoin, ElementHasher, RandomCoin};
use glue::{Fld, B128, B62, B64};
use kit::pan;
use verifier::{AcceptableOptions, VerifierError};
use ::prover::Prover;

pub use crate::air::{SpecAir, SpecPub};
pub use crate::prover::{assertion_values, gen_main, main_valid, AuxCorruption, SpecProver, SpecTrace};
pub use crate::spec::{AKind, ASpec, AirSpec, Aux, Opts, Rule, Tail};

/// (base field, hasher) pairs; the extension degree is a runtime option
pub const PAIRS: [&str; 12] = [
    "f64/blake3_256", "f64/blake3_192", "f64/sha3_256", "f64/rp64_256", "f64/rpjive64_256",
    "f62/blake3_256", "f62/blake3_192", "f62/sha3_256", "f62/rp62_248",
    "f128/blake3_256", "f128/blake3_192", "f128/sha3_256",
];

pub fn pair_has_cubic(pair: usize) -> bool {
    pair < 9
}

/// a computation generic over the (field, hasher) pair
pub trait PairFn {
    type Out;
    fn call<B: Fld, H: ElementHasher<BaseField = B> + Send + Sync + 'static>(self) -> Self::Out
    where
        H::Digest: 'static;
}

pub fn dispatch<F: PairFn>(pair: usize, f: F) -> F::Out {
    match pair {
        0 => f.call::<B64, hashers::Blake3_256<B64>>(),
        1 => f.call::<B64, hashers::Blake3_192<B64>>(),
        2 => f.call::<B64, hashers::Sha3_256<B64>>(),
        3 => f.call::<B64, hashers::Rp64_256>(),
        4 => f.call::<B64, hashers::RpJive64_256>(),
        5 => f.call::<B62, hashers::Blake3_256<B62>>(),
        6 => f.call::<B62, hashers::Blake3_192<B62>>(),
        7 => f.call::<B62, hashers::Sha3_256<B62>>(),
        8 => f.call::<B62, hashers::Rp62_248>(),
        9 => f.call::<B128, hashers::Blake3_256<B128>>(),
        10 => f.call::<B128, hashers::Blake3_192<B128>>(),
        _ => f.call::<B128, hashers::Sha3_256<B128>>(),
    }
}

/// everything needed to run one statement
#[derive(Clone, Debug)]
pub struct Statement {
    pub spec: Arc<AirSpec>,
    pub opts: Opts,
    pub seed: u64,
    pub meta: Vec<u8>,
}

#[derive(Debug, Clone)]
pub enum ProveOutcome {
    Proof(Box<Proof>),
    Err(String),
    Panic(pan::PanicRec),
}

/// main trace (residues), asserted values, public inputs for a statement
pub fn build_statement<B: Fld>(st: &Statement) -> (Vec<Vec<u128>>, Vec<Vec<u128>>, SpecPub<B>) {
    let cols = gen_main::<B>(&st.spec, st.seed);
    let vals = assertion_values(&st.spec, &cols);
    let pubs = SpecPub { spec: st.spec.clone(), values: vals.iter().map(|v| v.iter().map(|x| B::mk(*x)).collect()).collect(), extra: vec![] };
    (cols, vals, pubs)
}

/// run the real prover on the given main trace under catch_unwind
pub fn prove_with<B: Fld, H, R>(st: &Statement, cols: &[Vec<u128>], pubs: &SpecPub<B>, aux: Option<AuxCorruption>) -> (ProveOutcome, Option<Result<(), String>>)
where
    H: ElementHasher<BaseField = B> + Send + Sync,
    R: RandomCoin<BaseField = B, Hasher = H> + Send + Sync,
{
    let mut prover = SpecProver::<B, H, R>::new(st.opts.to_options(), pubs.clone());
    prover.aux_corruption = aux;
    let report = prover.report.clone();
    let trace = SpecTrace::<B>::new(&st.spec, cols, st.meta.clone());
    let out = match pan::catch(|| prover.prove(trace)) {
        Ok(Ok(p)) => ProveOutcome::Proof(Box::new(p)),
        Ok(Err(e)) => ProveOutcome::Err(format!("{:?}", e)),
        Err(p) => ProveOutcome::Panic(p),
    };
    let aux_verdict = report.lock().unwrap().valid.clone();
    (out, aux_verdict)
}

#[derive(Debug, Clone, PartialEq, Eq)]
pub enum VerifyOutcome {
    Accept,
    Reject(String),
    Panic(String),
}

pub fn verify_with<B: Fld, H, R>(proof: Proof, pubs: &SpecPub<B>, policy: &AcceptableOptions) -> VerifyOutcome
where
    H: ElementHasher<BaseField = B>,
    R: RandomCoin<BaseField = B, Hasher = H>,
{
    match pan::catch(|| verifier::verify::<SpecAir<B>, H, R>(proof, pubs.clone(), policy)) {
        Ok(Ok(())) => VerifyOutcome::Accept,
        Ok(Err(e)) => VerifyOutcome::Reject(verr_class(&e)),
        Err(p) => VerifyOutcome::Panic(p.class()),
    }
}

pub fn verr_class(e: &VerifierError) -> String {
    let s = format!("{:?}", e);
    // keep the variant name only
    s.split(|c| c == '(' || c == '{').next().unwrap_or("").trim().to_string()
}

pub fn lenient() -> AcceptableOptions {
    AcceptableOptions::MinConjecturedSecurity(0)
}

pub type Coin<H> = DefaultRandomCoin<H>;
