//! AirSpec — the runtime description of one member of the enumerated family of computations.
use kit::{json, Value};

#[derive(Clone, Copy, Debug, PartialEq, Eq, Hash)]
pub enum Rule {
    /// x' = x^d + c  (degree d; d = 1, c = 0 is the constant column)
    Pow { d: u32, c: u64 },
    /// x' = x * k(step) + c with a periodic column k of the given cycle length (k_i = i + 2)
    Periodic { cycle: usize, c: u64 },
    /// x' = x * ka(step) + kb(step) with TWO periodic columns of different cycle lengths (ka_i = i + 2 over
    /// `cycle_a`, kb_i = i + 2 over `cycle_b`)
    Periodic2 { cycle_a: usize, cycle_b: usize },
    /// x' = m * x where m is the root of unity of order `order`: the column is periodic with that
    /// period and its interpolant has degree n/order ... a low-degree column
    Rot { order: usize },
    /// first half of a coupled pair (a, b)' = (b, a + b): a' = b   (the next column must be FibB)
    FibA,
    /// the classic two-terms-per-step Fibonacci pair: a' = a + b (FibC) and b' = b + a' (FibD, the next column):
    /// the NEXT value of the first column enters both constraints, with opposite signs
    FibC,
    FibD,
    /// b' = a + b
    FibB,
}

#[derive(Clone, Copy, Debug, PartialEq, Eq, Hash)]
pub enum AKind {
    Single(usize),
    Periodic { first: usize, stride: usize },
    Sequence { first: usize, stride: usize },
}

#[derive(Clone, Copy, Debug, PartialEq, Eq, Hash)]
pub struct ASpec {
    pub col: usize,
    pub kind: AKind,
}

#[derive(Clone, Copy, Debug, PartialEq, Eq, Hash)]
pub enum Aux {
    None,
    /// `cols` running-sum columns s_j' = s_j + r_j * main_0 (+ r_{j+1} * main_last when `rands` > cols),
    /// asserted to start at 0; `rands` random elements
    Sum { cols: usize, rands: usize },
    /// the same plus a Lagrange-kernel column as last column (dummy GKR proof = log2(n))
    SumLagrange { cols: usize, rands: usize },
}

/// how the cells of the rows that only exempt transitions reach are filled
#[derive(Clone, Copy, Debug, PartialEq, Eq, Hash)]
pub enum Tail {
    Continue,
    Zero,
    Random,
}

#[derive(Clone, Debug, PartialEq, Eq, Hash)]
pub struct AirSpec {
    pub n: usize,
    pub rules: Vec<Rule>,
    pub exemptions: usize,
    pub asserts: Vec<ASpec>,
    pub aux: Aux,
    /// power applied to the running-sum increment: s' = s + (r_j * m_0 [+ r_{j+1} * m_last])^aux_pow - the degree
    /// of the auxiliary transition constraints (1 = plain running sums)
    pub aux_pow: u32,
    pub tail: Tail,
    /// initial state selector per column: 0 -> 0, 1 -> 1, 2 -> p-1, else seeded
    pub init: u8,
}

impl AirSpec {
    pub fn width(&self) -> usize {
        self.rules.len()
    }
    pub fn aux_width(&self) -> usize {
        match self.aux {
            Aux::None => 0,
            Aux::Sum { cols, .. } => cols,
            Aux::SumLagrange { cols, .. } => cols + 1,
        }
    }
    pub fn aux_rands(&self) -> usize {
        match self.aux {
            Aux::None => 0,
            Aux::Sum { rands, .. } | Aux::SumLagrange { rands, .. } => rands,
        }
    }
    pub fn has_lagrange(&self) -> bool {
        matches!(self.aux, Aux::SumLagrange { .. })
    }
    pub fn sum_cols(&self) -> usize {
        match self.aux {
            Aux::None => 0,
            Aux::Sum { cols, .. } | Aux::SumLagrange { cols, .. } => cols,
        }
    }
    /// cycle lengths of the periodic columns, in the order the AIR hands them out
    pub fn periodic_cycles(&self) -> Vec<usize> {
        self.rules
            .iter()
            .flat_map(|r| match r {
                Rule::Periodic { cycle, .. } => vec![*cycle],
                Rule::Periodic2 { cycle_a, cycle_b } => vec![*cycle_a, *cycle_b],
                _ => vec![],
            })
            .collect()
    }
    /// (base degree, cycle lengths of the periodic columns involved) of every transition constraint: main rules,
    /// then the auxiliary running sums - written from the rules, independently of the AIR context
    pub fn constraint_degrees(&self) -> Vec<(usize, Vec<usize>)> {
        let mut v: Vec<(usize, Vec<usize>)> = self
            .rules
            .iter()
            .map(|r| match r {
                Rule::Pow { d, .. } => ((*d as usize).max(1), vec![]),
                Rule::Periodic { cycle, .. } => (1, vec![*cycle]),
                Rule::Periodic2 { cycle_a, cycle_b } => (1, vec![*cycle_a, *cycle_b]),
                Rule::Rot { .. } | Rule::FibA | Rule::FibB | Rule::FibC | Rule::FibD => (1, vec![]),
            })
            .collect();
        for _ in 0..self.sum_cols() {
            v.push((self.aux_pow.max(1) as usize, vec![]));
        }
        v
    }
    /// The documented refusal of `AirContext::set_num_transition_exemptions`: with the constraint-evaluation
    /// domain sized for the highest degree class (blowup class of a constraint = max(2, next_pow2(total degree - 1)),
    /// total degree = base degree + number of periodic columns), the composition polynomial of some constraint
    /// would not fit any more with this many exemptions. Descriptions for which this holds are outside the
    /// supported class; every other panic of the AIR constructor is a defect.
    pub fn exemptions_exceed_degree_budget(&self) -> bool {
        let n = self.n;
        let degs = self.constraint_degrees();
        let ce_blowup = degs.iter().map(|(b, c)| (b + c.len()).saturating_sub(1).next_power_of_two().max(2)).max().unwrap_or(2);
        degs.iter().any(|(b, c)| {
            let eval_degree = b * (n - 1) + c.iter().map(|cy| (n / cy) * (cy - 1)).sum::<usize>();
            let max_exemptions = (n * ce_blowup - 1) + n - eval_degree;
            self.exemptions > max_exemptions
        })
    }
    /// smallest blowup factor the declared degrees need
    pub fn min_blowup(&self) -> usize {
        let mut b = 2;
        for r in self.rules.iter() {
            let bound = match r {
                Rule::Pow { d, .. } => (*d as usize).max(1) - 1,
                Rule::Periodic { .. } | Rule::Periodic2 { .. } => 1,
                _ => 0,
            };
            b = b.max(bound.next_power_of_two().max(2));
        }
        if self.aux_width() > 0 {
            b = b.max(((self.aux_pow.max(1) as usize) - 1).next_power_of_two().max(2));
        }
        b
    }
    pub fn steps_of(&self, a: &ASpec) -> Vec<usize> {
        match a.kind {
            AKind::Single(s) => vec![s],
            AKind::Periodic { first, stride } => (0..self.n / stride).map(|k| first + k * stride).collect(),
            AKind::Sequence { first, stride } => (0..self.n / stride).map(|k| first + k * stride).collect(),
        }
    }
    /// numbers that identify the spec (bound into the coin seed through the public inputs)
    pub fn encode(&self) -> Vec<u64> {
        let mut v = vec![self.n as u64, self.rules.len() as u64, self.exemptions as u64, self.init as u64, self.tail as u64];
        for r in self.rules.iter() {
            match r {
                Rule::Pow { d, c } => v.extend([1, *d as u64, *c]),
                Rule::Periodic { cycle, c } => v.extend([2, *cycle as u64, *c]),
                Rule::Periodic2 { cycle_a, cycle_b } => v.extend([6, *cycle_a as u64, *cycle_b as u64]),
                Rule::Rot { order } => v.extend([3, *order as u64, 0]),
                Rule::FibA => v.extend([4, 0, 0]),
                Rule::FibB => v.extend([5, 0, 0]),
                Rule::FibC => v.extend([7, 0, 0]),
                Rule::FibD => v.extend([8, 0, 0]),
            }
        }
        v.push(self.asserts.len() as u64);
        for a in self.asserts.iter() {
            match a.kind {
                AKind::Single(s) => v.extend([a.col as u64, 1, s as u64, 0]),
                AKind::Periodic { first, stride } => v.extend([a.col as u64, 2, first as u64, stride as u64]),
                AKind::Sequence { first, stride } => v.extend([a.col as u64, 3, first as u64, stride as u64]),
            }
        }
        match self.aux {
            Aux::None => v.push(0),
            Aux::Sum { cols, rands } => v.extend([1, cols as u64, rands as u64]),
            Aux::SumLagrange { cols, rands } => v.extend([2, cols as u64, rands as u64]),
        }
        v.push(self.aux_pow as u64);
        v
    }
    pub fn json(&self) -> Value {
        json!({
            "n": self.n, "width": self.width(), "rules": format!("{:?}", summarize(&self.rules)), "exemptions": self.exemptions,
            "asserts": self.asserts.iter().map(|a| format!("{:?}", a)).collect::<Vec<_>>(), "aux": format!("{:?}", self.aux), "aux_pow": self.aux_pow,
            "tail": format!("{:?}", self.tail), "init": self.init,
        })
    }
}

fn summarize(rules: &[Rule]) -> Vec<String> {
    // run-length summary so that 255-column specs stay readable
    let mut out: Vec<String> = vec![];
    let mut i = 0;
    while i < rules.len() {
        let mut j = i;
        while j < rules.len() && rules[j] == rules[i] {
            j += 1;
        }
        out.push(if j - i > 1 { format!("{}x{:?}", j - i, rules[i]) } else { format!("{:?}", rules[i]) });
        i = j;
    }
    out
}

/// proof parameters, mirrored so that the harness can enumerate and describe them
#[derive(Clone, Copy, Debug, PartialEq, Eq, Hash)]
pub struct Opts {
    pub queries: usize,
    pub blowup: usize,
    pub grinding: u32,
    pub ext: u8,
    pub folding: usize,
    pub rem_deg: usize,
}

impl Opts {
    pub fn to_options(&self) -> air::ProofOptions {
        let ext = match self.ext {
            1 => air::FieldExtension::None,
            2 => air::FieldExtension::Quadratic,
            _ => air::FieldExtension::Cubic,
        };
        air::ProofOptions::new(self.queries, self.blowup, self.grinding, ext, self.folding, self.rem_deg)
    }
    /// admissibility predicate of C01: well-formed FRI schedule and fewer queries than LDE points
    pub fn admissible(&self, n: usize, min_blowup: usize) -> bool {
        if self.blowup < min_blowup {
            return false;
        }
        let lde = n * self.blowup;
        if self.queries >= lde {
            return false;
        }
        let mut d = lde;
        let max_rem = (self.rem_deg + 1) * self.blowup;
        while d > max_rem {
            if d % self.folding != 0 || d / self.folding < 2 {
                return false;
            }
            d /= self.folding;
        }
        // at least one remainder coefficient, and the last layer keeps two rows
        d / self.blowup >= 1 && d >= 2
    }
}
