//! Proof byte-layout codec: a structural walk over `Proof::to_bytes()` that yields the list of
//! fields (kind, byte range, owner component) of the whole format. It is bound to the code on every
//! proof it is used on: the fields tile the byte string exactly (checked here) and the decoded
//! counts/lengths equal what the parsed `Proof` reports (checked by the caller through
//! `Proof::from_bytes(bytes).to_bytes() == bytes`).
#[derive(Clone, Copy, Debug, PartialEq, Eq)]
pub enum FKind {
    /// a count of following items
    Count,
    /// a byte length of a following component
    Len,
    /// an enumeration / flag byte
    Enum,
    /// a single field element (base or extension)
    Elem,
    Digest,
    Nonce,
    /// opaque bytes
    Payload,
}

#[derive(Clone, Debug)]
pub struct Field {
    pub name: String,
    pub comp: &'static str,
    pub off: usize,
    pub len: usize,
    pub kind: FKind,
}

#[derive(Clone, Debug)]
pub struct Layout {
    pub fields: Vec<Field>,
    pub total: usize,
    /// byte ranges of the length-prefixed components: (name, offset of the length field, length of the length field, payload range)
    pub components: Vec<(String, usize, usize, usize, usize)>,
}

struct W<'a> {
    b: &'a [u8],
    pos: usize,
    fields: Vec<Field>,
    comps: Vec<(String, usize, usize, usize, usize)>,
}

impl<'a> W<'a> {
    fn take(&mut self, name: impl Into<String>, comp: &'static str, len: usize, kind: FKind) -> Result<u64, String> {
        if self.pos + len > self.b.len() {
            return Err(format!("layout walk ran past the end at {} (+{})", self.pos, len));
        }
        let mut v = 0u64;
        if len <= 8 {
            for (i, x) in self.b[self.pos..self.pos + len].iter().enumerate() {
                v |= (*x as u64) << (8 * i);
            }
        }
        self.fields.push(Field { name: name.into(), comp, off: self.pos, len, kind });
        self.pos += len;
        Ok(v)
    }
    fn items(&mut self, name: &str, comp: &'static str, total: usize, item: usize, kind: FKind) -> Result<(), String> {
        let n = if item == 0 { 0 } else { total / item };
        for i in 0..n {
            self.take(format!("{name}[{i}]"), comp, item, kind)?;
        }
        if total > n * item {
            self.take(format!("{name}.tail"), comp, total - n * item, FKind::Payload)?;
        }
        Ok(())
    }
    /// serialized batch-Merkle nodes: count of vectors, then per vector count + digests
    fn paths(&mut self, name: &str, comp: &'static str, total: usize, dlen: usize) -> Result<(), String> {
        let end = self.pos + total;
        if total == 0 {
            return Ok(());
        }
        let nv = self.take(format!("{name}.num_vectors"), comp, 1, FKind::Count)? as usize;
        for v in 0..nv {
            if self.pos >= end {
                break;
            }
            let c = self.take(format!("{name}.vec[{v}].count"), comp, 1, FKind::Count)? as usize;
            for k in 0..c {
                if self.pos + dlen > end {
                    break;
                }
                self.take(format!("{name}.vec[{v}].node[{k}]"), comp, dlen, FKind::Digest)?;
            }
        }
        if self.pos < end {
            let rest = end - self.pos;
            self.take(format!("{name}.tail"), comp, rest, FKind::Payload)?;
        }
        if self.pos != end {
            return Err(format!("{name}: path bytes do not tile"));
        }
        Ok(())
    }
    fn queries(&mut self, name: &str, comp: &'static str, elem: usize, dlen: usize) -> Result<(), String> {
        let lo = self.pos;
        let vl = self.take(format!("{name}.values_len"), comp, 4, FKind::Len)? as usize;
        let ps = self.pos;
        self.items(&format!("{name}.value"), comp, vl, elem, FKind::Elem)?;
        self.comps.push((format!("{name}.values"), lo, 4, ps, self.pos));
        let lo = self.pos;
        let pl = self.take(format!("{name}.paths_len"), comp, 4, FKind::Len)? as usize;
        let ps = self.pos;
        if self.pos + pl > self.b.len() {
            return Err("paths run past the end".into());
        }
        self.paths(&format!("{name}.paths"), comp, pl, dlen)?;
        self.comps.push((format!("{name}.paths"), lo, 4, ps, self.pos));
        Ok(())
    }
}

/// `dlen` digest bytes, `base` bytes per base element, `ext` extension degree
pub fn layout(bytes: &[u8], dlen: usize, base: usize, ext: usize) -> Result<Layout, String> {
    let mut w = W { b: bytes, pos: 0, fields: vec![], comps: vec![] };
    let e = base * ext;
    // --- context
    w.take("main_width", "context", 1, FKind::Count)?;
    let aux_w = w.take("aux_width", "context", 1, FKind::Count)?;
    w.take("aux_rands", "context", 1, FKind::Count)?;
    w.take("log2_trace_length", "context", 1, FKind::Count)?;
    let lo = w.pos;
    let ml = w.take("meta_len", "context", 2, FKind::Len)? as usize;
    let ps = w.pos;
    if ml > 0 {
        w.take("meta", "context", ml, FKind::Payload)?;
    }
    w.comps.push(("meta".into(), lo, 2, ps, w.pos));
    let lo = w.pos;
    let modl = w.take("modulus_len", "context", 1, FKind::Len)? as usize;
    let ps = w.pos;
    w.take("modulus", "context", modl, FKind::Payload)?;
    w.comps.push(("modulus".into(), lo, 1, ps, w.pos));
    w.take("num_queries", "options", 1, FKind::Count)?;
    w.take("blowup_factor", "options", 1, FKind::Count)?;
    w.take("grinding_factor", "options", 1, FKind::Count)?;
    w.take("field_extension", "options", 1, FKind::Enum)?;
    w.take("fri_folding_factor", "options", 1, FKind::Count)?;
    w.take("fri_remainder_max_degree", "options", 1, FKind::Count)?;
    w.take("num_unique_queries", "proof", 1, FKind::Count)?;
    // --- commitments
    let lo = w.pos;
    let cl = w.take("commitments_len", "commitments", 2, FKind::Len)? as usize;
    let ps = w.pos;
    w.items("commitment", "commitments", cl, dlen, FKind::Digest)?;
    w.comps.push(("commitments".into(), lo, 2, ps, w.pos));
    // --- trace queries (main: base elements; aux: extension elements), constraint queries
    w.queries("trace_queries[main]", "trace_queries", base, dlen)?;
    if aux_w > 0 {
        w.queries("trace_queries[aux]", "trace_queries", e, dlen)?;
    }
    w.queries("constraint_queries", "constraint_queries", e, dlen)?;
    // --- OOD frame
    let lo = w.pos;
    let tl = w.take("ood.trace_states_len", "ood_frame", 2, FKind::Len)? as usize;
    let ps = w.pos;
    if tl > 0 {
        w.take("ood.frame_size", "ood_frame", 1, FKind::Count)?;
        w.items("ood.trace_state", "ood_frame", tl - 1, e, FKind::Elem)?;
    }
    w.comps.push(("ood.trace_states".into(), lo, 2, ps, w.pos));
    let lo = w.pos;
    let ll = w.take("ood.lagrange_len", "ood_frame", 2, FKind::Len)? as usize;
    let ps = w.pos;
    if ll > 0 {
        w.take("ood.lagrange_frame_size", "ood_frame", 1, FKind::Count)?;
        w.items("ood.lagrange_state", "ood_frame", ll - 1, e, FKind::Elem)?;
    }
    w.comps.push(("ood.lagrange".into(), lo, 2, ps, w.pos));
    let lo = w.pos;
    let el = w.take("ood.evaluations_len", "ood_frame", 2, FKind::Len)? as usize;
    let ps = w.pos;
    w.items("ood.evaluation", "ood_frame", el, e, FKind::Elem)?;
    w.comps.push(("ood.evaluations".into(), lo, 2, ps, w.pos));
    // --- FRI proof
    let nl = w.take("fri.num_layers", "fri_proof", 1, FKind::Count)? as usize;
    for l in 0..nl {
        w.queries(&format!("fri.layer[{l}]"), "fri_proof", e, dlen)?;
    }
    let lo = w.pos;
    let rl = w.take("fri.remainder_len", "fri_proof", 2, FKind::Len)? as usize;
    let ps = w.pos;
    w.items("fri.remainder", "fri_proof", rl, e, FKind::Elem)?;
    w.comps.push(("fri.remainder".into(), lo, 2, ps, w.pos));
    w.take("fri.num_partitions_log2", "fri_proof", 1, FKind::Count)?;
    w.take("pow_nonce", "proof", 8, FKind::Nonce)?;
    // --- GKR proof option
    let flag = w.take("gkr.flag", "gkr_proof", 1, FKind::Enum)?;
    if flag == 1 {
        let first = *bytes.get(w.pos).ok_or("gkr length missing")?;
        let vl = (first.trailing_zeros() as usize + 1).min(9);
        let lo = w.pos;
        w.take("gkr.len", "gkr_proof", vl, FKind::Len)?;
        let ps = w.pos;
        let rest = bytes.len() - w.pos;
        if rest > 0 {
            w.take("gkr.bytes", "gkr_proof", rest, FKind::Payload)?;
        }
        w.comps.push(("gkr".into(), lo, vl, ps, w.pos));
    }
    if w.pos != bytes.len() {
        return Err(format!("layout covers {} of {} bytes", w.pos, bytes.len()));
    }
    // the fields must tile the byte string
    let mut at = 0;
    for f in w.fields.iter() {
        if f.off != at {
            return Err(format!("field {} does not start where the previous one ended", f.name));
        }
        at += f.len;
    }
    Ok(Layout { fields: w.fields, total: bytes.len(), components: w.comps })
}

pub fn write_le(bytes: &mut [u8], off: usize, len: usize, v: u64) {
    for i in 0..len.min(8) {
        bytes[off + i] = (v >> (8 * i)) as u8;
    }
}

pub fn read_le(bytes: &[u8], off: usize, len: usize) -> u64 {
    let mut v = 0u64;
    for i in 0..len.min(8) {
        v |= (bytes[off + i] as u64) << (8 * i);
    }
    v
}
