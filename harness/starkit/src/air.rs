//! SpecAir — one generic `Air` whose shape is a runtime `AirSpec` carried in the public inputs.
use std::sync::Arc;

use air::{
    Air, AirContext, Assertion, EvaluationFrame, GkrVerifier, LagrangeKernelRandElements, ProofOptions, TraceInfo,
    TransitionConstraintDegree,
};
use crypto::{ElementHasher, RandomCoin};
use glue::Fld;
use math::{ExtensionOf, FieldElement, ToElements};
use verifier::VerifierError;

use crate::spec::{AKind, AirSpec, Rule};

#[derive(Clone, Debug)]
pub struct SpecPub<B: Fld> {
    pub spec: Arc<AirSpec>,
    /// asserted values, one vector per assertion of the spec
    pub values: Vec<Vec<B>>,
}

impl<B: Fld> ToElements<B> for SpecPub<B> {
    fn to_elements(&self) -> Vec<B> {
        let mut v: Vec<B> = self.spec.encode().into_iter().map(|x| B::mk(x as u128)).collect();
        for vals in self.values.iter() {
            v.push(B::mk(vals.len() as u128));
            v.extend(vals.iter().cloned());
        }
        v
    }
}

pub struct SpecAir<B: Fld> {
    context: AirContext<B>,
    spec: Arc<AirSpec>,
    values: Vec<Vec<B>>,
}

#[derive(Debug, Clone, Default)]
pub struct DummyGkrVerifier;

impl GkrVerifier for DummyGkrVerifier {
    type GkrProof = usize;
    type Error = VerifierError;

    fn verify<E, Hasher>(
        &self,
        gkr_proof: usize,
        public_coin: &mut impl RandomCoin<BaseField = E::BaseField, Hasher = Hasher>,
    ) -> Result<LagrangeKernelRandElements<E>, Self::Error>
    where
        E: FieldElement,
        Hasher: ElementHasher<BaseField = E::BaseField>,
    {
        // as in the crate's own Lagrange test: the "proof" is log2(trace length)
        if gkr_proof > 64 {
            return Err(VerifierError::ProofDeserializationError("dummy gkr proof too large".into()));
        }
        let mut rand_elements = Vec::with_capacity(gkr_proof);
        for _ in 0..gkr_proof {
            rand_elements.push(public_coin.draw().map_err(|_| VerifierError::RandomCoinError)?);
        }
        Ok(LagrangeKernelRandElements::new(rand_elements))
    }
}

pub fn degrees(spec: &AirSpec) -> (Vec<TransitionConstraintDegree>, Vec<TransitionConstraintDegree>) {
    let main = spec
        .rules
        .iter()
        .map(|r| match r {
            Rule::Pow { d, .. } => TransitionConstraintDegree::new((*d as usize).max(1)),
            Rule::Periodic { cycle, .. } => TransitionConstraintDegree::with_cycles(1, vec![*cycle]),
            _ => TransitionConstraintDegree::new(1),
        })
        .collect();
    let aux = (0..spec.sum_cols()).map(|_| TransitionConstraintDegree::new(1)).collect();
    (main, aux)
}

impl<B: Fld> Air for SpecAir<B> {
    type BaseField = B;
    type PublicInputs = SpecPub<B>;
    type GkrProof = usize;
    type GkrVerifier = DummyGkrVerifier;

    fn new(trace_info: TraceInfo, pub_inputs: SpecPub<B>, options: ProofOptions) -> Self {
        let spec = pub_inputs.spec.clone();
        let (main_deg, aux_deg) = degrees(&spec);
        let context = if trace_info.is_multi_segment() {
            let lag = if spec.has_lagrange() { Some(trace_info.aux_segment_width() - 1) } else { None };
            AirContext::new_multi_segment(trace_info, main_deg, aux_deg, spec.asserts.len(), spec.sum_cols(), lag, options)
        } else {
            AirContext::new(trace_info, main_deg, spec.asserts.len(), options)
        };
        let context = context.set_num_transition_exemptions(spec.exemptions);
        SpecAir { context, spec, values: pub_inputs.values }
    }

    fn context(&self) -> &AirContext<B> {
        &self.context
    }

    fn evaluate_transition<E: FieldElement<BaseField = B>>(&self, frame: &EvaluationFrame<E>, periodic_values: &[E], result: &mut [E]) {
        let cur = frame.current();
        let next = frame.next();
        let mut pk = 0;
        for (i, rule) in self.spec.rules.iter().enumerate() {
            result[i] = match rule {
                Rule::Pow { d, c } => next[i] - (cur[i].exp(((*d).max(1)).into()) + E::from(B::mk(*c as u128))),
                Rule::Periodic { c, .. } => {
                    let k = periodic_values[pk];
                    pk += 1;
                    next[i] - (cur[i] * k + E::from(B::mk(*c as u128)))
                },
                Rule::Rot { order } => next[i] - E::from(B::get_root_of_unity(order.ilog2())) * cur[i],
                Rule::FibA => next[i] - cur[i + 1],
                Rule::FibB => next[i] - (cur[i - 1] + cur[i]),
            };
        }
    }

    fn get_assertions(&self) -> Vec<Assertion<B>> {
        self.spec
            .asserts
            .iter()
            .zip(self.values.iter())
            .map(|(a, v)| match a.kind {
                AKind::Single(s) => Assertion::single(a.col, s, v[0]),
                AKind::Periodic { first, stride } => Assertion::periodic(a.col, first, stride, v[0]),
                AKind::Sequence { first, stride } => Assertion::sequence(a.col, first, stride, v.clone()),
            })
            .collect()
    }

    fn evaluate_aux_transition<F, E>(&self, main_frame: &EvaluationFrame<F>, aux_frame: &EvaluationFrame<E>, _periodic_values: &[F], aux_rand_elements: &[E], result: &mut [E])
    where
        F: FieldElement<BaseField = B>,
        E: FieldElement<BaseField = B> + ExtensionOf<F>,
    {
        let m = main_frame.current();
        let (ac, an) = (aux_frame.current(), aux_frame.next());
        let nr = aux_rand_elements.len();
        for j in 0..self.spec.sum_cols() {
            let mut inc: E = if nr == 0 { E::from(m[0]) } else { aux_rand_elements[j % nr].mul_base(m[0]) };
            if nr >= 2 {
                inc += aux_rand_elements[(j + 1) % nr].mul_base(m[m.len() - 1]);
            }
            result[j] = an[j] - ac[j] - inc;
        }
    }

    fn get_aux_assertions<E: FieldElement<BaseField = B>>(&self, _aux_rand_elements: &[E]) -> Vec<Assertion<E>> {
        (0..self.spec.sum_cols()).map(|j| Assertion::single(j, 0, E::ZERO)).collect()
    }

    fn get_auxiliary_proof_verifier<E: FieldElement<BaseField = B>>(&self) -> DummyGkrVerifier {
        DummyGkrVerifier
    }

    fn get_periodic_column_values(&self) -> Vec<Vec<B>> {
        self.spec.periodic_cycles().into_iter().map(|c| (0..c).map(|i| B::mk(i as u128 + 2)).collect()).collect()
    }
}
