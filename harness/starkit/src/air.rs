//! SpecAir — one generic `Air` whose shape is a runtime `AirSpec` carried in the public inputs.
use std::sync::Arc;

use air::{
    Air, AirContext, Assertion, EvaluationFrame, GkrVerifier, LagrangeKernelRandElements, ProofOptions, TraceInfo,
    TransitionConstraintDegree,
};
use crypto::{ElementHasher, RandomCoin};
use glue::Fld;
use math::{ExtensionOf, FieldElement, ToElements};
use verifier::VerifierError;

use crate::spec::{AKind, AirSpec, Rule};

#[derive(Clone, Debug)]
pub struct SpecPub<B: Fld> {
    pub spec: Arc<AirSpec>,
    /// asserted values, one vector per assertion of the spec
    pub values: Vec<Vec<B>>,
    /// further public-input elements appended to the element encoding (the AIR does not interpret them; they are
    /// part of the statement the coin is seeded with)
    pub extra: Vec<B>,
}

impl<B: Fld> ToElements<B> for SpecPub<B> {
    fn to_elements(&self) -> Vec<B> {
        let mut v: Vec<B> = self.spec.encode().into_iter().map(|x| B::mk(x as u128)).collect();
        for vals in self.values.iter() {
            v.push(B::mk(vals.len() as u128));
            v.extend(vals.iter().cloned());
        }
        v.extend(self.extra.iter().cloned());
        v
    }
}

pub struct SpecAir<B: Fld> {
    context: AirContext<B>,
    spec: Arc<AirSpec>,
    values: Vec<Vec<B>>,
}

/// as in the crate's own Lagrange test the "GKR proof" is log2(trace length); a verifier for a given
/// AIR knows that number and returns exactly that many random elements
#[derive(Debug, Clone, Default)]
pub struct DummyGkrVerifier {
    pub log_n: usize,
}

impl GkrVerifier for DummyGkrVerifier {
    type GkrProof = usize;
    type Error = VerifierError;

    fn verify<E, Hasher>(
        &self,
        gkr_proof: usize,
        public_coin: &mut impl RandomCoin<BaseField = E::BaseField, Hasher = Hasher>,
    ) -> Result<LagrangeKernelRandElements<E>, Self::Error>
    where
        E: FieldElement,
        Hasher: ElementHasher<BaseField = E::BaseField>,
    {
        if gkr_proof != self.log_n {
            return Err(VerifierError::GkrProofVerificationFailed("dummy gkr proof is not log2(trace length)".into()));
        }
        let mut rand_elements = Vec::with_capacity(gkr_proof);
        for _ in 0..gkr_proof {
            rand_elements.push(public_coin.draw().map_err(|_| VerifierError::RandomCoinError)?);
        }
        Ok(LagrangeKernelRandElements::new(rand_elements))
    }
}

/// Project a description onto the trace shape found in a proof (identity for the genuine shape).
pub fn reconcile(spec: &AirSpec, info: &TraceInfo) -> AirSpec {
    use crate::spec::{ASpec, Aux};
    let mut s = spec.clone();
    let w = info.main_trace_width();
    let n = info.length();
    s.n = n;
    // main columns: extra columns follow x' = x + 1, missing ones are dropped; a Fibonacci pair cut in half degrades
    s.rules.resize(w, Rule::Pow { d: 1, c: 1 });
    for i in 0..w {
        let ok = match s.rules[i] {
            Rule::FibA => i + 1 < w && s.rules[i + 1] == Rule::FibB,
            Rule::FibB => i >= 1 && s.rules[i - 1] == Rule::FibA,
            Rule::FibC => i + 1 < w && s.rules[i + 1] == Rule::FibD,
            Rule::FibD => i >= 1 && s.rules[i - 1] == Rule::FibC,
            Rule::Periodic { cycle, .. } => cycle >= 2 && cycle <= n && cycle.is_power_of_two(),
            Rule::Periodic2 { cycle_a, cycle_b } => [cycle_a, cycle_b].iter().all(|c| *c >= 2 && *c <= n && c.is_power_of_two()),
            Rule::Rot { order } => order >= 2 && order <= n && order.is_power_of_two(),
            _ => true,
        };
        if !ok {
            s.rules[i] = Rule::Pow { d: 1, c: 1 };
        }
    }
    // auxiliary segment as the proof describes it
    let aw = info.aux_segment_width();
    let rands = info.get_num_aux_segment_rand_elements();
    s.aux = if aw == 0 {
        Aux::None
    } else if spec.has_lagrange() && aw >= 2 {
        Aux::SumLagrange { cols: aw - 1, rands }
    } else {
        Aux::Sum { cols: aw, rands }
    };
    // assertions that still make sense for this width and length
    let valid = |a: &ASpec| -> bool {
        if a.col >= w {
            return false;
        }
        match a.kind {
            AKind::Single(st) => st < n,
            AKind::Periodic { first, stride } => stride >= 2 && stride.is_power_of_two() && stride <= n && first < stride,
            AKind::Sequence { first, stride } => stride >= 2 && stride.is_power_of_two() && stride < n && first < stride,
        }
    };
    let mut asserts: Vec<ASpec> = vec![];
    // for absurd trace lengths (claimed by a hostile proof) only single-step assertions are kept, so that
    // no step set has to be materialised
    let huge = n > (1 << 16);
    let mut seen_single: Vec<(usize, usize)> = vec![];
    for a in s.asserts.iter().filter(|a| valid(a)) {
        if huge {
            if let AKind::Single(st) = a.kind {
                if !seen_single.contains(&(a.col, st)) {
                    seen_single.push((a.col, st));
                    asserts.push(*a);
                }
            }
            continue;
        }
        // drop assertions that would overlap after the projection
        let steps: Vec<usize> = s.steps_of(a);
        let clash = asserts.iter().any(|b| b.col == a.col && s.steps_of(b).iter().any(|x| steps.contains(x)));
        if !clash {
            asserts.push(*a);
        }
    }
    if asserts.is_empty() {
        asserts.push(ASpec { col: 0, kind: AKind::Single(0) });
    }
    s.asserts = asserts;
    s.exemptions = s.exemptions.clamp(1, n / 2 + 1);
    s
}

pub fn degrees(spec: &AirSpec) -> (Vec<TransitionConstraintDegree>, Vec<TransitionConstraintDegree>) {
    let main = spec
        .rules
        .iter()
        .map(|r| match r {
            Rule::Pow { d, .. } => TransitionConstraintDegree::new((*d as usize).max(1)),
            Rule::Periodic { cycle, .. } => TransitionConstraintDegree::with_cycles(1, vec![*cycle]),
            Rule::Periodic2 { cycle_a, cycle_b } => TransitionConstraintDegree::with_cycles(1, vec![*cycle_a, *cycle_b]),
            _ => TransitionConstraintDegree::new(1),
        })
        .collect();
    let aux = (0..spec.sum_cols()).map(|_| TransitionConstraintDegree::new(spec.aux_pow.max(1) as usize)).collect();
    (main, aux)
}

impl<B: Fld> Air for SpecAir<B> {
    type BaseField = B;
    type PublicInputs = SpecPub<B>;
    type GkrProof = usize;
    type GkrVerifier = DummyGkrVerifier;

    fn new(trace_info: TraceInfo, pub_inputs: SpecPub<B>, options: ProofOptions) -> Self {
        // `Air::new` cannot fail, and the trace info / options come from the (untrusted) proof. A
        // careful AIR therefore reconciles its description with whatever shape it is handed instead of
        // asserting: the description is projected onto the given widths and length. For proofs of
        // the genuine shape this is the identity.
        let spec = Arc::new(reconcile(&pub_inputs.spec, &trace_info));
        let mut values = pub_inputs.values.clone();
        values.resize(spec.asserts.len().max(values.len()), vec![B::ZERO]);
        // keep the values of the assertions that survived, in order
        let mut kept = vec![];
        for a in spec.asserts.iter() {
            let v = pub_inputs.spec.asserts.iter().position(|x| x == a).and_then(|i| pub_inputs.values.get(i).cloned());
            let want = match a.kind {
                AKind::Sequence { stride, .. } => spec.n / stride,
                _ => 1,
            };
            let mut v = v.unwrap_or_default();
            v.resize(want, B::ZERO);
            kept.push(v);
        }
        let (main_deg, aux_deg) = degrees(&spec);
        let context = if trace_info.is_multi_segment() {
            let lag = if spec.has_lagrange() { Some(trace_info.aux_segment_width() - 1) } else { None };
            AirContext::new_multi_segment(trace_info, main_deg, aux_deg, spec.asserts.len(), spec.sum_cols(), lag, options)
        } else {
            AirContext::new(trace_info, main_deg, spec.asserts.len(), options)
        };
        let context = context.set_num_transition_exemptions(spec.exemptions);
        SpecAir { context, spec, values: kept }
    }

    fn context(&self) -> &AirContext<B> {
        &self.context
    }

    fn evaluate_transition<E: FieldElement<BaseField = B>>(&self, frame: &EvaluationFrame<E>, periodic_values: &[E], result: &mut [E]) {
        let cur = frame.current();
        let next = frame.next();
        let mut pk = 0;
        for (i, rule) in self.spec.rules.iter().enumerate() {
            result[i] = match rule {
                Rule::Pow { d, c } => next[i] - (cur[i].exp(((*d).max(1)).into()) + E::from(B::mk(*c as u128))),
                Rule::Periodic { c, .. } => {
                    let k = periodic_values[pk];
                    pk += 1;
                    next[i] - (cur[i] * k + E::from(B::mk(*c as u128)))
                },
                Rule::Periodic2 { .. } => {
                    let (ka, kb) = (periodic_values[pk], periodic_values[pk + 1]);
                    pk += 2;
                    next[i] - (cur[i] * ka + kb)
                },
                Rule::Rot { order } => next[i] - E::from(B::get_root_of_unity(order.ilog2())) * cur[i],
                Rule::FibA => next[i] - cur[i + 1],
                Rule::FibB => next[i] - (cur[i - 1] + cur[i]),
                Rule::FibC => next[i] - (cur[i] + cur[i + 1]),
                Rule::FibD => next[i] - (cur[i] + next[i - 1]),
            };
        }
    }

    fn get_assertions(&self) -> Vec<Assertion<B>> {
        self.spec
            .asserts
            .iter()
            .zip(self.values.iter())
            .map(|(a, v)| match a.kind {
                AKind::Single(s) => Assertion::single(a.col, s, v[0]),
                AKind::Periodic { first, stride } => Assertion::periodic(a.col, first, stride, v[0]),
                AKind::Sequence { first, stride } => Assertion::sequence(a.col, first, stride, v.clone()),
            })
            .collect()
    }

    fn evaluate_aux_transition<F, E>(&self, main_frame: &EvaluationFrame<F>, aux_frame: &EvaluationFrame<E>, _periodic_values: &[F], aux_rand_elements: &[E], result: &mut [E])
    where
        F: FieldElement<BaseField = B>,
        E: FieldElement<BaseField = B> + ExtensionOf<F>,
    {
        let m = main_frame.current();
        let (ac, an) = (aux_frame.current(), aux_frame.next());
        let nr = aux_rand_elements.len();
        for j in 0..self.spec.sum_cols() {
            let mut inc: E = if nr == 0 { E::from(m[0]) } else { aux_rand_elements[j % nr].mul_base(m[0]) };
            if nr >= 2 {
                inc += aux_rand_elements[(j + 1) % nr].mul_base(m[m.len() - 1]);
            }
            result[j] = an[j] - ac[j] - inc.exp((self.spec.aux_pow.max(1) as u64).into());
        }
    }

    fn get_aux_assertions<E: FieldElement<BaseField = B>>(&self, _aux_rand_elements: &[E]) -> Vec<Assertion<E>> {
        (0..self.spec.sum_cols()).map(|j| Assertion::single(j, 0, E::ZERO)).collect()
    }

    fn get_auxiliary_proof_verifier<E: FieldElement<BaseField = B>>(&self) -> DummyGkrVerifier {
        DummyGkrVerifier { log_n: self.context.trace_len().ilog2() as usize }
    }

    fn get_periodic_column_values(&self) -> Vec<Vec<B>> {
        self.spec.periodic_cycles().into_iter().map(|c| (0..c).map(|i| B::mk(i as u128 + 2)).collect()).collect()
    }
}
