//! Recording coin: delegates to DefaultRandomCoin and appends every trait call to a thread-local log.
//! Substituted for the RandomCoin type parameter of the prover and of verify() (C04), and used by
//! adaptive adversaries to learn the query positions (C03).
use std::cell::RefCell;

use crypto::{DefaultRandomCoin, ElementHasher, Hasher, RandomCoin, RandomCoinError};
use math::{FieldElement, StarkField};
use utils::Serializable;

#[derive(Clone, Debug, PartialEq, Eq)]
pub enum Ev {
    /// new(seed): serialized seed elements
    New(Vec<u8>),
    Reseed(Vec<u8>),
    /// draw::<E>(): extension degree and the serialized result (or the error text)
    Draw(usize, Result<Vec<u8>, String>),
    Ints { k: usize, domain: usize, nonce: u64, result: Result<Vec<usize>, String> },
    Lz { value: u64, result: u32 },
}

thread_local! {
    static LOG: RefCell<Vec<Ev>> = const { RefCell::new(Vec::new()) };
}

pub fn take_log() -> Vec<Ev> {
    LOG.with(|l| std::mem::take(&mut *l.borrow_mut()))
}

fn push(e: Ev) {
    LOG.with(|l| l.borrow_mut().push(e));
}

pub struct RecCoin<H: ElementHasher> {
    inner: DefaultRandomCoin<H>,
}

impl<B: StarkField, H: ElementHasher<BaseField = B>> RandomCoin for RecCoin<H> {
    type BaseField = B;
    type Hasher = H;

    fn new(seed: &[B]) -> Self {
        let mut bytes = vec![];
        for e in seed {
            bytes.extend(e.to_bytes());
        }
        push(Ev::New(bytes));
        RecCoin { inner: DefaultRandomCoin::new(seed) }
    }

    fn reseed(&mut self, data: <H as Hasher>::Digest) {
        push(Ev::Reseed(data.to_bytes()));
        self.inner.reseed(data)
    }

    fn check_leading_zeros(&self, value: u64) -> u32 {
        let r = self.inner.check_leading_zeros(value);
        push(Ev::Lz { value, result: r });
        r
    }

    fn draw<E: FieldElement<BaseField = B>>(&mut self) -> Result<E, RandomCoinError> {
        let r = self.inner.draw::<E>();
        push(Ev::Draw(E::EXTENSION_DEGREE, r.as_ref().map(|e| e.to_bytes()).map_err(|e| format!("{:?}", e))));
        r
    }

    fn draw_integers(&mut self, num_values: usize, domain_size: usize, nonce: u64) -> Result<Vec<usize>, RandomCoinError> {
        let r = self.inner.draw_integers(num_values, domain_size, nonce);
        push(Ev::Ints { k: num_values, domain: domain_size, nonce, result: r.clone().map_err(|e| format!("{:?}", e)) });
        r
    }
}

/// Coin of a prover that is not the stock one: identical to `DefaultRandomCoin` except that it does not insist on
/// fewer query positions than domain points (it draws `domain_size - 1` positions when asked for more). Parameters with
/// `num_queries >= lde_domain_size` pass `ProofOptions::new` and `Proof::from_bytes`; the stock prover refuses them
/// only through an assertion inside its coin, so only a prover with its own coin produces a proof whose every
/// commitment and out-of-domain value is consistent under such parameters (C06 seeds).
pub struct LaxCoin<H: ElementHasher> {
    inner: DefaultRandomCoin<H>,
}

impl<B: StarkField, H: ElementHasher<BaseField = B>> RandomCoin for LaxCoin<H> {
    type BaseField = B;
    type Hasher = H;

    fn new(seed: &[B]) -> Self {
        LaxCoin { inner: DefaultRandomCoin::new(seed) }
    }
    fn reseed(&mut self, data: <H as Hasher>::Digest) {
        self.inner.reseed(data)
    }
    fn check_leading_zeros(&self, value: u64) -> u32 {
        self.inner.check_leading_zeros(value)
    }
    fn draw<E: FieldElement<BaseField = B>>(&mut self) -> Result<E, RandomCoinError> {
        self.inner.draw::<E>()
    }
    fn draw_integers(&mut self, num_values: usize, domain_size: usize, nonce: u64) -> Result<Vec<usize>, RandomCoinError> {
        self.inner.draw_integers(num_values.min(domain_size - 1), domain_size, nonce)
    }
}
