//! SpecTrace, SpecProver, trace generation and the reference validity predicate.
use std::marker::PhantomData;
use std::sync::{Arc, Mutex};

use air::{AuxRandElements, ConstraintCompositionCoefficients, EvaluationFrame, LagrangeKernelRandElements, ProofOptions, TraceInfo};
use crypto::{ElementHasher, RandomCoin};
use glue::Fld;
use kit::refmath::{addm, mulm, powm, Ctx, El};
use kit::rng::Rng;
use math::FieldElement;
use prover::matrix::ColMatrix;
use prover::{DefaultConstraintEvaluator, DefaultTraceLde, Prover, ProverGkrProof, StarkDomain, Trace, TracePolyTable};

use crate::air::{SpecAir, SpecPub};
use crate::spec::{AirSpec, Rule, Tail};

// ------------------------------------------------------------------------------------------------
// element <-> reference conversions for arbitrary E (only FieldElement is known inside Prover methods)
// ------------------------------------------------------------------------------------------------

pub fn el_of<B: Fld, E: FieldElement<BaseField = B>>(e: &E) -> El {
    let b = E::slice_as_base_elements(std::slice::from_ref(e));
    let mut out = [0u128; 3];
    for (i, c) in b.iter().enumerate() {
        out[i] = c.int();
    }
    out
}

pub fn of_el<B: Fld, E: FieldElement<BaseField = B>>(e: &El) -> E {
    let b: Vec<B> = (0..E::EXTENSION_DEGREE).map(|i| B::mk(e[i])).collect();
    E::slice_from_base_elements(&b)[0]
}

// ------------------------------------------------------------------------------------------------
// trace generation and reference validity (plain residues, reference arithmetic)
// ------------------------------------------------------------------------------------------------

pub fn periodic_value(step: usize, cycle: usize) -> u128 {
    (step % cycle) as u128 + 2
}

fn rule_next(spec: &AirSpec, p: u128, w_n: &dyn Fn(usize) -> u128, row: &[u128], step: usize, col: usize) -> u128 {
    match spec.rules[col] {
        Rule::Pow { d, c } => addm(powm(row[col], d.max(1) as u128, p), c as u128 % p, p),
        Rule::Periodic { cycle, c } => addm(mulm(row[col], periodic_value(step, cycle), p), c as u128 % p, p),
        Rule::Periodic2 { cycle_a, cycle_b } => addm(mulm(row[col], periodic_value(step, cycle_a), p), periodic_value(step, cycle_b) % p, p),
        Rule::Rot { order } => mulm(row[col], w_n(order), p),
        Rule::FibA => row[col + 1],
        Rule::FibB => addm(row[col - 1], row[col], p),
        Rule::FibC => addm(row[col], row[col + 1], p),
        // b' = b + a' with a' = a + b (only used to GENERATE traces; validity uses the actual next row)
        Rule::FibD => addm(row[col], addm(row[col - 1], row[col], p), p),
    }
}

/// Recomputes column `col` from `from_step` on by its own rule (for rules that read only their own column): the
/// column stays a valid execution of its transition rule, started from whatever value sits at `from_step`.
pub fn regenerate_column<B: Fld>(spec: &AirSpec, cols: &mut [Vec<u128>], col: usize, from_step: usize) -> bool {
    if !matches!(spec.rules[col], Rule::Pow { .. } | Rule::Periodic { .. } | Rule::Periodic2 { .. } | Rule::Rot { .. }) {
        return false;
    }
    let p = B::P;
    let root = |order: usize| glue::root_of_unity::<B>(order.ilog2());
    for step in from_step..spec.n - 1 {
        let row: Vec<u128> = cols.iter().map(|c| c[step]).collect();
        cols[col][step + 1] = rule_next(spec, p, &root, &row, step, col);
    }
    true
}

/// main trace as columns of residues, valid by construction
pub fn gen_main<B: Fld>(spec: &AirSpec, seed: u64) -> Vec<Vec<u128>> {
    let p = B::P;
    let n = spec.n;
    let w = spec.width();
    let root = |order: usize| glue::root_of_unity::<B>(order.ilog2());
    let mut rng = Rng::labelled(seed, "trace");
    let mut rows: Vec<Vec<u128>> = Vec::with_capacity(n);
    let first: Vec<u128> = (0..w)
        .map(|c| match spec.init {
            0 => 0,
            1 => 1,
            2 => p - 1,
            _ => (rng.next_u128() % (p - 2)) + 2 + c as u128 % 3,
        } % p)
        .collect();
    rows.push(first);
    for step in 0..n - 1 {
        let cur = rows[step].clone();
        let exempt = step >= n - spec.exemptions; // transition step -> step+1 is not enforced
        let next: Vec<u128> = (0..w)
            .map(|c| {
                // columns under a periodic assertion keep following their rule (the assertion names
                // steps in the tail as well, and must hold by construction)
                let pinned = spec.asserts.iter().any(|a| a.col == c && matches!(a.kind, crate::spec::AKind::Periodic { .. }));
                if exempt && !pinned {
                    match spec.tail {
                        Tail::Continue => rule_next(spec, p, &root, &cur, step, c),
                        Tail::Zero => 0,
                        Tail::Random => rng.next_u128() % p,
                    }
                } else {
                    rule_next(spec, p, &root, &cur, step, c)
                }
            })
            .collect();
        rows.push(next);
    }
    (0..w).map(|c| rows.iter().map(|r| r[c]).collect()).collect()
}

/// asserted values read off a trace
pub fn assertion_values(spec: &AirSpec, cols: &[Vec<u128>]) -> Vec<Vec<u128>> {
    spec.asserts
        .iter()
        .map(|a| {
            let steps = spec.steps_of(a);
            match a.kind {
                crate::spec::AKind::Sequence { .. } => steps.iter().map(|s| cols[a.col][*s]).collect(),
                _ => vec![cols[a.col][steps[0]]],
            }
        })
        .collect()
}

/// Reference validity predicate for the main segment, written from the definition: every transition
/// constraint on every non-exempt step, every asserted cell.
pub fn main_valid<B: Fld>(spec: &AirSpec, cols: &[Vec<u128>], values: &[Vec<u128>]) -> Result<(), String> {
    let p = B::P;
    let n = spec.n;
    let root = |order: usize| glue::root_of_unity::<B>(order.ilog2());
    for step in 0..n - spec.exemptions {
        let row: Vec<u128> = cols.iter().map(|c| c[step]).collect();
        for c in 0..spec.width() {
            let want = match spec.rules[c] {
                // the constraint as the AIR states it: b' = b + a' with the ACTUAL next value of the first column
                Rule::FibD => addm(row[c], cols[c - 1][step + 1], p),
                _ => rule_next(spec, p, &root, &row, step, c),
            };
            if cols[c][step + 1] != want {
                return Err(format!("transition constraint of column {c} violated at step {step}"));
            }
        }
    }
    for (a, vals) in spec.asserts.iter().zip(values.iter()) {
        for (k, s) in spec.steps_of(a).iter().enumerate() {
            let v = if vals.len() == 1 { vals[0] } else { vals[k] };
            if cols[a.col][*s] != v % p {
                return Err(format!("assertion on column {} violated at step {}", a.col, s));
            }
        }
    }
    Ok(())
}

/// increment of running-sum column j at a step: r_j * main_0 (+ r_{j+1} * main_last when there are >= 2 random elements)
pub fn aux_increment(spec: &AirSpec, ctx: &Ctx, main: &[Vec<u128>], rands: &[El], j: usize, step: usize) -> El {
    let nr = rands.len();
    let last = spec.width() - 1;
    let m0 = main[0][step];
    let ml = main[last][step];
    let mut v = if nr == 0 { [m0, 0, 0] } else { ctx.mul_base(&rands[j % nr], m0) };
    if nr >= 2 {
        v = ctx.add(&v, &ctx.mul_base(&rands[(j + 1) % nr], ml));
    }
    ctx.pow(&v, spec.aux_pow.max(1) as u128)
}

/// honest auxiliary columns (running sums, then the Lagrange kernel column if requested)
pub fn build_aux_cols(spec: &AirSpec, ctx: &Ctx, main: &[Vec<u128>], rands: &[El], lagrange: Option<&[El]>) -> Vec<Vec<El>> {
    let n = spec.n;
    let mut cols: Vec<Vec<El>> = vec![];
    for j in 0..spec.sum_cols() {
        let mut col = vec![Ctx::ZERO; n];
        for step in 0..n - 1 {
            col[step + 1] = ctx.add(&col[step], &aux_increment(spec, ctx, main, rands, j, step));
        }
        cols.push(col);
    }
    if spec.has_lagrange() {
        let r = lagrange.expect("lagrange rand elements");
        let mut col = Vec::with_capacity(n);
        for row in 0..n {
            let mut v = Ctx::ONE;
            for (bit, ri) in r.iter().enumerate() {
                v = if row & (1 << bit) == 0 { ctx.mul(&v, &ctx.sub(&Ctx::ONE, ri)) } else { ctx.mul(&v, ri) };
            }
            col.push(v);
        }
        cols.push(col);
    }
    cols
}

// ------------------------------------------------------------------------------------------------
// trace type
// ------------------------------------------------------------------------------------------------

#[derive(Clone, Debug)]
pub struct SpecTrace<B: Fld> {
    pub main: ColMatrix<B>,
    pub info: TraceInfo,
}

impl<B: Fld> SpecTrace<B> {
    pub fn new(spec: &AirSpec, cols: &[Vec<u128>], meta: Vec<u8>) -> Self {
        let main = ColMatrix::new(cols.iter().map(|c| c.iter().map(|x| B::mk(*x)).collect()).collect());
        let info = if spec.aux_width() > 0 {
            TraceInfo::new_multi_segment(spec.width(), spec.aux_width(), spec.aux_rands(), spec.n, meta)
        } else {
            TraceInfo::with_meta(spec.width(), spec.n, meta)
        };
        SpecTrace { main, info }
    }
}

impl<B: Fld> Trace for SpecTrace<B> {
    type BaseField = B;
    fn info(&self) -> &TraceInfo {
        &self.info
    }
    fn main_segment(&self) -> &ColMatrix<B> {
        &self.main
    }
    fn read_main_frame(&self, row_idx: usize, frame: &mut EvaluationFrame<B>) {
        let next = (row_idx + 1) % self.main.num_rows();
        self.main.read_row_into(row_idx, frame.current_mut());
        self.main.read_row_into(next, frame.next_mut());
    }
}

// ------------------------------------------------------------------------------------------------
// prover
// ------------------------------------------------------------------------------------------------

/// a single-cell corruption of the auxiliary segment: (column, step, delta selector)
#[derive(Clone, Copy, Debug, PartialEq, Eq)]
pub struct AuxCorruption {
    pub col: usize,
    pub step: usize,
    pub delta: u8,
    /// a base-field value to add instead of the delta selected by `delta`
    pub custom: Option<u128>,
}

#[derive(Default, Debug, Clone)]
pub struct AuxReport {
    /// verdict of the reference validity predicate on the (possibly corrupted) auxiliary segment
    pub valid: Option<Result<(), String>>,
}

pub struct SpecProver<B: Fld, H: ElementHasher<BaseField = B>, R: RandomCoin<BaseField = B, Hasher = H>> {
    pub options: ProofOptions,
    pub pub_inputs: SpecPub<B>,
    pub aux_corruption: Option<AuxCorruption>,
    pub report: Arc<Mutex<AuxReport>>,
    _h: PhantomData<(H, R)>,
}

impl<B: Fld, H: ElementHasher<BaseField = B>, R: RandomCoin<BaseField = B, Hasher = H>> SpecProver<B, H, R> {
    pub fn new(options: ProofOptions, pub_inputs: SpecPub<B>) -> Self {
        SpecProver { options, pub_inputs, aux_corruption: None, report: Arc::new(Mutex::new(AuxReport::default())), _h: PhantomData }
    }
}

impl<B, H, R> Prover for SpecProver<B, H, R>
where
    B: Fld,
    H: ElementHasher<BaseField = B> + Sync + Send,
    R: RandomCoin<BaseField = B, Hasher = H> + Send + Sync,
{
    type BaseField = B;
    type Air = SpecAir<B>;
    type Trace = SpecTrace<B>;
    type HashFn = H;
    type RandomCoin = R;
    type TraceLde<E: FieldElement<BaseField = B>> = DefaultTraceLde<E, H>;
    type ConstraintEvaluator<'a, E: FieldElement<BaseField = B>> = DefaultConstraintEvaluator<'a, SpecAir<B>, E>;

    fn get_pub_inputs(&self, _trace: &SpecTrace<B>) -> SpecPub<B> {
        self.pub_inputs.clone()
    }

    fn options(&self) -> &ProofOptions {
        &self.options
    }

    fn new_trace_lde<E: FieldElement<BaseField = B>>(&self, trace_info: &TraceInfo, main_trace: &ColMatrix<B>, domain: &StarkDomain<B>) -> (Self::TraceLde<E>, TracePolyTable<E>) {
        DefaultTraceLde::new(trace_info, main_trace, domain)
    }

    fn new_evaluator<'a, E: FieldElement<BaseField = B>>(
        &self,
        air: &'a SpecAir<B>,
        aux_rand_elements: Option<AuxRandElements<E>>,
        composition_coefficients: ConstraintCompositionCoefficients<E>,
    ) -> Self::ConstraintEvaluator<'a, E> {
        DefaultConstraintEvaluator::new(air, aux_rand_elements, composition_coefficients)
    }

    fn generate_gkr_proof<E: FieldElement<BaseField = B>>(&self, main_trace: &SpecTrace<B>, public_coin: &mut R) -> (ProverGkrProof<Self>, LagrangeKernelRandElements<E>) {
        let log_n = main_trace.main.num_rows().ilog2() as usize;
        let mut r = Vec::with_capacity(log_n);
        for _ in 0..log_n {
            r.push(public_coin.draw().expect("draw"));
        }
        (log_n, LagrangeKernelRandElements::new(r))
    }

    fn build_aux_trace<E: FieldElement<BaseField = B>>(&self, main_trace: &SpecTrace<B>, aux_rand_elements: &AuxRandElements<E>) -> ColMatrix<E> {
        let spec = &self.pub_inputs.spec;
        let ctx = Ctx::ext(B::P, E::EXTENSION_DEGREE);
        let n = spec.n;
        let main = &main_trace.main;
        let rands: Vec<El> = aux_rand_elements.rand_elements().iter().map(|r| el_of::<B, E>(r)).collect();
        let lag: Option<Vec<El>> = aux_rand_elements.lagrange().map(|l| l.iter().map(|x| el_of::<B, E>(x)).collect());
        let main_cols: Vec<Vec<u128>> = (0..main.num_cols()).map(|c| main.get_column(c).iter().map(|x| x.int()).collect()).collect();
        let mut cols = build_aux_cols(spec, &ctx, &main_cols, &rands, lag.as_deref());
        let inc = |j: usize, step: usize| aux_increment(spec, &ctx, &main_cols, &rands, j, step);
        // corruption of one cell
        let mut verdict: Result<(), String> = Ok(());
        if let Some(c) = self.aux_corruption {
            let d: El = match c.delta {
                0 => Ctx::ONE,
                1 => ctx.neg(&Ctx::ONE),
                // 100 + k: the base-field value k-th power of two... not used; 200: minus one times the custom base value
                _ => [0x1234_5678_9ABC % B::P, (E::EXTENSION_DEGREE > 1) as u128, 0],
            };
            let d: El = match c.custom {
                Some(v) => [v % B::P, 0, 0],
                None => d,
            };
            if c.step == usize::MAX {
                // the whole column shifted by a constant: every running-sum transition still holds, only the
                // assertion on the column is violated
                for cell in cols[c.col].iter_mut() {
                    *cell = ctx.add(cell, &d);
                }
            } else {
                cols[c.col][c.step] = ctx.add(&cols[c.col][c.step], &d);
            }
            // reference validity of the corrupted auxiliary segment
            if spec.has_lagrange() && c.col == spec.sum_cols() {
                verdict = Err("Lagrange kernel column changed (every cell of it is determined)".into());
            } else {
                let j = c.col;
                if !ctx.is_zero(&cols[j][0]) {
                    verdict = Err(format!("auxiliary assertion on column {j} violated at step 0"));
                }
                for step in 0..n - spec.exemptions {
                    if cols[j][step + 1] != ctx.add(&cols[j][step], &inc(j, step)) {
                        verdict = Err(format!("auxiliary transition constraint {j} violated at step {step}"));
                        break;
                    }
                }
            }
        }
        self.report.lock().unwrap().valid = Some(verdict);
        ColMatrix::new(cols.iter().map(|c| c.iter().map(|x| of_el::<B, E>(x)).collect()).collect())
    }
}
