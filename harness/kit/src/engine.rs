//! E1 — bounded-exhaustive explorer.
//!
//! A check is a list of *sub-spaces* (`Sub`): each is a finite, indexable case space (`len()`,
//! `run(idx)`), enumerated completely by a pool of detached worker threads. Every case is executed
//! under a watchdog: a case that does not return within the sub's timeout is reported as a
//! violation ("hang"), its worker is abandoned and replaced, and the exploration continues.
//! All counters in the evidence file are incremented here, during the run.
use std::collections::{BTreeMap, HashSet};
use std::sync::atomic::{AtomicBool, AtomicU64, Ordering};
use std::sync::{Arc, Mutex};
use std::time::{Duration, Instant};

use serde_json::{json, Map, Value};

use crate::pan;

#[derive(Clone, Copy, Debug, PartialEq, Eq)]
pub enum Tier {
    Quick,
    Thorough,
}

impl Tier {
    pub fn name(&self) -> &'static str {
        match self {
            Tier::Quick => "quick",
            Tier::Thorough => "thorough",
        }
    }
    pub fn pick<T>(&self, quick: T, thorough: T) -> T {
        match self {
            Tier::Quick => quick,
            Tier::Thorough => thorough,
        }
    }
    pub fn is_thorough(&self) -> bool {
        *self == Tier::Thorough
    }
}

#[derive(Clone, Debug)]
pub struct Args {
    pub prop: String,
    pub tier: Tier,
    pub seed: u64,
    pub replay: Option<String>,
    pub threads: usize,
    pub only: Option<String>,
    pub root: String,
    pub rest: Vec<String>,
}

impl Args {
    pub fn parse() -> Args {
        let mut a = Args {
            prop: String::new(),
            tier: Tier::Quick,
            seed: 1,
            replay: None,
            threads: std::thread::available_parallelism().map(|n| n.get()).unwrap_or(8).min(32),
            only: None,
            root: "/verif".into(),
            rest: vec![],
        };
        let v: Vec<String> = std::env::args().skip(1).collect();
        let mut i = 0;
        while i < v.len() {
            let next = |i: usize| v.get(i + 1).cloned().unwrap_or_else(|| die(&format!("missing value after {}", v[i])));
            match v[i].as_str() {
                "--prop" => {
                    a.prop = next(i);
                    i += 1
                },
                "--tier" => {
                    a.tier = match next(i).as_str() {
                        "quick" => Tier::Quick,
                        "thorough" => Tier::Thorough,
                        t => die(&format!("bad tier {t}")),
                    };
                    i += 1
                },
                "--seed" => {
                    a.seed = next(i).parse().unwrap_or(1);
                    i += 1
                },
                "--replay" => {
                    a.replay = Some(next(i));
                    i += 1
                },
                "--threads" => {
                    a.threads = next(i).parse().unwrap_or(8);
                    i += 1
                },
                "--only" => {
                    a.only = Some(next(i));
                    i += 1
                },
                "--root" => {
                    a.root = next(i);
                    i += 1
                },
                other => a.rest.push(other.to_string()),
            }
            i += 1;
        }
        if a.prop.is_empty() {
            die("--prop <Cnn> is required");
        }
        a
    }
}

pub fn die(msg: &str) -> ! {
    eprintln!("MACHINERY-FAILURE: {msg}");
    std::process::exit(2)
}

/// One finite, indexable case space.
pub trait Sub: Send + Sync + 'static {
    fn name(&self) -> String;
    fn len(&self) -> u64;
    /// Execute case `idx` against the real code and its oracle.
    fn run(&self, idx: u64, out: &mut CaseOut);
    /// Human-readable description of case `idx` (for samples in the evidence).
    fn describe(&self, idx: u64) -> Value {
        json!({ "idx": idx })
    }
    fn timeout_s(&self) -> u64 {
        20
    }
    /// false if this sub is a seed-derived sample of a larger space rather than a complete enumeration
    fn exhaustive(&self) -> bool {
        true
    }
}

#[derive(Default)]
pub struct CaseOut {
    nontrivial: u64,
    evals_extra: u64,
    keys: Vec<u64>,
    classes: Vec<(String, u64)>,
    viols: Vec<(String, Value)>,
    states: u64,
    transitions: u64,
    traces: u64,
}

impl CaseOut {
    /// this case counts as one distinct non-trivial case (distinct by enumeration index)
    pub fn nontrivial(&mut self) {
        self.nontrivial += 1;
    }
    /// the case stands for `n` inner evaluations that are distinct by construction and non-trivial
    pub fn nontrivial_n(&mut self, n: u64) {
        self.nontrivial += n;
    }
    /// the case performed `n` inner evaluations (in addition to the 1 counted per case)
    pub fn evals(&mut self, n: u64) {
        self.evals_extra += n;
    }
    /// semantic key of a non-trivial case; distinctness is then counted over keys, not indices
    pub fn key(&mut self, k: u64) {
        self.keys.push(k);
    }
    pub fn class(&mut self, c: &str) {
        self.class_n(c, 1)
    }
    pub fn class_n(&mut self, c: &str, n: u64) {
        for e in self.classes.iter_mut() {
            if e.0 == c {
                e.1 += n;
                return;
            }
        }
        self.classes.push((c.to_string(), n));
    }
    pub fn violation(&mut self, signature: impl Into<String>, detail: Value) {
        self.viols.push((signature.into(), detail));
    }
    pub fn has_violation(&self) -> bool {
        !self.viols.is_empty()
    }
    pub fn states(&mut self, n: u64) {
        self.states += n
    }
    pub fn transitions(&mut self, n: u64) {
        self.transitions += n
    }
    pub fn traces(&mut self, n: u64) {
        self.traces += n
    }
}

#[derive(Clone)]
struct VRec {
    sub: String,
    idx: u64,
    detail: Value,
    count: u64,
}

#[derive(Default)]
struct Acc {
    evaluations: u64,
    nontrivial: u64,
    keys: HashSet<u64>,
    hist: BTreeMap<String, u64>,
    viols: BTreeMap<String, VRec>,
    states: u64,
    transitions: u64,
    traces: u64,
}

impl Acc {
    fn absorb_case(&mut self, sub: &str, idx: u64, out: CaseOut) {
        self.evaluations += 1 + out.evals_extra;
        self.nontrivial += out.nontrivial;
        for k in out.keys {
            self.keys.insert(k);
        }
        for (c, n) in out.classes {
            *self.hist.entry(c).or_insert(0) += n;
        }
        self.states += out.states;
        self.transitions += out.transitions;
        self.traces += out.traces;
        for (sig, detail) in out.viols {
            let e = self.viols.entry(sig).or_insert_with(|| VRec { sub: sub.to_string(), idx, detail: detail.clone(), count: 0 });
            e.count += 1;
            if idx < e.idx {
                e.idx = idx;
                e.detail = detail;
            }
        }
    }
    fn merge(&mut self, o: Acc) {
        self.evaluations += o.evaluations;
        self.nontrivial += o.nontrivial;
        self.keys.extend(o.keys);
        for (c, n) in o.hist {
            *self.hist.entry(c).or_insert(0) += n;
        }
        self.states += o.states;
        self.transitions += o.transitions;
        self.traces += o.traces;
        for (sig, v) in o.viols {
            match self.viols.get_mut(&sig) {
                None => {
                    self.viols.insert(sig, v);
                },
                Some(e) => {
                    e.count += v.count;
                    if v.idx < e.idx || (v.sub < e.sub) {
                        e.idx = v.idx;
                        e.detail = v.detail;
                        e.sub = v.sub;
                    }
                },
            }
        }
    }
}

struct Known {
    property: String,
    signature: String,
    what: String,
}

pub struct Run {
    pub args: Args,
    start: Instant,
    level: Mutex<String>,
    total: Mutex<Acc>,
    subs: Mutex<Vec<Value>>,
    samples: Mutex<Vec<Value>>,
    rules: Mutex<Vec<String>>,
    assumptions: Mutex<Vec<String>>,
    notes: Mutex<Map<String, Value>>,
    exhaustive: AtomicBool,
    machinery: Mutex<Vec<String>>,
    known: Vec<Known>,
    pub deadline: Mutex<Option<Instant>>,
}

struct Slot {
    idx: AtomicU64,
    started_ms: AtomicU64,
    lost: AtomicBool,
    done: AtomicBool,
}

impl Run {
    pub fn new(args: Args, level: &str) -> Arc<Run> {
        pan::install();
        let known = load_known(&args.root);
        Arc::new(Run {
            args,
            start: Instant::now(),
            level: Mutex::new(level.to_string()),
            total: Mutex::new(Acc::default()),
            subs: Mutex::new(vec![]),
            samples: Mutex::new(vec![]),
            rules: Mutex::new(vec![]),
            assumptions: Mutex::new(vec![]),
            notes: Mutex::new(Map::new()),
            exhaustive: AtomicBool::new(true),
            machinery: Mutex::new(vec![]),
            known,
            deadline: Mutex::new(None),
        })
    }

    pub fn tier(&self) -> Tier {
        self.args.tier
    }
    pub fn seed(&self) -> u64 {
        self.args.seed
    }
    pub fn rule(&self, s: &str) {
        self.rules.lock().unwrap().push(s.to_string());
    }
    pub fn assume(&self, s: &str) {
        self.assumptions.lock().unwrap().push(s.to_string());
    }
    pub fn note(&self, k: &str, v: Value) {
        self.notes.lock().unwrap().insert(k.to_string(), v);
    }
    pub fn sample(&self, v: Value) {
        let mut s = self.samples.lock().unwrap();
        if s.len() < 40 {
            s.push(v);
        }
    }
    pub fn not_exhaustive(&self, why: &str) {
        self.exhaustive.store(false, Ordering::SeqCst);
        self.note("not_exhaustive_because", json!(why));
    }
    /// vacuity guard: a failed requirement is a machinery failure (exit 2), never a verdict
    pub fn require(&self, cond: bool, msg: &str) {
        // vacuity guards are about full runs, not about the replay of one case
        if !cond && self.args.replay.is_none() {
            self.machinery.lock().unwrap().push(msg.to_string());
        }
    }
    pub fn elapsed_s(&self) -> f64 {
        self.start.elapsed().as_secs_f64()
    }
    pub fn set_wall_cap(&self, secs: u64) {
        *self.deadline.lock().unwrap() = Some(self.start + Duration::from_secs(secs));
    }
    /// Add counters measured outside `explore` (e.g. by a stateright checker).
    pub fn add_counts(&self, evaluations: u64, nontrivial: u64, states: u64, transitions: u64, traces: u64) {
        let mut t = self.total.lock().unwrap();
        t.evaluations += evaluations;
        t.nontrivial += nontrivial;
        t.states += states;
        t.transitions += transitions;
        t.traces += traces;
    }
    pub fn replay_requested(&self) -> bool {
        self.args.replay.is_some()
    }
    /// number of cases recorded so far under class `c` (for vacuity guards)
    pub fn class_total(&self, c: &str) -> u64 {
        self.total.lock().unwrap().hist.get(c).copied().unwrap_or(0)
    }
    pub fn add_class(&self, c: &str, n: u64) {
        *self.total.lock().unwrap().hist.entry(c.to_string()).or_insert(0) += n;
    }
    pub fn add_violation(&self, sub: &str, idx: u64, signature: &str, detail: Value) {
        let mut a = Acc::default();
        let mut o = CaseOut::default();
        o.violation(signature, detail);
        a.absorb_case(sub, idx, o);
        a.evaluations = 0;
        self.total.lock().unwrap().merge(a);
    }
    pub fn add_sub_record(&self, v: Value) {
        self.subs.lock().unwrap().push(v);
    }

    fn selected(&self, name: &str) -> bool {
        match &self.args.only {
            None => true,
            Some(p) => name.starts_with(p.as_str()),
        }
    }

    /// Explore one sub-space completely (all indices 0..len).
    pub fn explore(self: &Arc<Self>, sub: Arc<dyn Sub>) {
        let name = sub.name();
        if !self.selected(&name) {
            return;
        }
        let len = sub.len();
        let t0 = Instant::now();
        let nthreads = self.args.threads.max(1).min(len.max(1) as usize);
        let chunk = (len / (nthreads as u64 * 48)).clamp(1, 2048);
        let next = Arc::new(AtomicU64::new(0));
        let acc = Arc::new(Mutex::new(Acc::default()));
        let stop = Arc::new(AtomicBool::new(false));
        let timeout_ms = sub.timeout_s() * 1000;
        let deadline = *self.deadline.lock().unwrap();

        let spawn = |slots: &mut Vec<Arc<Slot>>| {
            let slot = Arc::new(Slot {
                idx: AtomicU64::new(u64::MAX),
                started_ms: AtomicU64::new(0),
                lost: AtomicBool::new(false),
                done: AtomicBool::new(false),
            });
            slots.push(slot.clone());
            let (sub, next, acc, stop, name) = (sub.clone(), next.clone(), acc.clone(), stop.clone(), name.clone());
            std::thread::Builder::new()
                .stack_size(64 << 20)
                .spawn(move || {
                    loop {
                        if stop.load(Ordering::Relaxed) || slot.lost.load(Ordering::Relaxed) {
                            break;
                        }
                        let lo = next.fetch_add(chunk, Ordering::SeqCst);
                        if lo >= len {
                            break;
                        }
                        let hi = (lo + chunk).min(len);
                        let mut local = Acc::default();
                        for idx in lo..hi {
                            slot.started_ms.store(t0.elapsed().as_millis() as u64, Ordering::SeqCst);
                            slot.idx.store(idx, Ordering::SeqCst);
                            let mut out = CaseOut::default();
                            if let Err(p) = pan::catch(|| sub.run(idx, &mut out)) {
                                out.violation(
                                    format!("uncaught panic in {}: {}", name.split('/').next().unwrap_or(&name), p.class()),
                                    json!({"panic": p.msg, "at": format!("{}:{}", p.file, p.line)}),
                                );
                            }
                            slot.idx.store(u64::MAX, Ordering::SeqCst);
                            if slot.lost.load(Ordering::SeqCst) {
                                return; // the watchdog already reported this case and replaced us
                            }
                            if !out.viols.is_empty() {
                                // the description of the case travels with the violation (replay of BFS states
                                // rebuilds the state from it)
                                let case = pan::catch(|| sub.describe(idx)).unwrap_or(Value::Null);
                                for (_, d) in out.viols.iter_mut() {
                                    if let Some(o) = d.as_object_mut() {
                                        o.entry("_case").or_insert(case.clone());
                                    }
                                }
                            }
                            local.absorb_case(&name, idx, out);
                        }
                        acc.lock().unwrap().merge(local);
                    }
                    slot.done.store(true, Ordering::SeqCst);
                })
                .expect("spawn worker");
        };

        let mut slots: Vec<Arc<Slot>> = vec![];
        for _ in 0..nthreads {
            spawn(&mut slots);
        }
        let mut hangs = 0u64;
        let mut capped = false;
        loop {
            std::thread::sleep(Duration::from_millis(5));
            let now_ms = t0.elapsed().as_millis() as u64;
            let mut live = 0;
            let mut respawn = 0;
            for s in slots.iter() {
                if s.done.load(Ordering::SeqCst) || s.lost.load(Ordering::SeqCst) {
                    continue;
                }
                let idx = s.idx.load(Ordering::SeqCst);
                if idx != u64::MAX && now_ms.saturating_sub(s.started_ms.load(Ordering::SeqCst)) > timeout_ms {
                    // re-read to avoid racing with a case switch
                    if s.idx.load(Ordering::SeqCst) == idx {
                        s.lost.store(true, Ordering::SeqCst);
                        hangs += 1;
                        let mut a = Acc::default();
                        let mut o = CaseOut::default();
                        o.violation(
                            format!("hang in {}", name),
                            json!({"timeout_s": sub.timeout_s(), "case": sub.describe(idx)}),
                        );
                        a.absorb_case(&name, idx, o);
                        acc.lock().unwrap().merge(a);
                        if hangs <= 8 {
                            respawn += 1;
                        }
                        continue;
                    }
                }
                live += 1;
            }
            for _ in 0..respawn {
                spawn(&mut slots);
                live += 1;
            }
            if let Some(d) = deadline {
                if Instant::now() > d && !capped {
                    capped = true;
                    stop.store(true, Ordering::SeqCst);
                }
            }
            if live == 0 {
                break;
            }
        }
        let reached = next.load(Ordering::SeqCst).min(len);
        let complete = !capped && hangs <= 8;
        if !complete || !sub.exhaustive() {
            self.exhaustive.store(false, Ordering::SeqCst);
        }
        let a = std::mem::take(&mut *acc.lock().unwrap());
        let distinct = if a.keys.is_empty() { a.nontrivial } else { a.keys.len() as u64 };
        let rec = json!({
            "sub": name, "cases": len, "cases_started": reached, "completed": complete,
            "enumeration_complete_for_declared_space": sub.exhaustive(),
            "evaluations": a.evaluations, "distinct_nontrivial": distinct,
            "violating_cases": a.viols.values().map(|v| v.count).sum::<u64>(),
            "hangs": hangs, "wall_s": t0.elapsed().as_secs_f64(),
        });
        self.subs.lock().unwrap().push(rec);
        // samples: first, middle, last case
        if len > 0 {
            let mut s = self.samples.lock().unwrap();
            if s.len() < 40 {
                for idx in [0, len / 2, len - 1] {
                    if let Ok(d) = pan::catch(|| sub.describe(idx)) {
                        s.push(json!({"sub": sub.name(), "case": d}));
                    }
                }
            }
        }
        let mut t = self.total.lock().unwrap();
        let mut a = a;
        // distinctness by key is per sub: fold into a number before merging
        a.nontrivial = distinct;
        a.keys.clear();
        t.merge(a);
    }

    /// Re-execute one recorded case twice; returns the violation signatures seen (identical both times or exit 2).
    pub fn replay(self: &Arc<Self>, subs: &[Arc<dyn Sub>], path: &str) -> ! {
        self.try_replay(subs, path);
        die("the replay file names a level of a breadth-first search that this binary did not reach")
    }

    /// Replays a case of an indexable sub-space and exits; returns only when the file names a level of a
    /// breadth-first search (those are replayed by `bfs_r`, from the recorded state description).
    pub fn try_replay(self: &Arc<Self>, subs: &[Arc<dyn Sub>], path: &str) {
        let txt = std::fs::read_to_string(path).unwrap_or_else(|e| die(&format!("cannot read replay file {path}: {e}")));
        let v: Value = serde_json::from_str(&txt).unwrap_or_else(|e| die(&format!("bad replay file: {e}")));
        let name = v["sub"].as_str().unwrap_or("");
        let idx = v["idx"].as_u64().unwrap_or(0);
        let found = subs.iter().find(|s| s.name() == name);
        if found.is_none() && name.rsplit('/').next().map(|l| l.starts_with("depth")).unwrap_or(false) {
            return;
        }
        let sub = found.unwrap_or_else(|| die(&format!("no sub-space named {name} in this tier/seed (replay with the tier and seed recorded in the file)")));
        let mut seen: Vec<Vec<String>> = vec![];
        for _ in 0..2 {
            let (tx, rx) = std::sync::mpsc::channel();
            let s2 = sub.clone();
            std::thread::Builder::new().stack_size(64 << 20).spawn(move || {
                let mut out = CaseOut::default();
                if let Err(p) = pan::catch(|| s2.run(idx, &mut out)) {
                    out.violation(format!("uncaught panic in {}: {}", s2.name().split('/').next().unwrap_or(""), p.class()), json!({}));
                }
                let _ = tx.send(out.viols);
            }).unwrap();
            match rx.recv_timeout(Duration::from_secs(sub.timeout_s())) {
                Ok(vs) => {
                    for (s, d) in vs.iter() {
                        println!("replay: {} :: {}", s, d);
                    }
                    seen.push(vs.into_iter().map(|x| x.0).collect())
                },
                Err(_) => seen.push(vec![format!("hang in {}", name)]),
            }
        }
        if seen[0] != seen[1] {
            die("replay observed two different outcomes for the same case (uncontrolled nondeterminism)");
        }
        println!("replay case: {}", sub.describe(idx));
        if seen[0].is_empty() {
            println!("replay: no violation for {} idx {}", name, idx);
            std::process::exit(0);
        }
        let mut unknown = false;
        for s in seen[0].iter() {
            if let Some(k) = self.match_known(s) {
                println!("KNOWN-FINDING: property={} {}", self.args.prop, k);
            } else {
                unknown = true;
                println!("VIOLATION property={} replay={}", self.args.prop, path);
            }
        }
        std::process::exit(if unknown { 1 } else { 0 })
    }

    fn match_known(&self, sig: &str) -> Option<String> {
        self.known.iter().find(|k| k.property == self.args.prop && k.signature == sig).map(|k| k.what.clone())
    }

    /// Write evidence, print verdict lines, exit.
    pub fn finish(self: &Arc<Self>) -> ! {
        if self.args.replay.is_some() {
            die("the replay file names no case that this binary can rebuild (violations reported outside an indexable sub-space or search level carry their inputs in the detail)");
        }
        let t = std::mem::take(&mut *self.total.lock().unwrap());
        let prop = self.args.prop.clone();
        let root = self.args.root.clone();
        let mut unknown = 0u64;
        let mut known_hits = vec![];
        let mut viol_summ = vec![];
        let dir = format!("{root}/replays/{prop}");
        for (sig, v) in t.viols.iter() {
            let rec = json!({
                "property": prop, "sub": v.sub, "idx": v.idx, "tier": self.args.tier.name(), "seed": self.args.seed,
                "signature": sig, "occurrences": v.count, "detail": v.detail,
            });
            if let Some(what) = self.match_known(sig) {
                println!("KNOWN-FINDING: property={} {} [{} case(s)]", prop, what, v.count);
                known_hits.push(json!({"signature": sig, "cases": v.count}));
            } else {
                unknown += 1;
                if unknown <= 40 {
                    let _ = std::fs::create_dir_all(&dir);
                    let path = format!("{dir}/{:016x}.json", crate::fnv(sig.as_bytes()));
                    let _ = std::fs::write(&path, serde_json::to_string_pretty(&rec).unwrap());
                    println!("VIOLATION property={} replay={}", prop, path);
                    println!("  signature: {}", sig);
                    println!("  first case: {} idx {} ({} case(s)); detail: {}", v.sub, v.idx, v.count, trunc(&v.detail.to_string(), 600));
                }
                viol_summ.push(json!({"signature": sig, "cases": v.count, "first": {"sub": v.sub, "idx": v.idx}}));
            }
        }
        let machinery = self.machinery.lock().unwrap().clone();
        let level = self.level.lock().unwrap().clone();
        let mut cov = Map::new();
        cov.insert("evaluations".into(), json!(t.evaluations));
        cov.insert("distinct_nontrivial".into(), json!(t.nontrivial));
        cov.insert("rule".into(), json!(self.rules.lock().unwrap().join(" | ")));
        cov.insert("samples".into(), json!(*self.samples.lock().unwrap()));
        cov.insert("exhaustive".into(), json!(self.exhaustive.load(Ordering::SeqCst)));
        if t.states > 0 || level == "model_checking" {
            cov.insert("states".into(), json!(t.states));
            cov.insert("transitions".into(), json!(t.transitions));
            cov.insert("traces_validated_against_impl".into(), json!(t.traces));
        }
        cov.insert("outcomes_histogram".into(), json!(t.hist));
        cov.insert("sub_spaces".into(), json!(*self.subs.lock().unwrap()));
        cov.insert("known_findings_observed".into(), json!(known_hits));
        cov.insert("unlisted_violations".into(), json!(viol_summ));
        for (k, v) in self.notes.lock().unwrap().iter() {
            cov.insert(k.clone(), v.clone());
        }
        let ev = json!({
            "property_id": prop, "tier": self.args.tier.name(), "seed": self.args.seed, "level": level,
            "coverage": Value::Object(cov),
            "assumptions": *self.assumptions.lock().unwrap(),
            "wall_s": self.start.elapsed().as_secs_f64(),
            "violations": unknown,
            "machinery_failures": machinery,
        });
        let _ = std::fs::create_dir_all(format!("{root}/evidence"));
        let path = format!("{root}/evidence/{prop}.json");
        if let Err(e) = std::fs::write(&path, serde_json::to_string_pretty(&ev).unwrap()) {
            die(&format!("cannot write evidence {path}: {e}"));
        }
        println!(
            "{} {}: evaluations={} distinct_nontrivial={} states={} transitions={} unlisted_violations={} known_findings={} wall={:.1}s",
            prop, self.args.tier.name(), t.evaluations, t.nontrivial, t.states, t.transitions, unknown, known_hits.len(),
            self.start.elapsed().as_secs_f64()
        );
        if unknown > 0 {
            std::process::exit(1);
        }
        if !machinery.is_empty() {
            for m in machinery {
                eprintln!("MACHINERY-FAILURE: {m}");
            }
            std::process::exit(2);
        }
        if t.evaluations < 1 || t.nontrivial < 2 {
            die("vacuous run: fewer than 2 distinct non-trivial cases");
        }
        std::process::exit(0)
    }
}

fn trunc(s: &str, n: usize) -> String {
    if s.len() <= n {
        s.to_string()
    } else {
        let mut e = n;
        while !s.is_char_boundary(e) {
            e -= 1;
        }
        format!("{}…", &s[..e])
    }
}

/// known_findings.txt: lines
///   known: property=Cnn signature=<exact signature> :: <what fails>
///   fixed: property=Cnn <commit> <what failed>          (suppresses nothing)
fn load_known(root: &str) -> Vec<Known> {
    let mut out = vec![];
    let txt = std::fs::read_to_string(format!("{root}/known_findings.txt")).unwrap_or_default();
    for line in txt.lines() {
        let line = line.trim();
        if let Some(rest) = line.strip_prefix("known:") {
            let rest = rest.trim();
            let (head, what) = match rest.split_once(" :: ") {
                Some((h, w)) => (h, w.to_string()),
                None => (rest, String::new()),
            };
            if let Some(p) = head.strip_prefix("property=") {
                if let Some((prop, sig)) = p.split_once(" signature=") {
                    let what = if what.is_empty() { sig.to_string() } else { what };
                    out.push(Known { property: prop.trim().to_string(), signature: sig.trim().to_string(), what });
                }
            }
        }
    }
    out
}

/// Helper: a `Sub` from closures.
pub struct FnSub<F, D> {
    pub name: String,
    pub len: u64,
    pub f: F,
    pub d: D,
    pub timeout: u64,
    pub exhaustive: bool,
}

impl<F, D> Sub for FnSub<F, D>
where
    F: Fn(u64, &mut CaseOut) + Send + Sync + 'static,
    D: Fn(u64) -> Value + Send + Sync + 'static,
{
    fn name(&self) -> String {
        self.name.clone()
    }
    fn len(&self) -> u64 {
        self.len
    }
    fn run(&self, idx: u64, out: &mut CaseOut) {
        (self.f)(idx, out)
    }
    fn describe(&self, idx: u64) -> Value {
        (self.d)(idx)
    }
    fn timeout_s(&self) -> u64 {
        self.timeout
    }
    fn exhaustive(&self) -> bool {
        self.exhaustive
    }
}

pub fn sub<F, D>(name: &str, len: u64, f: F, d: D) -> Arc<dyn Sub>
where
    F: Fn(u64, &mut CaseOut) + Send + Sync + 'static,
    D: Fn(u64) -> Value + Send + Sync + 'static,
{
    Arc::new(FnSub { name: name.to_string(), len, f, d, timeout: 20, exhaustive: true })
}

pub fn sub_t<F, D>(name: &str, len: u64, timeout: u64, exhaustive: bool, f: F, d: D) -> Arc<dyn Sub>
where
    F: Fn(u64, &mut CaseOut) + Send + Sync + 'static,
    D: Fn(u64) -> Value + Send + Sync + 'static,
{
    Arc::new(FnSub { name: name.to_string(), len, f, d, timeout, exhaustive })
}

// ------------------------------------------------------------------------------------------------
// E2 — explicit-state search on top of the same worker pool (level-synchronous BFS).
//
// A state is whatever the caller needs to rebuild the real object (typically the operation history
// or a raw representation); `key` is the canonical form used for de-duplication (the caller states
// why equal keys imply equal futures). Each BFS level is explored as one `Sub`, so transitions that
// do not terminate are caught by the watchdog and reported instead of hanging the checker.
// ------------------------------------------------------------------------------------------------

pub struct BfsStats {
    pub states: u64,
    pub transitions: u64,
    pub depth_completed: usize,
    pub frontier_sizes: Vec<usize>,
}

pub fn bfs<S, K, F, KF, DF>(run: &Arc<Run>, name: &str, init: Vec<S>, max_depth: usize, max_states: usize, timeout_s: u64, step: F, key: KF, describe: DF) -> BfsStats
where
    S: Clone + Send + Sync + 'static,
    K: std::hash::Hash + Eq + Send + 'static,
    F: Fn(&S, bool, &mut CaseOut) -> Vec<S> + Send + Sync + 'static,
    KF: Fn(&S) -> K + Send + Sync + 'static,
    DF: Fn(&S) -> Value + Send + Sync + 'static,
{
    bfs_r(run, name, init, max_depth, max_states, timeout_s, step, key, describe, |_| None)
}

/// `bfs` with replay support: `decode` rebuilds a state from the value `describe` produced for it. With
/// `--replay <file>` naming a level of this search, the recorded state is rebuilt and its step is executed
/// twice without the explorer (the order of a BFS frontier depends on the workers, so the index alone does
/// not identify a state - its description does).
pub fn bfs_r<S, K, F, KF, DF, RF>(
    run: &Arc<Run>,
    name: &str,
    init: Vec<S>,
    max_depth: usize,
    max_states: usize,
    timeout_s: u64,
    step: F,
    key: KF,
    describe: DF,
    decode: RF,
) -> BfsStats
where
    S: Clone + Send + Sync + 'static,
    K: std::hash::Hash + Eq + Send + 'static,
    F: Fn(&S, bool, &mut CaseOut) -> Vec<S> + Send + Sync + 'static,
    KF: Fn(&S) -> K + Send + Sync + 'static,
    DF: Fn(&S) -> Value + Send + Sync + 'static,
    RF: Fn(&Value) -> Option<S>,
{
    if let Some(path) = run.args.replay.clone() {
        let txt = std::fs::read_to_string(&path).unwrap_or_else(|e| die(&format!("cannot read replay file {path}: {e}")));
        let v: Value = serde_json::from_str(&txt).unwrap_or_else(|e| die(&format!("bad replay file: {e}")));
        let sub = v["sub"].as_str().unwrap_or("").to_string();
        if let Some(rest) = sub.strip_prefix(&format!("{name}/depth")) {
            let depth: usize = rest.parse().unwrap_or(0);
            let st = decode(&v["detail"]["_case"]).unwrap_or_else(|| die("the replay file does not carry a state description this search can rebuild"));
            let mut seen: Vec<Vec<String>> = vec![];
            for _ in 0..2 {
                let mut out = CaseOut::default();
                if let Err(p) = pan::catch(|| step(&st, depth < max_depth, &mut out)) {
                    out.violation(format!("uncaught panic in {}: {}", name, p.class()), json!({}));
                }
                for (s, d) in out.viols.iter() {
                    println!("replay: {} :: {}", s, d);
                }
                seen.push(out.viols.into_iter().map(|x| x.0).collect());
            }
            if seen[0] != seen[1] {
                die("replay observed two different outcomes for the same state (uncontrolled nondeterminism)");
            }
            println!("replay state: {}", describe(&st));
            if seen[0].is_empty() {
                println!("replay: no violation for the recorded state of {}", sub);
                std::process::exit(0);
            }
            let mut unknown = false;
            for s in seen[0].iter() {
                if let Some(k) = run.match_known(s) {
                    println!("KNOWN-FINDING: property={} {}", run.args.prop, k);
                } else {
                    unknown = true;
                    println!("VIOLATION property={} replay={}", run.args.prop, path);
                }
            }
            std::process::exit(if unknown { 1 } else { 0 });
        }
        // a replay that names another search: nothing to do here
        return BfsStats { states: 0, transitions: 0, depth_completed: 0, frontier_sizes: vec![] };
    }
    let step = Arc::new(step);
    let describe = Arc::new(describe);
    let mut seen: HashSet<K> = HashSet::new();
    let mut frontier: Vec<S> = vec![];
    for s in init {
        if seen.insert(key(&s)) {
            frontier.push(s);
        }
    }
    let mut stats = BfsStats { states: seen.len() as u64, transitions: 0, depth_completed: 0, frontier_sizes: vec![frontier.len()] };
    // levels 0..max_depth-1 are expanded; the states of level max_depth are checked but not expanded
    for depth in 0..=max_depth {
        if frontier.is_empty() {
            run.note(&format!("bfs:{name}:fixpoint"), json!(format!("no new state after depth {}: the reachable set is closed", depth.saturating_sub(1))));
            break;
        }
        let expand = depth < max_depth;
        let fr = Arc::new(std::mem::take(&mut frontier));
        let next: Arc<Mutex<Vec<S>>> = Arc::new(Mutex::new(vec![]));
        let (fr2, next2, step2, fr3, desc2) = (fr.clone(), next.clone(), step.clone(), fr.clone(), describe.clone());
        let before = run.subs.lock().unwrap().len();
        run.explore(sub_t(
            &format!("{name}/depth{}", depth),
            fr.len() as u64,
            timeout_s,
            true,
            move |idx, out| {
                let succ = step2(&fr2[idx as usize], expand, out);
                out.transitions(succ.len() as u64);
                if !succ.is_empty() {
                    next2.lock().unwrap().extend(succ);
                }
            },
            move |idx| desc2(&fr3[idx as usize]),
        ));
        // a level that was cut short by the wall cap is not a completed bound
        let completed = run.subs.lock().unwrap().get(before).map(|r| r["completed"].as_bool().unwrap_or(false)).unwrap_or(false);
        let cands = std::mem::take(&mut *next.lock().unwrap());
        stats.transitions += cands.len() as u64;
        for s in cands {
            if seen.len() >= max_states {
                run.not_exhaustive(&format!("{name}: state cap {max_states} reached at depth {}", depth + 1));
                break;
            }
            if seen.insert(key(&s)) {
                frontier.push(s);
            }
        }
        if !completed {
            break;
        }
        stats.depth_completed = depth;
        if !expand {
            break;
        }
        stats.states = seen.len() as u64;
        stats.frontier_sizes.push(frontier.len());
        if seen.len() >= max_states {
            break;
        }
    }
    stats.states = seen.len() as u64;
    run.add_counts(0, 0, stats.states, 0, 0);
    run.note(
        &format!("bfs:{name}"),
        json!({"states": stats.states, "transitions": stats.transitions, "depth_completed": stats.depth_completed, "new_states_per_depth": stats.frontier_sizes}),
    );
    stats
}

impl Run {
    /// Standard main: replay one case, or explore all sub-spaces and finish.
    pub fn go(self: &Arc<Self>, subs: Vec<Arc<dyn Sub>>) -> ! {
        if let Some(p) = self.args.replay.clone() {
            self.replay(&subs, &p);
        }
        for s in subs {
            self.explore(s);
        }
        self.finish()
    }
}
