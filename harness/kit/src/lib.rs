//! Shared machinery of the winterfell model-checking harness.
//!
//! * `engine`  — the bounded-exhaustive explorer (E1): indexable case spaces explored completely by a
//!               pool of detached workers under a per-case watchdog, evidence writer, known-findings
//!               matching, replay.
//! * `pan`     — panic capture (message + location) for oracles that must see "returned" vs "panicked".
//! * `rng`     — the one PRNG used for the seed-derived members of alphabets.
//! * `refmath` — reference arithmetic (prime fields, extensions, polynomials) sharing no code with /repo.
pub mod alloc;
pub mod engine;
pub mod pan;
pub mod refmath;
pub mod rng;

pub use engine::{Args, CaseOut, Run, Sub, Tier};
pub use serde_json;
pub use serde_json::{json, Value};

pub fn hex(bytes: &[u8]) -> String {
    let mut s = String::with_capacity(bytes.len() * 2);
    for b in bytes {
        s.push_str(&format!("{:02x}", b));
    }
    s
}

pub fn unhex(s: &str) -> Vec<u8> {
    (0..s.len() / 2).map(|i| u8::from_str_radix(&s[2 * i..2 * i + 2], 16).unwrap()).collect()
}

/// FNV-1a, used for state keys and distinctness counting (not for anything adversarial).
pub fn fnv(bytes: &[u8]) -> u64 {
    let mut h: u64 = 0xcbf29ce484222325;
    for b in bytes {
        h ^= *b as u64;
        h = h.wrapping_mul(0x100000001b3);
    }
    h
}

pub fn serde_map() -> serde_json::Map<String, Value> {
    serde_json::Map::new()
}
