//! Reference arithmetic written from the definitions; shares no code with /repo.
//!
//! Base-field residues are `u128` in [0,p). Multiplication modulo the 128-bit prime goes through
//! `num-bigint`; for the 62/64-bit primes the native `u128` product is exact. Extension elements are
//! `[u128; 3]` coefficient vectors (low degree first; unused coefficients are zero) reduced by the
//! rule x^deg = red[0] + red[1] x + red[2] x^2, taken from the documented irreducible polynomials.
use num_bigint::BigUint;

pub const P62: u128 = 4611624995532046337; // 2^62 - 111*2^39 + 1
pub const P64: u128 = 0xFFFF_FFFF_0000_0001; // 2^64 - 2^32 + 1
pub const P128: u128 = 340282366920938463463374557953744961537; // 2^128 - 45*2^40 + 1

pub type El = [u128; 3];

#[derive(Clone, Copy, Debug, PartialEq, Eq)]
pub struct Ctx {
    pub p: u128,
    pub deg: usize,
    /// x^deg = red[0] + red[1]*x + red[2]*x^2 (coefficients as residues)
    pub red: [u128; 3],
}

pub fn addm(a: u128, b: u128, p: u128) -> u128 {
    // a,b < p <= 2^128-1: use checked arithmetic
    let (s, o) = a.overflowing_add(b);
    if o || s >= p {
        s.wrapping_sub(p)
    } else {
        s
    }
}

pub fn subm(a: u128, b: u128, p: u128) -> u128 {
    if a >= b {
        a - b
    } else {
        p - (b - a)
    }
}

pub fn negm(a: u128, p: u128) -> u128 {
    if a == 0 {
        0
    } else {
        p - a
    }
}

pub fn mulm(a: u128, b: u128, p: u128) -> u128 {
    if p < (1u128 << 64) {
        (a % p) * (b % p) % p
    } else if p == P128 && fast128_ok() {
        mulm128_fast(a, b)
    } else {
        mulm_big(a, b, p)
    }
}

/// arbitrary-precision product and remainder (the definition)
pub fn mulm_big(a: u128, b: u128, p: u128) -> u128 {
    let r = (BigUint::from(a) * BigUint::from(b)) % BigUint::from(p);
    let d = r.to_u64_digits();
    let lo = *d.first().unwrap_or(&0) as u128;
    let hi = *d.get(1).unwrap_or(&0) as u128;
    (hi << 64) | lo
}

fn mul_wide(a: u128, b: u128) -> (u128, u128) {
    let (a1, a0) = (a >> 64, a & u64::MAX as u128);
    let (b1, b0) = (b >> 64, b & u64::MAX as u128);
    let ll = a0 * b0;
    let lh = a0 * b1;
    let hl = a1 * b0;
    let hh = a1 * b1;
    let mid = (ll >> 64) + (lh & u64::MAX as u128) + (hl & u64::MAX as u128);
    let lo = (ll & u64::MAX as u128) | (mid << 64);
    let hi = hh + (lh >> 64) + (hl >> 64) + (mid >> 64);
    (hi, lo)
}

/// product modulo 2^128 - 45*2^40 + 1 using 2^128 = 45*2^40 - 1 (mod p); used only after the
/// self-test below has compared it with the arbitrary-precision definition
fn mulm128_fast(a: u128, b: u128) -> u128 {
    const C: u128 = 45 * (1u128 << 40) - 1;
    let (mut hi, mut lo) = mul_wide(a, b);
    while hi != 0 {
        let (h2, l2) = mul_wide(hi, C);
        let (s, carry) = lo.overflowing_add(l2);
        lo = s;
        hi = h2 + carry as u128;
    }
    if lo >= P128 {
        lo - P128
    } else {
        lo
    }
}

fn fast128_ok() -> bool {
    static OK: std::sync::OnceLock<bool> = std::sync::OnceLock::new();
    *OK.get_or_init(|| {
        let mut x: u128 = 0x0123_4567_89AB_CDEF_0F1E_2D3C_4B5A_6978;
        let edge = [0u128, 1, 2, P128 - 1, P128 - 2, u128::MAX, u128::MAX - 1, 1 << 127, 1 << 64, (1 << 64) - 1, 45 << 40, (45 << 40) - 1, P128, P128 + 1];
        for a in edge {
            for b in edge {
                if mulm128_fast(a, b) != mulm_big(a, b, P128) {
                    return false;
                }
            }
        }
        for i in 0..20_000u128 {
            x = x.wrapping_mul(0x2545_F491_4F6C_DD1D_9E37_79B9_7F4A_7C15).wrapping_add(i ^ 0xABCD);
            let y = x.rotate_left(37) ^ (i << 90);
            if mulm128_fast(x, y) != mulm_big(x, y, P128) {
                return false;
            }
        }
        true
    })
}

pub fn powm(a: u128, mut e: u128, p: u128) -> u128 {
    let mut r = 1 % p;
    let mut b = a % p;
    while e > 0 {
        if e & 1 == 1 {
            r = mulm(r, b, p);
        }
        b = mulm(b, b, p);
        e >>= 1;
    }
    r
}

/// inverse by Fermat; 0 maps to 0 (the convention the property states)
pub fn invm(a: u128, p: u128) -> u128 {
    if a % p == 0 {
        0
    } else {
        powm(a, p - 2, p)
    }
}

impl Ctx {
    pub const fn base(p: u128) -> Ctx {
        Ctx { p, deg: 1, red: [0, 0, 0] }
    }
    /// documented irreducible polynomials
    pub fn quad(p: u128) -> Ctx {
        let red = if p == P64 {
            [P64 - 2, 1, 0] // x^2 - x + 2  =>  x^2 = x - 2
        } else {
            [1, 1, 0] // x^2 - x - 1  =>  x^2 = x + 1   (f62 and f128)
        };
        Ctx { p, deg: 2, red }
    }
    pub fn cubic(p: u128) -> Ctx {
        let red = if p == P64 {
            [1, 1, 0] // x^3 - x - 1  =>  x^3 = x + 1
        } else if p == P62 {
            [P62 - 2, P62 - 2, 0] // x^3 + 2x + 2  =>  x^3 = -2x - 2
        } else {
            panic!("no cubic extension documented for this prime")
        };
        Ctx { p, deg: 3, red }
    }
    pub fn ext(p: u128, deg: usize) -> Ctx {
        match deg {
            1 => Ctx::base(p),
            2 => Ctx::quad(p),
            3 => Ctx::cubic(p),
            _ => panic!("bad degree"),
        }
    }

    pub const ZERO: El = [0, 0, 0];
    pub const ONE: El = [1, 0, 0];

    pub fn from_base(&self, a: u128) -> El {
        [a % self.p, 0, 0]
    }
    pub fn is_zero(&self, a: &El) -> bool {
        a.iter().all(|c| *c == 0)
    }
    pub fn add(&self, a: &El, b: &El) -> El {
        [addm(a[0], b[0], self.p), addm(a[1], b[1], self.p), addm(a[2], b[2], self.p)]
    }
    pub fn sub(&self, a: &El, b: &El) -> El {
        [subm(a[0], b[0], self.p), subm(a[1], b[1], self.p), subm(a[2], b[2], self.p)]
    }
    pub fn neg(&self, a: &El) -> El {
        [negm(a[0], self.p), negm(a[1], self.p), negm(a[2], self.p)]
    }
    pub fn mul(&self, a: &El, b: &El) -> El {
        let p = self.p;
        // schoolbook product, degree <= 2*(deg-1) <= 4
        let mut t = [0u128; 5];
        for i in 0..self.deg {
            for j in 0..self.deg {
                t[i + j] = addm(t[i + j], mulm(a[i], b[j], p), p);
            }
        }
        // reduce from the top: x^k = x^(k-deg) * (red)
        let d = self.deg;
        for k in (d..=2 * (d - 1)).rev() {
            let c = t[k];
            t[k] = 0;
            if c != 0 {
                for i in 0..d {
                    t[k - d + i] = addm(t[k - d + i], mulm(c, self.red[i], p), p);
                }
            }
        }
        [t[0], t[1], t[2]]
    }
    pub fn mul_base(&self, a: &El, b: u128) -> El {
        [mulm(a[0], b, self.p), mulm(a[1], b, self.p), mulm(a[2], b, self.p)]
    }
    pub fn pow(&self, a: &El, mut e: u128) -> El {
        let mut r = Ctx::ONE;
        let mut b = *a;
        while e > 0 {
            if e & 1 == 1 {
                r = self.mul(&r, &b);
            }
            b = self.mul(&b, &b);
            e >>= 1;
        }
        r
    }
    /// a^(p) — the Frobenius map, by exponentiation
    pub fn frobenius(&self, a: &El) -> El {
        self.pow(a, self.p)
    }
    /// Inverse by solving the linear system  M_a · x = 1  (M_a = matrix of multiplication by a)
    /// with Gaussian elimination over F_p. Zero maps to zero.
    pub fn inv(&self, a: &El) -> El {
        let p = self.p;
        let d = self.deg;
        if self.is_zero(a) {
            return Ctx::ZERO;
        }
        if d == 1 {
            return [invm(a[0], p), 0, 0];
        }
        // columns of M_a are a * x^j
        let mut m = [[0u128; 4]; 3];
        for j in 0..d {
            let mut xj = Ctx::ZERO;
            xj[j] = 1;
            let col = self.mul(a, &xj);
            for i in 0..d {
                m[i][j] = col[i];
            }
        }
        m[0][d] = 1; // right-hand side = 1
        for c in 0..d {
            let piv = (c..d).find(|r| m[*r][c] != 0).expect("non-zero element of a field is invertible");
            m.swap(c, piv);
            let iv = invm(m[c][c], p);
            for k in 0..=d {
                m[c][k] = mulm(m[c][k], iv, p);
            }
            for r in 0..d {
                if r != c && m[r][c] != 0 {
                    let f = m[r][c];
                    for k in 0..=d {
                        m[r][k] = subm(m[r][k], mulm(f, m[c][k], p), p);
                    }
                }
            }
        }
        let mut out = Ctx::ZERO;
        for i in 0..d {
            out[i] = m[i][d];
        }
        out
    }
    pub fn div(&self, a: &El, b: &El) -> El {
        self.mul(a, &self.inv(b))
    }

    // ---------------------------------------------------------------- polynomials (dense, low first)

    pub fn poly_eval(&self, poly: &[El], x: &El) -> El {
        let mut acc = Ctx::ZERO;
        for c in poly.iter().rev() {
            acc = self.add(&self.mul(&acc, x), c);
        }
        acc
    }
    pub fn poly_add(&self, a: &[El], b: &[El]) -> Vec<El> {
        let n = a.len().max(b.len());
        (0..n)
            .map(|i| self.add(a.get(i).unwrap_or(&Ctx::ZERO), b.get(i).unwrap_or(&Ctx::ZERO)))
            .collect()
    }
    pub fn poly_sub(&self, a: &[El], b: &[El]) -> Vec<El> {
        let n = a.len().max(b.len());
        (0..n)
            .map(|i| self.sub(a.get(i).unwrap_or(&Ctx::ZERO), b.get(i).unwrap_or(&Ctx::ZERO)))
            .collect()
    }
    pub fn poly_mul(&self, a: &[El], b: &[El]) -> Vec<El> {
        if a.is_empty() || b.is_empty() {
            return vec![];
        }
        let mut r = vec![Ctx::ZERO; a.len() + b.len() - 1];
        for (i, x) in a.iter().enumerate() {
            for (j, y) in b.iter().enumerate() {
                r[i + j] = self.add(&r[i + j], &self.mul(x, y));
            }
        }
        r
    }
    /// degree of a dense polynomial; the zero polynomial has degree 0 by winterfell's convention
    pub fn poly_degree(&self, a: &[El]) -> usize {
        for i in (0..a.len()).rev() {
            if !self.is_zero(&a[i]) {
                return i;
            }
        }
        0
    }
    pub fn poly_is_zero(&self, a: &[El]) -> bool {
        a.iter().all(|c| self.is_zero(c))
    }
    /// trimmed copy (no trailing zero coefficients)
    pub fn poly_trim(&self, a: &[El]) -> Vec<El> {
        let mut v = a.to_vec();
        while let Some(l) = v.last() {
            if self.is_zero(l) {
                v.pop();
            } else {
                break;
            }
        }
        v
    }
    pub fn poly_eq(&self, a: &[El], b: &[El]) -> bool {
        self.poly_trim(a) == self.poly_trim(b)
    }
    /// schoolbook long division: returns (q, r) with a = q*b + r, deg r < deg b; b must be non-zero
    pub fn poly_divrem(&self, a: &[El], b: &[El]) -> (Vec<El>, Vec<El>) {
        let b = self.poly_trim(b);
        assert!(!b.is_empty(), "division by the zero polynomial");
        let mut r = self.poly_trim(a);
        if r.len() < b.len() {
            return (vec![], r);
        }
        let mut q = vec![Ctx::ZERO; r.len() - b.len() + 1];
        let lead_inv = self.inv(b.last().unwrap());
        while r.len() >= b.len() {
            let shift = r.len() - b.len();
            let c = self.mul(r.last().unwrap(), &lead_inv);
            q[shift] = c;
            for (i, bc) in b.iter().enumerate() {
                r[shift + i] = self.sub(&r[shift + i], &self.mul(&c, bc));
            }
            r = self.poly_trim(&r);
            if r.is_empty() {
                break;
            }
        }
        (q, r)
    }
    /// Lagrange interpolation through distinct xs (quadratic, from the definition)
    pub fn poly_interpolate(&self, xs: &[El], ys: &[El]) -> Vec<El> {
        let n = xs.len();
        let mut result = vec![Ctx::ZERO; n];
        for i in 0..n {
            // numerator polynomial prod_{j != i} (x - x_j), denominator prod (x_i - x_j)
            let mut num = vec![Ctx::ONE];
            let mut den = Ctx::ONE;
            for j in 0..n {
                if j != i {
                    num = self.poly_mul(&num, &[self.neg(&xs[j]), Ctx::ONE]);
                    den = self.mul(&den, &self.sub(&xs[i], &xs[j]));
                }
            }
            let scale = self.mul(&ys[i], &self.inv(&den));
            for (k, c) in num.iter().enumerate() {
                result[k] = self.add(&result[k], &self.mul(c, &scale));
            }
        }
        result
    }
}

#[cfg(test)]
mod tests {
    use super::*;
    #[test]
    fn inverse_and_frobenius() {
        for (p, degs) in [(P62, vec![1, 2, 3]), (P64, vec![1, 2, 3]), (P128, vec![1, 2])] {
            for d in degs {
                let c = Ctx::ext(p, d);
                let mut a = Ctx::ZERO;
                for i in 0..d {
                    a[i] = (12345678901234567u128 * (i as u128 + 3)) % p;
                }
                assert_eq!(c.mul(&a, &c.inv(&a)), Ctx::ONE);
                // the reduction polynomial must be irreducible enough that frobenius^d = id
                let mut f = a;
                for _ in 0..d {
                    f = c.frobenius(&f);
                }
                assert_eq!(f, a);
            }
        }
    }
}
