//! Deterministic PRNG (xoshiro256** seeded through splitmix64). Seeds only the pseudo-random members
//! of alphabets; enumeration order never depends on it.

#[derive(Clone, Debug)]
pub struct Rng {
    s: [u64; 4],
}

fn splitmix(x: &mut u64) -> u64 {
    *x = x.wrapping_add(0x9E3779B97F4A7C15);
    let mut z = *x;
    z = (z ^ (z >> 30)).wrapping_mul(0xBF58476D1CE4E5B9);
    z = (z ^ (z >> 27)).wrapping_mul(0x94D049BB133111EB);
    z ^ (z >> 31)
}

impl Rng {
    pub fn new(seed: u64) -> Self {
        let mut x = seed ^ 0x5EED_0F_C0FFEE;
        let s = [splitmix(&mut x), splitmix(&mut x), splitmix(&mut x), splitmix(&mut x)];
        Rng { s }
    }

    /// Independent stream derived from a seed and a label.
    pub fn labelled(seed: u64, label: &str) -> Self {
        Rng::new(seed ^ crate::fnv(label.as_bytes()))
    }

    pub fn next_u64(&mut self) -> u64 {
        let r = self.s[1].wrapping_mul(5).rotate_left(7).wrapping_mul(9);
        let t = self.s[1] << 17;
        self.s[2] ^= self.s[0];
        self.s[3] ^= self.s[1];
        self.s[1] ^= self.s[2];
        self.s[0] ^= self.s[3];
        self.s[2] ^= t;
        self.s[3] = self.s[3].rotate_left(45);
        r
    }

    pub fn next_u128(&mut self) -> u128 {
        ((self.next_u64() as u128) << 64) | self.next_u64() as u128
    }

    pub fn below(&mut self, n: u64) -> u64 {
        if n == 0 {
            return 0;
        }
        // rejection sampling for uniformity
        let zone = u64::MAX - (u64::MAX % n);
        loop {
            let v = self.next_u64();
            if v < zone {
                return v % n;
            }
        }
    }

    pub fn bytes(&mut self, n: usize) -> Vec<u8> {
        let mut v = Vec::with_capacity(n);
        while v.len() < n {
            let w = self.next_u64().to_le_bytes();
            let take = (n - v.len()).min(8);
            v.extend_from_slice(&w[..take]);
        }
        v
    }
}
