//! Panic capture. `install()` replaces the global panic hook by one that stores (message, location)
//! in a thread-local and prints nothing; `catch` runs a closure under `catch_unwind` and returns the
//! record on panic. Used by every oracle that distinguishes "returned an error" from "panicked".
use std::cell::RefCell;
use std::panic::{self, AssertUnwindSafe};

#[derive(Clone, Debug, PartialEq, Eq)]
pub struct PanicRec {
    pub msg: String,
    pub file: String,
    pub line: u32,
}

impl PanicRec {
    /// Stable class of the panic: source file (path relative to /repo where applicable) and the
    /// message with digits squeezed, so that it does not depend on the concrete values involved.
    pub fn class(&self) -> String {
        let file = self.file.strip_prefix("/repo/").unwrap_or(&self.file);
        let mut m = String::new();
        let mut last_digit = false;
        for c in self.msg.chars().take(90) {
            if c.is_ascii_digit() {
                if !last_digit {
                    m.push('#');
                }
                last_digit = true;
            } else {
                last_digit = false;
                m.push(if c == '\n' { ' ' } else { c });
            }
        }
        format!("{}: {}", file, m)
    }
}

thread_local! {
    static LAST: RefCell<Option<PanicRec>> = const { RefCell::new(None) };
    static DEPTH: std::cell::Cell<u32> = const { std::cell::Cell::new(0) };
}

pub fn install() {
    panic::set_hook(Box::new(|info| {
        let msg = if let Some(s) = info.payload().downcast_ref::<&str>() {
            s.to_string()
        } else if let Some(s) = info.payload().downcast_ref::<String>() {
            s.clone()
        } else {
            "<non-string panic payload>".to_string()
        };
        let (file, line) = info.location().map(|l| (l.file().to_string(), l.line())).unwrap_or(("?".into(), 0));
        if DEPTH.with(|d| d.get()) == 0 {
            eprintln!("MACHINERY-FAILURE: panic outside any oracle scope: {msg} at {file}:{line}");
        }
        LAST.with(|l| *l.borrow_mut() = Some(PanicRec { msg, file, line }));
    }));
}

pub fn catch<T>(f: impl FnOnce() -> T) -> Result<T, PanicRec> {
    LAST.with(|l| *l.borrow_mut() = None);
    DEPTH.with(|d| d.set(d.get() + 1));
    let r = panic::catch_unwind(AssertUnwindSafe(f));
    DEPTH.with(|d| d.set(d.get() - 1));
    match r {
        Ok(v) => Ok(v),
        Err(_) => Err(LAST.with(|l| l.borrow_mut().take()).unwrap_or(PanicRec {
            msg: "<panic without record>".into(),
            file: "?".into(),
            line: 0,
        })),
    }
}
