//! Allocation meter. `Tracking` is a global allocator that forwards to the system allocator and, while
//! the calling thread is inside `measure`, records the largest single request and the sum of all
//! requests made by that thread. A binary opts in with
//! `#[global_allocator] static A: kit::alloc::Tracking = kit::alloc::Tracking;`.
//! Used by the oracles for "never requests memory out of proportion to the size of the input": a
//! `Vec::with_capacity(untrusted_count)` of a few megabytes does not kill the process, so process death
//! alone only sees requests beyond the machine's memory.
use std::alloc::{GlobalAlloc, Layout, System};
use std::cell::Cell;

pub struct Tracking;

thread_local! {
    static ARMED: Cell<bool> = const { Cell::new(false) };
    static MAX_REQ: Cell<usize> = const { Cell::new(0) };
    static SUM_REQ: Cell<u64> = const { Cell::new(0) };
    static INSTALLED: Cell<bool> = const { Cell::new(false) };
}

#[inline]
fn note(size: usize) {
    // try_with: the allocator may be called while the thread's locals are being torn down
    let _ = ARMED.try_with(|a| {
        if a.get() {
            let _ = MAX_REQ.try_with(|m| {
                if size > m.get() {
                    m.set(size)
                }
            });
            let _ = SUM_REQ.try_with(|s| s.set(s.get().saturating_add(size as u64)));
        }
    });
    let _ = INSTALLED.try_with(|i| i.set(true));
}

unsafe impl GlobalAlloc for Tracking {
    unsafe fn alloc(&self, l: Layout) -> *mut u8 {
        note(l.size());
        System.alloc(l)
    }
    unsafe fn alloc_zeroed(&self, l: Layout) -> *mut u8 {
        note(l.size());
        System.alloc_zeroed(l)
    }
    unsafe fn dealloc(&self, p: *mut u8, l: Layout) {
        System.dealloc(p, l)
    }
    unsafe fn realloc(&self, p: *mut u8, l: Layout, new_size: usize) -> *mut u8 {
        note(new_size);
        System.realloc(p, l, new_size)
    }
}

#[derive(Clone, Copy, Debug, Default)]
pub struct Meter {
    /// largest single allocation (or reallocation target) requested by this thread inside the scope
    pub max_request: usize,
    /// sum of all requests
    pub sum_requests: u64,
}

/// Runs `f` with the meter armed for the calling thread (nesting is not supported: the inner scope
/// would reset the outer one).
pub fn measure<T>(f: impl FnOnce() -> T) -> (T, Meter) {
    MAX_REQ.with(|m| m.set(0));
    SUM_REQ.with(|s| s.set(0));
    ARMED.with(|a| a.set(true));
    struct Disarm;
    impl Drop for Disarm {
        fn drop(&mut self) {
            ARMED.with(|a| a.set(false));
        }
    }
    let d = Disarm;
    let r = f();
    drop(d);
    (r, Meter { max_request: MAX_REQ.with(|m| m.get()), sum_requests: SUM_REQ.with(|s| s.get()) })
}

/// True if the tracking allocator is the process' global allocator (it has seen an allocation of this
/// thread). Checks that rely on the meter must refuse to run without it.
pub fn installed() -> bool {
    let v: Vec<u8> = Vec::with_capacity(32);
    std::hint::black_box(&v);
    drop(v);
    INSTALLED.with(|i| i.get())
}
