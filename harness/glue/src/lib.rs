//! Glue between the real winterfell types and the reference arithmetic of `kit::refmath`.
use kit::refmath::{Ctx, El, P128, P62, P64};
use math::fields::{f128, f62, f64 as g64, CubeExtension, QuadExtension};
use math::{ExtensibleField, FieldElement, StarkField};

pub type B64 = g64::BaseElement;
pub type B62 = f62::BaseElement;
pub type B128 = f128::BaseElement;

/// base field adapter
pub trait Fld: StarkField + ExtensibleField<2> + ExtensibleField<3> + 'static {
    const NAME: &'static str;
    const P: u128;
    fn mk(v: u128) -> Self;
    fn int(&self) -> u128;
}

impl Fld for B64 {
    const NAME: &'static str = "f64";
    const P: u128 = P64;
    fn mk(v: u128) -> Self {
        B64::new((v % P64) as u64)
    }
    fn int(&self) -> u128 {
        self.as_int() as u128
    }
}
impl Fld for B62 {
    const NAME: &'static str = "f62";
    const P: u128 = P62;
    fn mk(v: u128) -> Self {
        B62::new((v % P62) as u64)
    }
    fn int(&self) -> u128 {
        self.as_int() as u128
    }
}
impl Fld for B128 {
    const NAME: &'static str = "f128";
    const P: u128 = P128;
    fn mk(v: u128) -> Self {
        B128::new(v % P128)
    }
    fn int(&self) -> u128 {
        self.as_int()
    }
}

/// element adapter: base field or one of its extensions
pub trait Elt: FieldElement + 'static
where
    Self::BaseField: Fld,
{
    const DEG: usize;
    fn from_ref(e: &El) -> Self;
    fn to_ref(&self) -> El;
    fn ctx() -> Ctx {
        Ctx::ext(<Self::BaseField as Fld>::P, Self::DEG)
    }
    fn tname() -> String {
        if Self::DEG == 1 {
            <Self::BaseField as Fld>::NAME.to_string()
        } else {
            format!("{}^{}", <Self::BaseField as Fld>::NAME, Self::DEG)
        }
    }
}

macro_rules! elt_base {
    ($b:ty) => {
        impl Elt for $b {
            const DEG: usize = 1;
            fn from_ref(e: &El) -> Self {
                <$b as Fld>::mk(e[0])
            }
            fn to_ref(&self) -> El {
                [self.int(), 0, 0]
            }
        }
    };
}
elt_base!(B64);
elt_base!(B62);
elt_base!(B128);

impl<B: Fld> Elt for QuadExtension<B> {
    const DEG: usize = 2;
    fn from_ref(e: &El) -> Self {
        QuadExtension::new(B::mk(e[0]), B::mk(e[1]))
    }
    fn to_ref(&self) -> El {
        let c = self.to_base_elements();
        [c[0].int(), c[1].int(), 0]
    }
}

impl<B: Fld> Elt for CubeExtension<B> {
    const DEG: usize = 3;
    fn from_ref(e: &El) -> Self {
        CubeExtension::new(B::mk(e[0]), B::mk(e[1]), B::mk(e[2]))
    }
    fn to_ref(&self) -> El {
        let c = self.to_base_elements();
        [c[0].int(), c[1].int(), c[2].int()]
    }
}

pub fn to_refs<E: Elt>(v: &[E]) -> Vec<El>
where
    E::BaseField: Fld,
{
    v.iter().map(|x| x.to_ref()).collect()
}

pub fn from_refs<E: Elt>(v: &[El]) -> Vec<E>
where
    E::BaseField: Fld,
{
    v.iter().map(|x| E::from_ref(x)).collect()
}

pub fn elj(e: &El, deg: usize) -> kit::Value {
    kit::json!(e[..deg].iter().map(|c| format!("{:#x}", c)).collect::<Vec<_>>())
}

/// residue of the library's 2^k-th root of unity (the domain generator is defined by the library;
/// C07 checks that it has exact order 2^k)
pub fn root_of_unity<B: Fld>(log_n: u32) -> u128 {
    B::get_root_of_unity(log_n).int()
}

/// seed-derived element with all coefficients non-trivial
pub fn rand_el(rng: &mut kit::rng::Rng, ctx: &Ctx) -> El {
    let mut e = [0u128; 3];
    for c in e.iter_mut().take(ctx.deg) {
        *c = rng.next_u128() % ctx.p;
    }
    e
}
