#!/usr/bin/env python3
"""tools/seed_store.py <seed id> <property> <source dir> <demo file> <demo destination in repo> <demo command> <needs> <checks run ...>
Copies a confirmed seeded change into /verif/seeded/<seed id>/ and writes meta.json."""
import sys, json, shutil, os
sid, prop, src, demo, dest, cmd, needs = sys.argv[1:8]
ran = sys.argv[8:]
d = f"/verif/seeded/{sid}"
os.makedirs(d, exist_ok=True)
shutil.copy(f"{src}/patch.diff", f"{d}/patch.diff")
shutil.copy(f"{src}/{demo}", f"{d}/{demo}")
if os.path.exists(f"{src}/notes.md"):
    shutil.copy(f"{src}/notes.md", f"{d}/notes.md")
verify = open(f"{src}/verify.log").read().strip().splitlines() if os.path.exists(f"{src}/verify.log") else []
meta = {
    "id": sid,
    "breaks_property": prop,
    "author": "independent sub-agent given only the property text and a scratch worktree",
    "needs_to_manifest": needs,
    "demonstration": {"file": demo, "goes_to": dest, "command": cmd},
    "confirmed_in_scratch_worktree": verify,
    "checks_run": [dict(zip(["check", "tier", "result"], r.split(":", 2))) for r in ran],
}
json.dump(meta, open(f"{d}/meta.json", "w"), indent=1)
print("stored", d)
