#!/bin/bash
# Confirms a seeded change in its scratch worktree:
#   tools/seed_verify.sh <worktree> <patch.diff> <demo file> <path of the demo inside the worktree> <demo command...>
# 1. worktree = HEAD + patch, the repository's own suite must pass
# 2. the demonstration must fail with the patch and pass without it
set -u
wt=$1; patch=$2; demo=$3; dest=$4; shift 4
export CARGO_NET_OFFLINE=true CARGO_TARGET_DIR=$wt/target
cd "$wt" || exit 2
mkdir -p "$wt/target"
git checkout -q -- . && git clean -fdq -e target -e _seed
git apply "$patch" || { echo "SEED: patch does not apply"; exit 2; }
cargo test --workspace --no-fail-fast --offline > "$wt/target/suite.log" 2>&1
rc=$?
passed=$(grep -E '^test result' "$wt/target/suite.log" | awk '{s+=$4} END{print s}')
failed=$(grep -E '^test result' "$wt/target/suite.log" | awk '{s+=$6} END{print s}')
echo "SEED: suite with the change: exit=$rc passed=$passed failed=$failed"
mkdir -p "$(dirname "$dest")"; cp "$demo" "$dest"
"$@" > "$wt/target/demo_with.log" 2>&1; with=$?
echo "SEED: demonstration with the change: exit=$with"
git apply -R "$patch"
"$@" > "$wt/target/demo_without.log" 2>&1; without=$?
echo "SEED: demonstration without the change: exit=$without"
rm -f "$dest"
git checkout -q -- . && git clean -fdq -e target -e _seed
if [ $rc -eq 0 ] && [ $with -ne 0 ] && [ $without -eq 0 ]; then echo "SEED: CONFIRMED"; else echo "SEED: NOT CONFIRMED"; exit 1; fi
