#!/usr/bin/env python3
"""Regenerates /verif/MANIFEST.json from the table below (single source of truth for the interface)."""
import json, os
ROOT = os.path.dirname(os.path.dirname(os.path.abspath(__file__)))

# id -> dict(category, text, note, technique, engine, design_ref)
CHECKS = {
 "C07": dict(category="model_checking",
   text="Bounded-exhaustive enumeration of every operand tuple over declared boundary/image/seeded alphabets for all public operations of the three base fields against big-integer arithmetic (E1), plus explicit-state breadth-first reachability over internal representations under all public operations with the observational-equivalence invariant checked in every state (E2). Right level: the property quantifies over histories of operations (representation invariant), which is a reachability question.",
   note="Trusts u128/num-bigint reference arithmetic; operand spaces are covered by alphabets, not all 2^64..2^128 values; reachability depth 2 (quick) / 3 (thorough).",
   technique="explicit-state BFS over representation states + exhaustive alphabet products vs reference model",
   engine="fields", design_ref="§4 C07"),
 "C08": dict(category="exploration",
   text="Every ordered pair of extension elements with coefficients from a boundary alphabet in every position (all 5 base/degree combinations), every element for unary operations, compared with schoolbook polynomial arithmetic modulo the documented irreducible polynomial.",
   note="Trusts reference arithmetic; coefficient alphabets (7-16 members) instead of all coefficients.",
   technique="bounded-exhaustive enumeration of operand tuples against a reference model",
   engine="fields", design_ref="§4 C08"),
 "C01": dict(category="exploration",
   text="Deviation-bounded product over (computation description x trace x proof options x field/extension/hash): a base configuration per (field, hasher) pair and every configuration that changes <= 1 (quick) / <= 2 (thorough) of 14 dimensions to any other member of that dimension's alphabet, plus the full product of a shape-critical sub-space (255 columns, 255 queries, remainder degree 255, 64+-value sequences, n/2+1 exemptions, Lagrange column, constant traces); each admissible case must prove, verify, survive to_bytes/from_bytes unchanged and verify again.",
   note="Traces are valid by construction and re-checked by the reference validity predicate; inadmissible points are filtered by the stated predicate and counted; the prover's debug-only validation is not run (release-like profile with overflow checks).",
   technique="bounded-exhaustive (deviation-bounded) enumeration of configurations on the real prover and verifier",
   engine="stark", design_ref="§4 C01"),
 "C02": dict(category="exploration",
   text="Reduced SpecAir family x (field, hasher) pairs: EVERY (column, step) cell of the main and of the auxiliary segment corrupted by +1, -1 and a seeded value, proved by the real prover without debug validation; a reference validity predicate decides whether the corrupted trace is still valid (must prove and verify) or invalid (a returned proof must be rejected). Then every perturbation of the statement of the accepted honest proof: each asserted value +-1, a different statement encoding, a different transition rule, every byte of the proof context changed 5 ways.",
   note="Rejection of invalid traces is probabilistic (error <= 2^-50 here); the reference predicate is the definition (every non-exempt transition, every asserted cell) in reference arithmetic.",
   technique="exhaustive enumeration of corrupted cells / perturbed statements against a reference validity predicate",
   engine="stark", design_ref="§4 C02"),
 "C03": dict(category="exploration",
   text="Seed proofs per (field, hasher) pair: ALL single-bit flips of the serialized proof, every structural field set to boundary values, every length-prefixed component resized with and without fixing its length, every element/digest replaced, items/components exchanged, GKR option added/removed, trailing bytes; adaptive substitution of the FRI remainder by R + c*Z_Q after learning the query positions with a recording coin. A mutant that parses to different content must not be accepted; the stated exceptions (digest re-encodings, position-equivalent nonce, partition-count edits with identical leaf mapping) are decided by computation.",
   note="Hash collision-freeness; mutants that panic are counted as not accepted here and reported by C06.",
   technique="exhaustive enumeration of proof mutations (incl. position-adaptive ones) with semantic decoding as the filter",
   engine="stark", design_ref="§4 C03"),
 "C06": dict(category="fault_enumeration",
   text="Near-valid mutation closure of seed proofs (all bit flips, byte values, truncation at every offset incl. the empty input, trailing garbage, every structural field at boundary values, component resizes, element replacement, exchanges, all pairs of count fields at {0,max}, GKR option with lengths up to 2^64-1): each mutant is parsed, re-serialized and verified against matching / differently shaped / minimal public inputs under three acceptance policies, with debug assertions and overflow checks on. Panics are caught with their location; a fatal signal of the process is reported as a violation by the driver.",
   note="The harness AIR reconciles its description with any trace shape the proof claims, so panics are attributable to library code. One known finding (AirContext assertion reached through Air::new).",
   technique="exhaustive fault/mutation enumeration of untrusted inputs with panic capture",
   engine="stark", design_ref="§4 C06"),
 "C04": dict(category="model_checking",
   text="A protocol model of the Fiat-Shamir transcript (stateright Model per configuration: prover messages in protocol order, challenge classes with their windows; invariant: a challenge class is drawn only after every protocol-earlier prover message and before any later one; explored exhaustively) bound to the code by trace conformance: the real prover and the real verify() run with a recording coin substituted for the RandomCoin type parameter, and both recorded call sequences must be behaviours of the model with every absorbed value equal, by value, to what the proof carries (seed = context || public inputs, commitments, OOD hashes recomputed from the proof bytes, FRI commitments, nonce). Prover and verifier logs must agree on all used challenges. Model-free second oracle: flipping one bit of each prover message changes every later challenge and no earlier one.",
   note="Order of draws inside one phase is left free (the property does not constrain it); the verifier's unused challenge after the remainder commitment is optional in the model; trusts the coin (C19).",
   technique="explicit-state model checking of a protocol model (stateright) + trace conformance of real prover/verifier coin logs + dependency matrix",
   engine="stark", design_ref="§4 C04"),
 "C17": dict(category="exploration",
   text="For computation descriptions of the C01 family (n <= 64/128): the real pipeline DefaultTraceLde -> DefaultConstraintEvaluator::evaluate -> CompositionPoly::new is compared with a reference evaluation of the definition (transition constraints over the trace polynomials divided by the product over non-exempt steps, boundary constraints with value interpolants divided by the product over asserted steps, Lagrange kernel terms, the library's coefficient order) at D+1 distinct points, D >= degree of both sides, i.e. as polynomial identity, plus extension-field points.",
   note="Coefficients and auxiliary randomness are seeded values (the identity is universal in them); the verifier-side definition is tied in through C01's OOD consistency check.",
   technique="bounded-exhaustive enumeration of descriptions with exact polynomial identity testing at degree+1 points against a reference definition",
   engine="stark", design_ref="§4 C17"),
 "C05": dict(category="exploration",
   text="Adversary enumeration on the stand-alone FRI verifier: configurations x functions (every monomial above the bound, low-degree polynomial corrupted at every point / pairs / half the domain, random) x prover strategies (honest, full remainder, remainder chosen after seeing the queries, tampered opened or committed value per layer, wrong challenge per layer, omitted/duplicated/swapped layers) x ALL position lists of size 1 and 2: the real verifier must return Ok exactly when a reference verifier written from the protocol description accepts. The harness prover model is bound to the code by byte-equality of its honest proof with the real FriProver's.",
   note="Decides the verifier's deterministic accept/reject procedure, not a soundness probability; trusts coin/hashers/Merkle (C19, C11, C10). The model follows the implementation's convention of keeping the domain offset constant across layers (an equivalent rescaling, degrees unchanged).",
   technique="exhaustive enumeration of adversary strategies x query positions against a reference verifier, with prover-model trace conformance",
   engine="frichk", design_ref="§4 C05"),
 "C15": dict(category="exploration",
   text="Folding identity on the whole monomial basis for every folding factor and domain up to 512 (linearity settles all functions); position folding / index mapping for all position lists of size <= 3 on domains <= 64; completeness over every well-formed (folding, blowup 2..128, remainder degree 0..255, domain <= 2^10) schedule x 5 polynomial classes x 4 query-list classes, directly and after serialization, with one prover instance reused.",
   note="Reference arithmetic; domain generator from the library (C07).",
   technique="bounded-exhaustive enumeration against a coefficient-domain reference",
   engine="frichk", design_ref="§4 C15"),
 "C09": dict(category="exploration",
   text="For three base fields and quadratic extensions: every monomial c*x^j of every size 2^1..2^11/12 (all j up to n=256/512, a covering set beyond) through evaluate/interpolate/infer_degree and coset evaluation for offsets {1, generator, seeded} x blowups up to 128, expected values in closed form - linearity makes the monomial basis decisive for every polynomial of that size; dense polynomials vs Horner; the segmented RowMatrix LDE for every column count 1..40 and {63,64,65,127,128,129,254,255} x segment widths {1,2,8,16}, every cell vs Horner; ColMatrix variants; row-commitment order.",
   note="Trusts reference arithmetic and the linearity argument; the domain generator is the library's root of unity whose order C07 checks.",
   technique="bounded-exhaustive enumeration over (size, basis polynomial, offset, blowup, shape) against closed-form / Horner reference",
   engine="polyfft", design_ref="§4 C09"),
 "C20": dict(category="exploration",
   text="All 781 polynomials of length 0..4 over a 5-member alphabet, all ordered pairs for add/sub/mul/div (q*d+r=a), synthetic division for every (a,b), every root list of length <= 3, interpolation on every point set of size 1..5 from 7 points, batch inversion on all vectors of length <= 6 over 4 values and with a zero at every position of vectors around the 1024 threshold, power series incl. n=0, accumulation helpers; five element types.",
   note="Documented panics (division by higher-degree/zero divisor, syn_div with a=0 or b=0, empty mul operands) are excluded by an explicit precondition predicate.",
   technique="bounded-exhaustive enumeration of small polynomials/vectors against a schoolbook reference",
   engine="polyfft", design_ref="§4 C20"),
 "C10": dict(category="exploration",
   text="All trees of 2..16 leaves x all non-empty position subsets (65535 for 16 leaves) x all orders of small subsets, plus structured families on trees up to 1024 leaves: honest single/batch openings verify, decompress into exactly the naive paths and re-compress to the same opening; for every opening of the exhaustive trees every single-element mutation and every shape mutation (node/leaf/vector added, removed, duplicated, moved; depth -1,+1,0,62..65,255; positions replaced, out of range, duplicated, added, dropped, swapped, empty, 256; wrong root) must be answered by an error, never Ok and never a panic; single paths likewise. Six hashers.",
   note="Assumes collision-freeness on the harness' distinct leaves; the canonical opening is prove_batch's value, validated by naive recomputation.",
   technique="bounded-exhaustive enumeration of trees x position sets x mutations against naive recomputation",
   engine="merkle", design_ref="§4 C10"),
 "C11": dict(category="exploration",
   text="All six hashers: byte strings of every length 0..200/330 x 3 contents and element lists of every length around the rate boundaries against independent references (blake3/sha3 crates; a textbook Rescue sponge / Jive compression written from the doc comments over plain residues); totality (panics are violations), length/trailing-zero separation over all pairs, base/extension typing and internal-representation independence, merge = documented definition for all ordered digest pairs, merge_with_int layout and pairwise injectivity over integer classes around the modulus; Rescue permutations vs the reference round function; frequency-domain MDS products vs plain matrix products on every state of {0,2^32-1,2^32,p-1}^8 and ^12 (3 limbs quick); constants vs defining equations and a pinned fingerprint.",
   note="Trusts the blake3/sha3 crates and refmath; constants are read from the crate's published tables and bound by equations + fingerprint; needs the crypto verif hook for crate-private functions.",
   technique="bounded-exhaustive enumeration of inputs/states against reference implementations",
   engine="hashes", design_ref="§4 C11"),
 "C16": dict(category="exploration",
   text="Exhaustive exactly as quantified: trace lengths 8..256, all three base fields, every exemption count 1..n/2+1 (transition divisor equals the product over the non-exempt points as a polynomial), every assertion valid for the length (divisor zero set over the whole domain = named steps; value polynomial reproduces every asserted value and is the low-degree interpolant), every ordered pair of assertions on one column (overlap <=> step sets intersect; BoundaryConstraints::new refuses exactly then for n <= 32), ill-formed assertions refused.",
   note="Trace-domain generator is the library's root of unity (order checked by C07); reference arithmetic.",
   technique="exhaustive enumeration of the quantified finite space against set arithmetic / polynomial identity at degree+1 points",
   engine="airdom", design_ref="§4 C16"),
 "C18": dict(category="exploration",
   text="Conjectured estimate: every (queries, blowup, grinding, extension, field size, trace length 2^3..2^32, collision resistance) combination against an independently computed formula and against its successor in each monotone dimension; proven estimate: a dense lattice with successor comparisons and a pinned value; policy: AcceptableOptions::validate at level-1/level/level+1 for both estimates and option-set membership.",
   note="The verify()-level part of the policy (rejection before anything else, claimed field vs. computation field) is exercised with real proofs by C01/C02's corpus; contexts beyond Context::new's limit are built by decoding hand-assembled bytes.",
   technique="exhaustive enumeration of the parameter space against a reference formula and monotonicity relations",
   engine="airdom", design_ref="§4 C18"),
 "C19": dict(category="model_checking",
   text="Explicit-state BFS over public-coin histories (new/reseed/draw base-quad-cubic/draw_integers/check_leading_zeros) for all six hashers to depth 3-4 (quick) / 4-6 (thorough); each transition runs on the real DefaultRandomCoin and on a reference coin written from the doc comments and is compared; every state is probed for its next outputs, which must be a function of and injective in the canonical reference state.",
   note="Trusts the hasher primitives (C11); coin states differing only by skipped invalid candidates are identified (they are observationally equal by construction of rejection sampling).",
   technique="explicit-state model checking of the implementation against a reference model with per-transition conformance",
   engine="hashes", design_ref="§4 C19"),
 "C12": dict(category="exploration",
   text="Every member of boundary alphabets of every serializable type (sizes around every vint64 length, nested collections, all field/extension/digest types, the full product of legal ProofOptions, every legal TraceInfo width pair, contexts, commitments, query sets up to 255x255, OOD frames up to 255 columns, FRI proofs up to 256 remainder coefficients) is encoded and decoded through all three reader implementations (ReadAdapter with three chunkings), with exact-consumption checked by sentinel bytes; second-level parse() of proof components must return what the constructors were given.",
   note="Values are built through public constructors; equality is the types' PartialEq; whole Proof values are covered by C01's corpus.",
   technique="bounded-exhaustive enumeration of values x reader implementations (round-trip oracle)",
   engine="serial", design_ref="§4 C12"),
 "C13": dict(category="model_checking",
   text="Explicit-state breadth-first search over operation histories of the real ReadAdapter (rebuilt by re-execution), for 28-42 streams x 10 chunkings of the underlying source, all ByteReader operations with boundary size arguments, depth 3 (quick) / 5 (thorough); every transition is executed in lock step on SliceReader and compared (values, errors, optimistic look-ahead only before EOF was observed). States are de-duplicated on the adapter's internal buffers (verif hook), source position and reference position.",
   note="SliceReader is the reference; sources that return Ok(0) before their end are outside the run; histories are not extended past their first agreed error. Runs with debug assertions so that unsafe copies guarded by debug_assert fail loudly; a crash of the harness process is reported as a violation.",
   technique="explicit-state model checking of the implementation against a reference reader (lock-step conformance on every transition)",
   engine="serial", design_ref="§4 C13"),
}

ALL = ["C%02d" % i for i in range(1, 21)]
PENDING_REASON = "check not built yet in this revision of /verif (controlled-scheduler rayon stand-in, DESIGN.md §4 C14); will be claimed once its harness exists"

def main():
    checks = []
    for pid in ALL:
        if pid not in CHECKS: continue
        c = CHECKS[pid]
        checks.append({
            "property_id": pid,
            "quick_cmd": f"./check {pid} --tier quick",
            "thorough_cmd": f"./check {pid} --tier thorough",
            "evidence_file": f"/verif/evidence/{pid}.json",
            "replay_cmd_template": f"./check {pid} --replay {{path}}",
            "engine": c["engine"],
            "level_claimed": {"category": c["category"], "text": c["text"], "design_ref": c["design_ref"]},
            "level_note": c["note"],
            "technique": c["technique"],
        })
    hooks_commits = []
    hc = os.path.join(ROOT, "tools", "hook_commits.txt")
    if os.path.exists(hc):
        hooks_commits = [l.split()[0] for l in open(hc) if l.strip() and not l.startswith("#")]
    m = {
        "version": 1,
        "setup_cmd": "./tools/setup.sh",
        "hooks": {
            "guard": "--cfg winterfell_verif",
            "enable": "RUSTFLAGS=--cfg winterfell_verif via /verif/harness/.cargo/config.toml (all harness builds); /repo's own builds never set it",
            "baseline_off_cmd": "cd /repo && cargo test --workspace --no-fail-fast --offline",
            "source_commits": hooks_commits,
            "add_only": True,
        },
        "engines": [
            {"name": "kit", "path": "harness/kit", "serves_properties": ALL, "kind_free_text": "bounded-exhaustive explorer with watchdog (E1), level-synchronous explicit-state BFS (E2), evidence/replay/known-findings, reference arithmetic"},
            {"name": "fields", "path": "harness/bins/fields", "serves_properties": ["C07", "C08"], "kind_free_text": "alphabet products + representation reachability"},
            {"name": "polyfft", "path": "harness/bins/polyfft", "serves_properties": ["C09", "C20"], "kind_free_text": "monomial-basis FFT checks, segmented LDE, polynomial utilities"},
            {"name": "airdom", "path": "harness/bins/airdom", "serves_properties": ["C16", "C18"], "kind_free_text": "divisor/assertion domains; security-estimate parameter space"},
            {"name": "stark", "path": "harness/bins/stark", "serves_properties": ["C01", "C02", "C03", "C04", "C06", "C17"], "kind_free_text": "SpecAir family, deviation-bounded configuration enumeration, cell corruption, proof mutation closure on the real prover/verifier"},
            {"name": "frichk", "path": "harness/bins/frichk", "serves_properties": ["C05", "C15"], "kind_free_text": "FRI prover model + reference verifier; folding identity"},
            {"name": "merkle", "path": "harness/bins/merkle", "serves_properties": ["C10"], "kind_free_text": "all subsets x all mutations of Merkle openings"},
            {"name": "hashes", "path": "harness/bins/hashes", "serves_properties": ["C11", "C19"], "kind_free_text": "reference sponge/coin; BFS over coin histories"},
            {"name": "serial", "path": "harness/bins/serial", "serves_properties": ["C12", "C13"], "kind_free_text": "round-trip enumeration over readers; BFS over reader histories"},
        ],
        "checks": checks,
        "not_applicable": [{"property_id": p, "reason": PENDING_REASON} for p in ALL if p not in CHECKS],
        "notes": "exit 0 = held (KNOWN-FINDING lines for listed findings), 1 = unlisted violation, 2 = machinery failure. Known findings: /verif/known_findings.txt.",
    }
    json.dump(m, open(os.path.join(ROOT, "MANIFEST.json"), "w"), indent=1)
    print("MANIFEST.json written:", len(checks), "checks")

main()
