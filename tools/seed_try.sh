#!/bin/bash
# tools/seed_try.sh <patch.diff> <tier> <check>... : applies a seeded change to /repo, runs the checks, undoes it.
patch=$1; tier=$2; shift 2
cd /verif
[ -z "$(git -C /repo status --short)" ] || { echo "/repo is not clean"; exit 2; }
git -C /repo apply "$patch" || exit 2
for c in "$@"; do
  ./check $c --tier $tier > /tmp/seed_try_$c.log 2>&1; rc=$?
  echo "== $c $tier exit=$rc  $(grep -c '^VIOLATION' /tmp/seed_try_$c.log) violation line(s)"
  grep -A2 '^VIOLATION' /tmp/seed_try_$c.log | grep -E 'signature|first case' | head -${SHOW:-4} | cut -c1-400
  tail -1 /tmp/seed_try_$c.log | cut -c1-300
done
git -C /repo checkout -- .
git -C /verif checkout -- evidence/
[ -z "$(git -C /repo status --short)" ] || echo "WARNING: /repo not clean after undo"
