#!/bin/sh
# run inside a vp-run snapshot with --with-repo: point the harness at the repo snapshot, then run thorough tiers
grep -rl '"/repo/' harness harness_real --include=Cargo.toml | xargs sed -i "s#\"/repo/#\"$VP_RUN_REPO/#g"
cp $VP_RUN_REPO/Cargo.lock harness/Cargo.lock 2>/dev/null
CHECKS="$*" tools/runall.sh thorough
