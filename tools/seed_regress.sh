#!/bin/bash
# tools/seed_regress.sh [ids...] : applies every seeded change to /repo in turn, runs the quick tier of the checks that
# are recorded as catching it (meta.json, result starting with VIOLATION) and reports whether each still does.
# /repo must be clean; it is restored after every change. Evidence files are restored at the end.
cd /verif
[ -z "$(git -C /repo status --short)" ] || { echo "/repo is not clean"; exit 2; }
ids=${@:-$(ls seeded | grep -v README)}
fail=0
for id in $ids; do
  d=seeded/$id
  [ -f $d/patch.diff ] || continue
  checks=$(python3 - "$d/meta.json" <<'PY'
import json,sys
m=json.load(open(sys.argv[1]))
seen=[]
for r in m['checks_run']:
    if 'VIOLATION' in r.get('result','') and r['check'] not in seen and r.get('tier')=='quick':
        seen.append(r['check'])
print(' '.join(seen))
PY
)
  if ! git -C /repo apply --check $PWD/$d/patch.diff 2>/dev/null; then echo "$id: patch no longer applies to the current tree (skipped)"; continue; fi
  git -C /repo apply $PWD/$d/patch.diff
  line="$id:"
  for c in $checks; do
    ./check $c --tier quick > /tmp/seed_regress_$c.log 2>&1; rc=$?
    n=$(grep -c '^VIOLATION' /tmp/seed_regress_$c.log)
    if [ $rc -eq 1 ] && [ $n -gt 0 ]; then line="$line $c=caught($n)"; else line="$line $c=MISSED(rc=$rc)"; fail=1; fi
  done
  git -C /repo checkout -- .
  echo "$line"
done
git -C /verif checkout -- evidence/
exit $fail
