#!/bin/sh
# Run once after a fresh restore (offline): prepare lock files and pre-build every harness binary,
# one cargo invocation per package (features must not be unified across packages: conc_seq vs conc_shim).
set -e
cd "$(dirname "$0")/.."
export CARGO_NET_OFFLINE=true
if [ ! -f harness/Cargo.lock ]; then cp /repo/Cargo.lock harness/Cargo.lock; fi
cd harness
for spec in fields:chk serial:chk serial:chkdbg hashes:chk merkle:chk polyfft:chk airdom:chk frichk:chk stark:chk stark:chkdbg conc_seq:chk conc_shim:chk; do
  pkg=${spec%%:*}; prof=${spec##*:}
  cargo build --offline --profile "$prof" -p "$pkg" 2>&1 | tail -1
done
# second workspace: the C14 scenario bodies on the real rayon (free-running complement)
cd ../harness_real
if [ ! -f Cargo.lock ]; then cp ../harness/Cargo.lock Cargo.lock; fi
cargo build --offline --profile chk -p conc_real 2>&1 | tail -1
