#!/bin/sh
# Run once after a fresh restore (offline): prepare lock files and pre-build the harness binaries.
set -e
cd "$(dirname "$0")/.."
export CARGO_NET_OFFLINE=true
for ws in harness harness_real; do
  if [ -d "$ws" ] && [ ! -f "$ws/Cargo.lock" ]; then cp /repo/Cargo.lock "$ws/Cargo.lock"; fi
done
cd harness
cargo build --offline --profile chk --workspace 2>&1 | tail -3
