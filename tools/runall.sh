#!/bin/sh
# usage: tools/runall.sh quick|thorough   — runs every registered check, prints one line each
cd "$(dirname "$0")/.."
tier=${1:-quick}
for id in ${CHECKS:-$(python3 -c "import json;print(' '.join(c['property_id'] for c in json.load(open('MANIFEST.json'))['checks']))")}; do
  start=$(date +%s)
  out=$(./check $id --tier $tier 2>&1); rc=$?
  end=$(date +%s)
  # keep a copy of what the deep tier covered (evidence/<id>.json itself is rewritten by every run)
  if [ "$tier" = "thorough" ] && [ $rc -eq 0 ]; then mkdir -p evidence_thorough; cp evidence/$id.json evidence_thorough/$id.json; fi
  echo "$id rc=$rc $((end-start))s $(echo "$out" | grep -c '^VIOLATION') violations $(echo "$out" | grep -c '^KNOWN-FINDING') known :: $(echo "$out" | tail -1 | cut -c1-150)"
done
