#!/usr/bin/env python3
"""Regenerates /verif/seeded/README.md from the meta.json files."""
import json, glob, os
rows = []
for m in sorted(glob.glob('/verif/seeded/*/meta.json')):
    d = json.load(open(m))
    rows.append(d)
out = ["# Seeded property-breaking changes", "",
       "Each directory holds `patch.diff` (apply with `git -C /repo apply`), the demonstration that fails with the change and passes without it,",
       "the author's notes and `meta.json`. Every change compiles, keeps the repository's own suite green (264 passed) and was written by an",
       "independent sub-agent that saw only the property text and a scratch worktree. Confirmation (suite / demonstration with / without) was",
       "re-run by `tools/seed_verify.sh`; the checks were run by `tools/seed_try.sh` against `/repo` with the patch applied and reverted.", "",
       "`MISSED` entries are kept on purpose: they record what the first version of a check did not see and what was strengthened.", "",
       "| id | breaks | what it needs to manifest | checks run (tier: result) |", "|---|---|---|---|"]
for d in rows:
    runs = "<br>".join(f"{r.get('check','?')} {r.get('tier','?')}: {r.get('result','?')}" for r in d['checks_run'])
    out.append(f"| {d['id']} | {d['breaks_property']} | {d['needs_to_manifest']} | {runs} |")
open('/verif/seeded/README.md', 'w').write("\n".join(out) + "\n")
print(len(rows), "seeded changes")
