#!/bin/bash
# tools/seed_intake.sh <property> : confirms the change a sub-agent left in /tmp/wt/<property>/_seed (patch.diff, demo, DEMO.json)
# in that scratch worktree (suite green with it, demonstration fails with / passes without). Writes _seed/verify.log.
p=$1; wt=/tmp/wt/$p; s=$wt/_seed
[ -f $s/DEMO.json ] || { echo "no DEMO.json"; exit 2; }
demo=$(jq -r .demo_file $s/DEMO.json); dest=$(jq -r .goes_to $s/DEMO.json); cmd=$(jq -r .command $s/DEMO.json)
echo "needs: $(jq -r .needs $s/DEMO.json)"
grep '^+++ b/' $s/patch.diff
/verif/tools/seed_verify.sh $wt $s/patch.diff $s/$demo $wt/$dest bash -c "cd $wt && $cmd" | tee $s/verify.log
